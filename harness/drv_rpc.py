"""T2 driver for RpcGate.v (property C17): the XML-RPC method x Supvisors-state matrix, re-measured at every run.

Every cell = (node view, request).  For each cell a FRESH world is built:
  * svenv.make_supvisors() (real options / mapper / Context / SupvisorsStateModes), a real FiniteStateMachine (thin
    subclass that only logs the three user-request entry points), a real RPCInterface ;
  * recording fakes for starter / stopper / starter_model / failure_handler / rpc_handler / supervisor_updater /
    supervisor_data (+ its Supervisor RPC interface) / server_options / stats_collector ;
  * the FSM is brought to the target Supvisors state and Master role by a REAL history of events (ticks,
    authorizations, process information, state events of the peer, end_sync / restart / shutdown requests, peer
    failure).  The few (state, role) points that no event sequence holds still are obtained by assigning
    state_modes.master_identifier directly; they are listed in DIRECT and reported in the distribution.
Observable of a cell: outcome class (result | RPCError fault name | exception kind), effect bit (any call recorded on a
fake during the XML-RPC), changed bit (the canonical snapshot of the context differs), Supvisors state and Master role
after the call.
"""
import inspect
import os
import re
import time

import svenv
from common import C, app, coq
from propcheck import Suite

L = '10.0.0.1:25000'
R = '10.0.0.2:25000'
THIRD = '10.0.0.3:25000'
FOURTH = '10.0.0.4:25000'    # known instance whose handshake is completed but that has not ticked yet (CHECKED)
L_NICK = '10.0.0.1'
R_NICK = '10.0.0.2'
STEREO = 'supvisors_test'
MULTI = 'two_instances'       # stereotype shared by the peer (10.0.0.2) and the STOPPED instance (10.0.0.3)

STATES = ['OFF', 'SYNCHRONIZATION', 'ELECTION', 'DISTRIBUTION', 'OPERATION', 'CONCILIATION', 'RESTARTING',
          'SHUTTING_DOWN', 'FINAL']
ROLES = ['MSelf', 'MOther', 'MNone']

# ---------------------------------------------------------------------------------------------------------------
# Hand-written classification of the public methods: name -> (parameter kinds).  A public method of the real
# RPCInterface that is not in this table (new / renamed) makes the suite fail closed (see reflect_methods).
# kinds: strat, app, ns (= app + proc), inst, prog, num, level, flag, wait, regex
SIGNATURES = {
    'get_api_version': (), 'get_supvisors_state': (), 'get_all_instances_state_modes': (),
    'get_instance_state_modes': ('inst',), 'get_master_identifier': (), 'get_strategies': (),
    'get_statistics_status': (), 'get_network_info': ('inst',), 'get_all_instances_info': (),
    'get_instance_info': ('inst',), 'get_all_applications_info': (), 'get_application_info': ('app',),
    'get_application_rules': ('app',), 'get_all_process_info': (), 'get_process_info': ('ns',),
    'get_all_local_process_info': (), 'get_local_process_info': ('ns',), 'get_all_inner_process_info': ('inst',),
    'get_inner_process_info': ('inst', 'ns'), 'get_process_rules': ('ns',), 'get_conflicts': (),
    'start_application': ('strat', 'app', 'wait'), 'test_start_application': ('strat', 'app'),
    'stop_application': ('app', 'wait'), 'restart_application': ('strat', 'app', 'wait'),
    'start_args': ('ns', 'wait'), 'start_process': ('strat', 'ns', 'wait'), 'test_start_process': ('strat', 'ns'),
    'start_any_process': ('strat', 'regex', 'wait'), 'stop_process': ('ns', 'wait'),
    'restart_process': ('strat', 'ns', 'wait'), 'update_numprocs': ('prog', 'num', 'wait'),
    'enable': ('prog', 'wait'), 'disable': ('prog', 'wait'), 'conciliate': ('strat',),
    'restart_sequence': ('wait',), 'restart': (), 'shutdown': (), 'end_sync': ('inst',),
    'change_log_level': ('level',), 'enable_host_statistics': ('flag',), 'enable_process_statistics': ('flag',),
    'update_collecting_period': ('flag',), 'get_logger_levels': (),
}

STRATS = ['StOk', 'StOkInt', 'StUser', 'StBadStr', 'StBadInt', 'StBadType']
APPS = ['ApStopped', 'ApRunning', 'ApUnmanaged', 'ApUnknown']
PROCS = ['PrKnown', 'PrUnknown', 'PrStar', 'PrNone', 'PrInt']
INSTS = ['InIdent', 'InNick', 'InStereo', 'InUnknown', 'InEmpty', 'InStopped', 'InMulti', 'InChecked']
PROGS = ['PgKnown', 'PgUnknown']
NUMS = ['NumOk', 'NumZero', 'NumStr']
LEVELS = ['LvOk', 'LvOkInt', 'LvBad', 'LvBadInt']
REGEXES = ['RxMatch', 'RxNoMatch', 'RxBad']

DEFAULT_REQ = {'strat': 'StOk', 'app': 'ApStopped', 'proc': 'PrKnown', 'inst': 'InIdent', 'prog': 'PgKnown',
               'num': 'NumOk', 'level': 'LvOk', 'regex': 'RxMatch', 'wait': True, 'flag': False}
FIELDS = ['meth', 'strat', 'app', 'proc', 'inst', 'prog', 'num', 'level', 'regex', 'wait', 'flag']

APP_NAMES = {'ApStopped': 'appS', 'ApRunning': 'appR', 'ApUnmanaged': 'appU', 'ApUnknown': 'nope'}
APP_PROC = {'ApStopped': 's1', 'ApRunning': 'r1', 'ApUnmanaged': 'u1', 'ApUnknown': 'x1'}


def reflect_methods():
    """ every public callable of the real class; fail closed when it differs from the hand table """
    from supvisors.rpcinterface import RPCInterface
    names = sorted(n for n in dir(RPCInterface) if not n.startswith('_') and callable(getattr(RPCInterface, n)))
    missing = [n for n in names if n not in SIGNATURES]
    stale = [n for n in SIGNATURES if n not in names]
    if missing or stale:
        raise RuntimeError(f'C17 method table out of date: unclassified public methods={missing} '
                           f'methods that no longer exist={stale}')
    return names


def doc_mentions_state_fault(name):
    from supvisors.rpcinterface import RPCInterface
    return 'BAD_SUPVISORS_STATE' in (inspect.getdoc(getattr(RPCInterface, name)) or '')


# ---------------------------------------------------------------------------------------------------------------
# concrete parameter values
def namespec_of(a, p):
    grp = APP_NAMES[a]
    if p == 'PrInt':
        return 7
    if p == 'PrKnown':
        return f'{grp}:{APP_PROC[a]}'
    if p == 'PrUnknown':
        return f'{grp}:nope'
    if p == 'PrStar':
        return f'{grp}:*'
    return grp


def strat_value(meth, s):
    if s == 'StOk':
        return 'SENICIDE' if meth == 'conciliate' else 'CONFIG'
    if s == 'StOkInt':
        return 1          # LESS_LOADED / INFANTICIDE
    if s == 'StUser':
        return 'USER' if meth == 'conciliate' else 'LOCAL'
    return {'StBadStr': 'NOPE', 'StBadInt': 99, 'StBadType': 1.5}[s]


def inst_value(meth, i):
    if meth == 'end_sync':
        return {'InIdent': R, 'InNick': R_NICK, 'InStereo': STEREO, 'InUnknown': 'nope', 'InEmpty': '',
                'InStopped': THIRD, 'InMulti': MULTI, 'InChecked': FOURTH}[i]
    return {'InIdent': L, 'InNick': L_NICK, 'InStereo': STEREO, 'InUnknown': 'nope', 'InEmpty': '',
            'InStopped': THIRD, 'InMulti': MULTI, 'InChecked': FOURTH}[i]


def concrete_args(req):
    meth = req['meth']
    out = []
    for kind in SIGNATURES[meth]:
        if kind == 'strat':
            out.append(strat_value(meth, req['strat']))
        elif kind == 'app':
            out.append(APP_NAMES[req['app']])
        elif kind == 'ns':
            out.append(namespec_of(req['app'], req['proc']))
            if meth == 'start_args':
                out.append('-x 1')
            if meth in ('start_process', 'restart_process'):
                out.append('')
        elif kind == 'regex':
            out.append({'RxMatch': 's1$', 'RxNoMatch': 'zzz', 'RxBad': '('}[req['regex']])
            out.append('')
        elif kind == 'inst':
            out.append(inst_value(meth, req['inst']))
        elif kind == 'prog':
            out.append({'PgKnown': 'prog', 'PgUnknown': 'nope'}[req['prog']])
        elif kind == 'num':
            out.append({'NumOk': 2, 'NumZero': 0, 'NumStr': 'x'}[req['num']])
        elif kind == 'level':
            out.append({'LvOk': 'info', 'LvOkInt': 20, 'LvBad': 'nope', 'LvBadInt': 7}[req['level']])
        elif kind == 'flag':
            out.append(7.5 if meth == 'update_collecting_period' else req['flag'])
        elif kind == 'wait':
            out.append(req['wait'])
        else:
            raise RuntimeError(kind)
    return out


# ---------------------------------------------------------------------------------------------------------------
# recording fakes
QUERIES = {'in_progress', 'get_load_requests', 'check', 'trigger_jobs', 'get_subprocesses', 'getAllProcessInfo',
           'getProcessInfo', 'get_process_info', 'test_start_application', 'test_start_processes',
           'autorestart'}


class Rec:
    """ records every call (component, method) that is not a pure query """

    def __init__(self, log, name, returns=None, attrs=None):
        self.__dict__['_log'] = log
        self.__dict__['_name'] = name
        self.__dict__['_returns'] = dict(returns or {})
        self.__dict__.update(attrs or {})

    def __getattr__(self, attr):
        if attr.startswith('__'):
            raise AttributeError(attr)

        def call(*args, **kwargs):
            if attr not in QUERIES:
                self._log.append((self._name, attr))
            r = self._returns.get(attr)
            return r(*args) if callable(r) else r
        return call


class _Handler:
    def __init__(self):
        self.level = 10


class WorldLogger:
    """ per-world logger (level and handler levels are part of the snapshot: change_log_level overwrites them);
    every logging method is a no-op """

    def __init__(self):
        self.level = 10
        self.handlers = [_Handler()]

    def __getattr__(self, name):
        if name.startswith('__'):
            raise AttributeError(name)
        return lambda *args, **kwargs: None


class FakeParser:
    """ the rules file of the fixture: appS and appR are Managed, appU is not """

    def load_application_rules(self, name, rules):
        if name in ('appS', 'appR'):
            rules.managed = True
            rules.start_sequence = 1

    def load_program_rules(self, namespec, rules):
        pass


def pinfo(group, name, st, now):
    from supervisor.states import ProcessStates
    code = int(getattr(ProcessStates, st))
    run = st in ('STARTING', 'RUNNING', 'BACKOFF', 'STOPPING')
    return {'group': group, 'name': name, 'state': code, 'statename': st, 'expected': True,
            'now': now + 1000000, 'now_monotonic': now, 'start': now + 999990, 'start_monotonic': now - 10,
            'stop': 0 if run else now + 999995, 'stop_monotonic': 0 if run else now - 5,
            'pid': 1234 if run else 0, 'description': '', 'spawnerr': '', 'extra_args': '',
            'disabled': False, 'startsecs': 1, 'stopwaitsecs': 2, 'program_name': name, 'process_index': 0,
            'has_stdout': True, 'has_stderr': False}


LOCAL_PROCS = [('appS', 's1', 'STOPPED'), ('appR', 'r1', 'RUNNING'), ('appR', 'dup', 'RUNNING'),
               ('appU', 'u1', 'RUNNING')]
REMOTE_PROCS = [('appS', 's1', 'STOPPED'), ('appR', 'r1', 'STOPPED'), ('appR', 'dup', 'STOPPED'),
                ('appU', 'u1', 'STOPPED')]

_clock_installed = False


class World:
    """ one Supvisors instance (10.0.0.1) with one peer (10.0.0.2), driven by events """

    def __init__(self, user_sync=True):
        global _clock_installed
        from supvisors.statemachine import FiniteStateMachine
        from supvisors.ttypes import SynchronizationOptions
        from supvisors.rpcinterface import RPCInterface
        from supervisor.xmlrpc import Faults, RPCError
        if not _clock_installed:
            svenv.install_clock()
            _clock_installed = True
        svenv.CLOCK.now = 1000.0
        self.log = []
        self.direct = []
        self.busy = {'starter': False, 'stopper': False}
        self.seq = 0
        self.alive = []
        sv = self.sv = svenv.make_supvisors()
        # svenv may install a shared logger: the XML-RPC under test must see a logger owned by this world
        object.__setattr__(sv, 'logger', WorldLogger())
        sv.options.synchro_options = ([SynchronizationOptions.USER] if user_sync
                                      else [SynchronizationOptions.TIMEOUT])
        sv.parser = FakeParser()
        # configuration data: a stereotype carried by two instances (what their identification events assign;
        # the local instance already has its own stereotype and an instance is assigned stereotypes only once)
        sv.mapper._assign_stereotypes(R, {MULTI})
        sv.mapper._assign_stereotypes(THIRD, {MULTI})
        log = self.log
        sv.rpc_handler = Rec(log, 'rpc_handler')
        sv.starter = Rec(log, 'starter', {'in_progress': lambda: self.busy['starter'],
                                          'get_load_requests': lambda: {}})
        sv.stopper = Rec(log, 'stopper', {'in_progress': lambda: self.busy['stopper']})
        sv.starter_model = Rec(log, 'starter_model', {'test_start_application': lambda *a: [],
                                                      'test_start_processes': lambda *a: []})
        sv.failure_handler = Rec(log, 'failure_handler')
        sv.supervisor_updater = Rec(log, 'supervisor_updater', {'update_numprocs': lambda *a: ([], [])})
        sv.server_options = Rec(log, 'server_options', {'get_subprocesses': lambda prog: ['appR:r1']},
                                attrs={'program_configs': {'prog': object()}})
        sv.stats_collector = Rec(log, 'stats_collector')
        local_names = {f'{g}:{n}' for g, n, _ in LOCAL_PROCS}

        def get_process_info(namespec):
            if namespec not in local_names:
                raise RPCError(Faults.BAD_NAME, namespec)
            grp, name = namespec.split(':')
            st = next(s for g, n, s in LOCAL_PROCS if (g, n) == (grp, name))
            return pinfo(grp, name, st, 1000)

        def update_extra_args(namespec, extra_args):
            if namespec not in local_names:
                raise KeyError(namespec)

        sup_rpc = Rec(log, 'supervisor_rpc', {'startProcess': lambda *a: True,
                                              'getProcessInfo': get_process_info,
                                              'getAllProcessInfo': lambda: [pinfo(g, n, s, 1000)
                                                                            for g, n, s in LOCAL_PROCS]})
        sv.supervisor_data = Rec(log, 'supervisor_data',
                                 {'update_extra_args': update_extra_args,
                                  'get_process_info': lambda namespec: {'extra_args': '', 'disabled': False},
                                  'autorestart': lambda namespec: False},
                                 attrs={'supervisor_rpc_interface': sup_rpc})

        class RecordingFSM(FiniteStateMachine):
            """ the real FSM; the three user requests are logged (not counted as effects by themselves) """

            def on_restart(fsm):
                log.append(('fsm', 'on_restart'))
                return FiniteStateMachine.on_restart(fsm)

            def on_shutdown(fsm):
                log.append(('fsm', 'on_shutdown'))
                return FiniteStateMachine.on_shutdown(fsm)

            def on_end_sync(fsm, master):
                log.append(('fsm', 'on_end_sync'))
                return FiniteStateMachine.on_end_sync(fsm, master)

        sv.fsm = RecordingFSM(sv)
        self.rpc = RPCInterface(sv)

    # --- events of the history
    def status(self, ident):
        return self.sv.context.instances[ident]

    def tick(self, step=1):
        self.seq += 1
        svenv.CLOCK.now += step
        p = {'when': svenv.CLOCK.time(), 'when_monotonic': svenv.CLOCK.now, 'sequence_counter': self.seq}
        self.sv.context.on_local_tick_event(p)
        for r in self.alive:
            self.sv.fsm.on_tick_event(self.status(r), p)
        self.sv.fsm.on_timer_event(p)

    def authorize(self, ident):
        from supvisors.ttypes import AuthorizationTypes
        self.sv.fsm.on_authorization(self.status(ident), {'authorization': AuthorizationTypes.AUTHORIZED.value,
                                                          'now_monotonic': svenv.CLOCK.now + 0.5})

    def load(self, ident, procs):
        now = int(svenv.CLOCK.now)
        self.sv.fsm.on_all_process_info(self.status(ident), [pinfo(g, n, s, now) for g, n, s in procs])

    def peer_state(self, state, master, l_state='RUNNING', starting=False):
        from supvisors.ttypes import SupvisorsStates
        states = {i: 'STOPPED' for i in self.sv.mapper.instances}
        states[L] = l_state
        states[R] = 'RUNNING'
        self.last_peer = (state, master)
        self.sv.fsm.on_state_event(self.status(R), {
            'fsm_statecode': SupvisorsStates[state].value, 'degraded_mode': False, 'discovery_mode': False,
            'master_identifier': master, 'starting_jobs': starting, 'stopping_jobs': False,
            'instance_states': states})

    def peer_conflict(self):
        """ the peer reports a second running copy of appR:dup """
        now = int(svenv.CLOCK.now)
        self.sv.fsm.on_process_state_event(self.status(R), {
            'identifier': R, 'nick_identifier': R_NICK, 'group': 'appR', 'name': 'dup', 'state': 20,
            'extra_args': '', 'now': now + 1000000, 'now_monotonic': now, 'pid': 4321, 'expected': True,
            'spawnerr': ''})

    @property
    def state(self):
        return self.sv.fsm.state.name

    @property
    def role(self):
        m = self.sv.state_modes.master_identifier
        return 'MNone' if not m else ('MSelf' if m == L else 'MOther')

    def set_master_directly(self, role):
        self.direct.append('master_identifier')
        self.sv.state_modes.master_identifier = {'MSelf': L, 'MOther': R, 'MNone': ''}[role]

    # --- canonical histories
    def to_sync(self):
        self.tick()
        self.load(L, LOCAL_PROCS)
        self.authorize(L)
        self.tick()                       # OFF -> SYNCHRONIZATION
        self.alive.append(R)
        self.tick()                       # peer CHECKING
        self.load(R, REMOTE_PROCS)
        self.authorize(R)
        self.tick()                       # peer RUNNING
        self.peer_state('SYNCHRONIZATION', '')

    def drive(self, state, role, user_sync):
        fsm = self.sv.fsm
        if state == 'OFF':
            # first local TICK: the local instance is CHECKING and its process information is loaded (state stays OFF)
            self.tick()
            self.load(L, LOCAL_PROCS)
            if role != 'MNone':
                self.set_master_directly(role)
            return
        self.to_sync()
        if state == 'SYNCHRONIZATION':
            if role == 'MOther' and user_sync:
                # the peer declares a Master that is not RUNNING here: accepted (USER), SYNCHRONIZATION goes on
                self.peer_state('SYNCHRONIZATION', THIRD)
                self.tick()
            elif role != 'MNone':
                self.set_master_directly(role)
            return
        if not user_sync:
            raise RuntimeError('histories past SYNCHRONIZATION are driven with the USER option')
        if role == 'MSelf':
            fsm.on_end_sync(L)            # -> ELECTION, Master = local
            if state == 'ELECTION':
                return
            self.busy['starter'] = True
            self.peer_state('ELECTION', L)
            self.tick()                   # -> DISTRIBUTION (start sequence in progress)
            if state == 'DISTRIBUTION':
                return
            self.busy['starter'] = False
            self.tick()                   # -> OPERATION
            self.peer_state('OPERATION', L)
            if state == 'OPERATION':
                return
            if state == 'CONCILIATION':
                self.peer_conflict()
                self.tick()
                self.peer_state('CONCILIATION', L)
                return
            self.busy['stopper'] = True
            if state == 'SHUTTING_DOWN':
                fsm.on_shutdown()
                return
            fsm.on_restart()
            if state == 'RESTARTING':
                return
            self.busy['stopper'] = False
            self.tick()                   # -> FINAL
            return
        # the peer is the Master
        fsm.on_end_sync(R)
        if state == 'ELECTION':
            if role == 'MNone':
                self.set_master_directly(role)
            return
        self.peer_state('ELECTION', R)
        path = {'DISTRIBUTION': ['DISTRIBUTION'], 'OPERATION': ['DISTRIBUTION', 'OPERATION'],
                'CONCILIATION': ['DISTRIBUTION', 'OPERATION', 'CONCILIATION'],
                'RESTARTING': ['DISTRIBUTION', 'OPERATION', 'RESTARTING'],
                'SHUTTING_DOWN': ['DISTRIBUTION', 'OPERATION', 'SHUTTING_DOWN'],
                'FINAL': ['DISTRIBUTION', 'OPERATION', 'RESTARTING', 'FINAL']}[state]
        for s in path:
            if s == 'CONCILIATION':
                self.peer_conflict()
            self.peer_state(s, R)
        if role == 'MNone':
            # the Master has just been lost (XML-RPC failure seen by its proxy); the FSM has not been re-evaluated yet
            self.alive.remove(R)
            fsm.on_instance_failure(self.status(R))

    # --- canonical snapshot
    def snapshot(self):
        sv = self.sv
        ctx = sv.context
        apps = []
        for name, a in ctx.applications.items():
            procs = []
            for pname, p in a.processes.items():
                infos = sorted((i, int(v['state']), bool(v['disabled']), str(v.get('extra_args')), bool(v['expected']))
                               for i, v in p.info_map.items())
                procs.append((pname, int(p.state), sorted(p.running_identifiers), str(p.forced_state),
                              str(p.extra_args), repr(sorted(p.rules.serial().items(), key=str)), infos))
            apps.append((name, a.state.name, bool(a.major_failure), bool(a.minor_failure),
                         repr(sorted(a.rules.serial().items(), key=str)), procs))
        insts = [(i, s.state.name, sorted(s.processes)) for i, s in ctx.instances.items()]
        sms = [(i, sm.state.name, sm.degraded_mode, sm.discovery_mode, sm.master_identifier, sm.starting_jobs,
                sm.stopping_jobs, sorted((k, v.name) for k, v in sm.instance_states.items()))
               for i, sm in sv.state_modes.instance_state_modes.items()]
        opts = sv.options
        options = (bool(opts.host_stats_enabled), bool(opts.process_stats_enabled), float(opts.collecting_period),
                   opts.auto_fence, opts.starting_strategy.name, opts.conciliation_strategy.name,
                   opts.supvisors_failure_strategy.name, [o.name for o in opts.synchro_options],
                   sv.logger.level, [h.level for h in sv.logger.handlers])
        fsm = (sv.fsm.state.name, type(sv.fsm.instance).__name__, sorted(sv.state_modes.stable_identifiers),
               sv.state_modes.update_mark)
        return repr((apps, insts, sms, options, fsm))


DIRECT_POINTS = set()


def build_world(view):
    state, role, user_sync, jobs, collector = view
    natural_user = user_sync if state in ('OFF', 'SYNCHRONIZATION') else True
    w = World(user_sync=natural_user)
    w.drive(state, role, natural_user)
    if jobs:
        # the peer publishes starting jobs in progress (real state event)
        st, m = getattr(w, 'last_peer', ('OFF', ''))
        sm = w.sv.state_modes.instance_state_modes[R]
        w.sv.state_modes.on_instance_state_event(R, {
            'fsm_statecode': sm.state.value, 'degraded_mode': False, 'discovery_mode': False,
            'master_identifier': sm.master_identifier, 'starting_jobs': True, 'stopping_jobs': False,
            'instance_states': {k: v.name for k, v in sm.instance_states.items()}})
    if jobs in ('lost_isolated', 'lost_stopped'):
        # ... and is then lost (real Context.invalidate, fenced or not): the jobs of a lost instance do not count
        from supvisors.ttypes import SupvisorsInstanceStates
        w.sv.context.instances[R].state = SupvisorsInstanceStates.FAILED
        w.sv.context.invalidate(w.sv.context.instances[R], fence=(jobs == 'lost_isolated'))
    if natural_user != user_sync:
        from supvisors.ttypes import SynchronizationOptions
        w.direct.append('synchro_options')
        w.sv.options.synchro_options = [SynchronizationOptions.TIMEOUT]
    if not collector:
        w.sv.stats_collector = None       # psutil not installed
    if (w.state, w.role) != (state, role):
        raise RuntimeError(f'history did not reach {state}/{role}: got {w.state}/{w.role}')
    # at call time both sequencers report jobs in progress after any request
    w.busy['starter'] = True
    w.busy['stopper'] = True
    return w


def fault_name(code):
    from supervisor.xmlrpc import Faults
    from supvisors.ttypes import SupvisorsFaults
    for f in SupvisorsFaults:
        if f.value == code:
            return f.name
    for name in dir(Faults):
        if not name.startswith('_') and getattr(Faults, name) == code:
            return name
    return 'OTHER_FAULT'


MODELLED_FAULTS = {'BAD_SUPVISORS_STATE', 'NOT_MANAGED', 'NOT_APPLICABLE', 'NOT_INSTALLED', 'DISABLED', 'BAD_NAME',
                   'INCORRECT_PARAMETERS', 'ALREADY_STARTED', 'NOT_RUNNING', 'FAILED', 'ABNORMAL_TERMINATION',
                   'STILL_RUNNING'}


def crash_kind(exc):
    table = [(KeyError, 'RKeyError'), (RuntimeError, 'RRuntimeError'), (ValueError, 'RValueError'),
             (TypeError, 'RTypeError'), (AttributeError, 'RAttributeError'), (IndexError, 'RIndexError'),
             (re.error, 'RReError')]
    from supvisors.ttypes import InvalidTransition
    if isinstance(exc, InvalidTransition):
        return 'RInvalidTransition'
    for cls, name in table:
        if isinstance(exc, cls):
            return name
    return 'ROtherError'


def run_cell(cell):
    """ cell = (view, req) with view = (state, role, user_sync, jobs, collector) and req a dict """
    from supervisor.xmlrpc import RPCError
    view, req = cell
    w = build_world(view)
    for d in w.direct:
        DIRECT_POINTS.add((view[0], view[1], d))
    if req['inst'] == 'InChecked':
        # an active instance that is not RUNNING: handshake completed (CHECKING -> CHECKED), first TICK not received
        from supvisors.ttypes import SupvisorsInstanceStates
        w.sv.context.instances[FOURTH].state = SupvisorsInstanceStates.CHECKING
        w.sv.context.instances[FOURTH].state = SupvisorsInstanceStates.CHECKED
    before = w.snapshot()
    del w.log[:]
    args = concrete_args(req)
    try:
        getattr(w.rpc, req['meth'])(*args)
        outcome = ('Served',)
    except RPCError as exc:
        name = fault_name(exc.code)
        outcome = ('Fault', name if name in MODELLED_FAULTS else 'OTHER_FAULT')
    except Exception as exc:  # an exception IS an observable
        outcome = ('CrashO', crash_kind(exc))
    calls = [c for c in w.log if c[0] != 'fsm']
    after = w.snapshot()
    return {'outcome': outcome, 'effect': bool(calls), 'changed': before != after, 'state': w.state,
            'role': w.role, 'calls': sorted(set(f'{a}.{b}' for a, b in w.log)), 'direct': list(w.direct)}


# ---------------------------------------------------------------------------------------------------------------
def requests_of(meth, thorough=False):
    """ the parameter domain enumerated for one method.  Name-like parameters (application, namespec, instance,
    program, numprocs, level, regex, flag) are enumerated as a full product, crossed with {valid, unknown-string}
    strategies; the other strategy flavours and wait=False are combined with otherwise valid parameters.
    get_inner_process_info: every instance kind x valid namespec, and every namespec x valid instance.
    thorough: the full product of every parameter kind the method takes (all six strategy flavours, wait on/off,
    every application x every namespec kind, every instance x every namespec). """
    sig = SIGNATURES[meth]
    base = dict(DEFAULT_REQ, meth=meth)
    if meth in ('restart_application', 'stop_application', 'restart_process', 'stop_process',
                'get_inner_process_info'):
        base['app'] = 'ApRunning'
    if meth == 'end_sync':
        base['inst'] = 'InEmpty'
    reqs = [base]

    def expand(field, values):
        nonlocal reqs
        reqs = [dict(r, **{field: v}) for r in reqs for v in values]

    if meth == 'get_inner_process_info' and not thorough:
        reqs = ([dict(base, inst=i) for i in INSTS]
                + [dict(base, app=a, proc=p) for a in APPS for p in PROCS])
        sig = ()
    procs = [p for p in PROCS if not (meth == 'get_local_process_info' and p == 'PrInt')]
    for kind in sig:
        if kind == 'strat':
            expand('strat', STRATS if (thorough or meth == 'conciliate') else ['StOk', 'StBadStr'])
        elif kind == 'app':
            expand('app', APPS)
        elif kind == 'ns':
            # namespecs: every application x {known, unknown, group, bare} process; a non-string namespec is the
            # same value whatever the application; an unknown strategy is crossed with 4 representative namespecs
            full = [(a, p) for a in APPS for p in procs if p != 'PrInt']
            if 'PrInt' in procs:
                full.append((base['app'], 'PrInt'))
            short = [(base['app'], 'PrKnown'), ('ApUnknown', 'PrKnown'), (base['app'], 'PrUnknown'),
                     (base['app'], 'PrInt')]
            if thorough:
                full = short = [(a, p) for a in APPS for p in procs]
            reqs = [dict(r, app=a, proc=p) for r in reqs
                    for a, p in (short if r['strat'] == 'StBadStr' else full)]
        elif kind == 'regex':
            expand('regex', REGEXES)
        elif kind == 'inst':
            expand('inst', INSTS)
        elif kind == 'prog':
            expand('prog', PROGS)
        elif kind == 'num':
            expand('num', NUMS)
        elif kind == 'level':
            expand('level', LEVELS)
        elif kind == 'flag':
            expand('flag', [False, True])
        elif kind == 'wait' and thorough:
            expand('wait', [True, False])
    if 'strat' in sig and meth != 'conciliate':
        for st in ('StOkInt', 'StUser', 'StBadInt', 'StBadType'):
            reqs.append(dict(base, strat=st))
    if 'wait' in sig:
        reqs.append(dict(base, wait=False))
    seen, out = set(), []
    for r in reqs:
        k = tuple(r[f] for f in FIELDS)
        if k not in seen:
            seen.add(k)
            out.append(r)
    return out


def views_of(meth):
    out = []
    for st in STATES:
        for role in ROLES:
            users = [True, False] if meth == 'end_sync' else [True]
            for u in users:
                out.append((st, role, u, False, True))
            if meth == 'restart_sequence':
                out.append((st, role, True, True, True))
                if role == 'MSelf' and st != 'OFF':     # (the peer is RUNNING from SYNCHRONIZATION on)
                    # jobs published by a slave that is then invalidated (ISOLATED / STOPPED)
                    out.append((st, role, True, 'lost_isolated', True))
                    out.append((st, role, True, 'lost_stopped', True))
            if meth in ('enable_host_statistics', 'enable_process_statistics', 'update_collecting_period',
                        'get_statistics_status'):
                out.append((st, role, True, False, False))
    return out


def _pool_run(cells):
    import multiprocessing as mp
    nproc = min(16, os.cpu_count() or 1)
    if nproc <= 1 or len(cells) < 64:
        return [run_cell(c) for c in cells]
    ctx = mp.get_context('fork')
    with ctx.Pool(nproc) as pool:
        return pool.map(run_cell, cells, chunksize=max(1, len(cells) // (nproc * 8)))


class RpcGateSuite(Suite):
    name = 'rpcgate'
    prelude = 'From Sup Require Import Base RpcGate.\nOpen Scope Z_scope.'
    case_type = 'case'
    evals = {'mismatches': 'mismatches', 'spec_violations': 'spec_violations',
             'known:namespec-not-a-string': 'known_namespec_not_string'}
    shard_size = 800
    exhaustive = True

    def __init__(self):
        self.cache = {}
        self.doc = {}

    @staticmethod
    def key(cell):
        view, req = cell
        return (view, tuple(req[f] for f in FIELDS))

    def generate(self, rng, tier):
        names = reflect_methods()
        self.doc = {n: doc_mentions_state_fault(n) for n in names}
        cells = []
        for meth in names:
            for view in views_of(meth):
                for req in requests_of(meth, thorough=(tier == 'thorough')):
                    cells.append((view, req))
        t0 = time.perf_counter()
        results = _pool_run(cells)
        self.measure_s = time.perf_counter() - t0
        for c, r in zip(cells, results):
            self.cache[self.key(c)] = r
        return cells

    def execute(self, cell):
        k = self.key(cell)
        if k not in self.cache:
            self.cache[k] = run_cell(cell)
        return self.cache[k]

    # ---------------- emission
    def emit(self, cell, obs):
        view, req = cell
        st, role, user, jobs, coll = view
        v = app('mk_view', C('S_' + st), C(role), user, jobs is True, coll)
        r = app('mk_req', C('M_' + req['meth']), C(req['strat']), C(req['app']), C(req['proc']), C(req['inst']),
                C(req['prog']), C(req['num']), C(req['level']), C(req['regex']), req['wait'], req['flag'])
        oc = obs['outcome']
        o = C('Served') if oc[0] == 'Served' else app(oc[0], C(('F_' if oc[0] == 'Fault' else '') + oc[1]))
        ob = app('mk_obs', o, obs['effect'], obs['changed'], C('S_' + obs['state']), C(obs['role']))
        if not self.doc:
            self.doc = {n: doc_mentions_state_fault(n) for n in reflect_methods()}
        return coq((v, r, ob, bool(self.doc[req['meth']])))

    def describe(self, cell, obs):
        view, req = cell
        return {'view': list(view), 'request': {f: req[f] for f in FIELDS},
                'call': f"{req['meth']}({', '.join(repr(a) for a in concrete_args(req))})",
                'observed': {k: (list(v) if isinstance(v, tuple) else v) for k, v in obs.items()}}

    def from_description(self, desc):
        return (tuple(desc['view']), dict(desc['request']))

    def nontrivial(self, cell, obs):
        view, req = cell
        return (view, tuple(req[f] for f in FIELDS))      # every cell is a distinct point of the matrix

    def distribution(self, inputs, observeds):
        out = {}
        per_meth = {}
        for (view, req), o in zip(inputs, observeds):
            k = o['outcome'][0] + (':' + o['outcome'][1] if len(o['outcome']) > 1 else '')
            out[k] = out.get(k, 0) + 1
            per_meth[req['meth']] = per_meth.get(req['meth'], 0) + 1
        return {'outcomes': out, 'cells_per_method': per_meth, 'methods': len(per_meth),
                'states_x_roles': len(STATES) * len(ROLES),
                'points_set_directly (state, role, what)': sorted(DIRECT_POINTS) or
                sorted({(v[0], v[1], d) for (v, _), o in zip(inputs, observeds) for d in o.get('direct', [])}),
                'measure_seconds': round(getattr(self, 'measure_s', 0.0), 2)}


# ---------------------------------------------------------------------------------------------------------------
def replay_findings():
    """ independent replays, on the real RPCInterface and without the worlds of this driver (MockedSupvisors of the
    test-suite), of the former C17 findings (fixed in /repo: they must now give clean faults / results) and of the
    remaining one (N3).  Run: PYTHONPATH=/repo /venv/bin/python harness/drv_rpc.py """
    from unittest.mock import Mock
    from supervisor.xmlrpc import RPCError
    from supvisors.rpcinterface import RPCInterface
    from supvisors.statemachine import FiniteStateMachine
    from supvisors.application import ApplicationStatus, ApplicationRules
    from supvisors.ttypes import SupvisorsStates
    sv = svenv.make_supvisors()
    sv.starter, sv.stopper = Mock(), Mock()
    rpc = RPCInterface(sv)

    def attempt(label, f):
        try:
            print(label, '->', f())
        except RPCError as e:
            print(label, '-> RPCError', fault_name(e.code), e.text)
        except Exception as e:
            print(label, '-> EXCEPTION', type(e).__name__, e)

    attempt("F20 get_network_info('10.0.0.1')['identifier']", lambda: rpc.get_network_info('10.0.0.1')['identifier'])
    attempt("F20 get_network_info('supvisors_test')['identifier']",
            lambda: rpc.get_network_info('supvisors_test')['identifier'])
    sv.mapper._assign_stereotypes(R, {MULTI})
    sv.mapper._assign_stereotypes(THIRD, {MULTI})
    attempt(f"F20 get_network_info('{MULTI}')", lambda: rpc.get_network_info(MULTI))
    sv.fsm.state = SupvisorsStates.OPERATION
    sv.context.applications['appU'] = ApplicationStatus('appU', ApplicationRules(sv), sv)   # not Managed
    attempt("F19 restart_application('CONFIG', 'appU', False)", lambda: rpc.restart_application('CONFIG', 'appU', False))
    print('     stopper calls:', [c[0] for c in sv.stopper.method_calls])
    sv.rpc_handler = Mock()
    sv.fsm = FiniteStateMachine(sv)
    sv.state_modes.local_state_modes.state = SupvisorsStates.OPERATION
    sv.state_modes.master_identifier = ''
    attempt("F18 restart() in OPERATION, Master lost", rpc.restart)
    attempt("F18 shutdown() in OPERATION, Master lost", rpc.shutdown)
    sv.context.applications['appU'].processes['u1'] = Mock(namespec='appU:u1')
    attempt("N1 start_args('appU:*', '')", lambda: rpc.start_args('appU:*', ''))
    attempt("N2 start_any_process('CONFIG', '(')", lambda: rpc.start_any_process('CONFIG', '('))
    attempt("N3 get_process_info(7)   [known finding namespec-not-a-string]", lambda: rpc.get_process_info(7))


if __name__ == '__main__':
    replay_findings()
