"""T3 driver for Cluster.v: N real Supvisors instances (real Context / StateModes / FiniteStateMachine / listener
dispatch / SupervisorProxyServer + SupervisorProxy.publish / check_instance / handle_exception and the real
RPCInterface on the remote side), composed by a transport that the harness owns (FIFO channel per ordered pair,
one local notification queue per node). The scheduler actions are those of Cluster.v."""
import json
import types

import svenv
import os
from common import C, app, coq, some
from propcheck import Suite, list_cuts
import drv_node
from drv_node import ident, idx, INAMES, ISTATES, SSTATES, N_ORC, NodeSuite


class FakeRemote:
    """ stands for xmlrpclib.ServerProxy(...) of instance j: calls go to j's real RPCInterface """

    def __init__(self, cluster, src, dst):
        self.cluster, self.src, self.dst = cluster, src, dst

    @property
    def supvisors(self):
        remote = self

        class Namespace:
            def __getattr__(self, name):
                def call(*args):
                    cl, src, dst = remote.cluster, remote.src, remote.dst
                    # like xmlrpclib: the connection is attempted when the method is called
                    if not cl.up[dst] or (src, dst) in cl.cut or (dst, src) in cl.cut:
                        raise OSError('unreachable')
                    if name == 'get_all_local_process_info':
                        # the fake Supervisors of the cluster harness host no process (process plane: other suites)
                        return []
                    from supvisors.rpcinterface import RPCInterface
                    return getattr(RPCInterface(cl.supv[dst]), name)(*args)
                return call
        return Namespace()


def make_proxy_class(cluster, owner):
    from supvisors.internal_com.supervisorproxy import (SupervisorProxyThread, InternalEventHeaders,
                                                         SUPVISORS_PUBLICATION, SUPVISORS_NOTIFICATION)
    from supvisors.ttypes import RequestHeaders

    class FakeProxy(SupervisorProxyThread):
        def start(self):
            pass

        def join(self, timeout=None):
            pass

        @property
        def proxy(self):
            return FakeRemote(cluster, owner, idx(self.status.identifier))

        def push_message(self, message):
            event_type, (source, body) = message
            if event_type == InternalEventHeaders.REQUEST:
                if body[0] == RequestHeaders.CHECK_INSTANCE.value:
                    cluster.pending[owner].append(idx(self.status.identifier))
                    cluster.pending_ts[owner].append(svenv.CLOCK.now)
                else:
                    cluster.requests[owner].append((idx(self.status.identifier), body[0]))
            elif event_type == InternalEventHeaders.PUBLICATION:
                # queued like in the real thread: the proxy thread evaluates its filter after the main thread has
                # finished the step (RealCluster.flush)
                self.queue.put_nowait(message)
                cluster.deferred[owner].append(self)
            else:
                self.process_event(message)

        def stop(self):
            # a stopped proxy thread never serves its backlog
            while not self.queue.empty():
                self.queue.get_nowait()

        def send_remote_comm_event(self, event_type, event):
            dst = idx(self.status.identifier)
            msg = json.dumps(event)
            if event_type == SUPVISORS_NOTIFICATION:
                cluster.inbox[owner].append(msg)
            elif (owner, dst) not in cluster.cut:
                cluster.chan.setdefault((owner, dst), []).append(msg)
            else:
                # the XML-RPC over a cut link fails (OSError in xml_rpc)
                from supvisors.internal_com.supervisorproxy import SupervisorProxyException
                raise SupervisorProxyException
    return FakeProxy


class RealCluster:
    def __init__(self, suite, cfg, members):
        from supvisors.internal_com.supervisorproxy import SupervisorProxyServer
        from supvisors.ttypes import SupvisorsInstanceStates
        self.cfg, self.members = cfg, list(members)
        self.supv, self.rec, self.up, self.cnt = {}, {}, {}, {}
        self.pending, self.inbox, self.deferred, self.requests = {}, {}, {}, {}
        self.pending_ts = {}   # harness-only: when each pending CHECK_INSTANCE request was queued
        self.chan, self.cut = {}, set()
        self.suite = suite
        for k in self.members:
            self.boot(k)

    def boot(self, k, now=1000):
        from supvisors.internal_com.supervisorproxy import SupervisorProxyServer
        from supvisors.ttypes import SupvisorsInstanceStates
        supv, rec = drv_node.build_node(self.cfg, local=k, now=now)
        # the glue under test: real proxy server with harness transport
        server = SupervisorProxyServer(supv)
        server.klass = make_proxy_class(self, k)
        real_rh = types.SimpleNamespace(proxy_server=server)
        from supvisors.internal_com.rpchandler import RpcHandler
        handler = RpcHandler.__new__(RpcHandler)
        handler.supvisors = supv
        handler.proxy_server = server
        supv.rpc_handler = handler
        self.supv[k], self.rec[k] = supv, rec
        self.up[k], self.cnt[k] = True, 0
        self.pending[k], self.inbox[k], self.deferred[k], self.requests[k] = [], [], [], []
        self.pending_ts[k] = []

    def flush(self, k):
        """ the proxy threads of node k handle the publications queued during the step """
        items, self.deferred[k] = self.deferred[k], []
        for proxy in items:
            # one message per entry: global FIFO order of the pushes (publication-major, peers in mapper order)
            if not proxy.queue.empty():
                proxy.process_event(proxy.queue.get_nowait())

    def lst(self, k):
        supv = self.supv[k]
        return types.SimpleNamespace(supvisors=supv, fsm=supv.fsm, logger=supv.logger)

    def apply(self, a):
        from supvisors.listener import SupervisorListener
        from supvisors.ttypes import PublicationHeaders
        kind = a[0]
        if kind == 'ATick':
            _, i, now, orcs = a
            if not self.up[i]:
                return
            supv, rec = self.supv[i], self.rec[i]
            rec.orcs, rec.k, rec.first[0] = orcs, 0, True
            svenv.CLOCK.now = now
            # like SupervisorListener.on_tick: the payload carries the current counter, then it is incremented
            p = {'when': now + 1e6, 'when_monotonic': now, 'sequence_counter': self.cnt[i]}
            self.cnt[i] += 1
            supv.context.on_local_tick_event(p)
            supv.fsm.on_timer_event(p)
            supv.rpc_handler.send_tick_event(p)
            self.flush(i)
        elif kind == 'ADeliver':
            _, i, j, now, orcs = a
            q = self.chan.get((j, i), [])
            if not q:
                return
            msg = q.pop(0)
            if not self.up[i]:
                return
            rec = self.rec[i]
            rec.orcs, rec.k, rec.first[0] = orcs, 0, True
            svenv.CLOCK.now = now
            SupervisorListener.read_publication(self.lst(i), msg)
            self.flush(i)
        elif kind in ('AHandshake', 'AHandshakeLate'):
            if kind == 'AHandshake':
                _, i, now = a
                ts = now
            else:
                _, i, ts, now = a
            if not self.pending[i] or not self.up[i]:
                return
            j = self.pending[i].pop(0)
            self.pending_ts[i].pop(0)
            svenv.CLOCK.now = now
            proxy = self.supv[i].rpc_handler.proxy_server.get_proxy(ident(j))
            if proxy:
                from supvisors.internal_com.supervisorproxy import InternalEventHeaders
                from supvisors.ttypes import RequestHeaders
                # check_instance reads the clock once when it starts; a slow handshake started at ts
                svenv.CLOCK.once = [ts] if ts != now else []
                try:
                    proxy.process_event((InternalEventHeaders.REQUEST,
                                         (ident(i), (RequestHeaders.CHECK_INSTANCE.value, None))))
                finally:
                    svenv.CLOCK.once = []
        elif kind == 'ANotify':
            _, i, now, orcs = a
            if not self.inbox[i] or not self.up[i]:
                return
            msg = self.inbox[i].pop(0)
            rec = self.rec[i]
            rec.orcs, rec.k, rec.first[0] = orcs, 0, True
            svenv.CLOCK.now = now
            SupervisorListener.read_notification(self.lst(i), msg)
            self.flush(i)
        elif kind == 'ACrash':
            i = a[1]
            self.up[i] = False
            self.inbox[i], self.pending[i], self.deferred[i] = [], [], []
            self.pending_ts[i] = []
        elif kind == 'ARestart':
            i = a[1]
            if not self.up[i]:
                self.boot(i, now=a[2])
        elif kind == 'ACut':
            self.cut.add((a[1], a[2]))
        elif kind == 'AHeal':
            self.cut.discard((a[1], a[2]))
        else:
            raise RuntimeError(kind)

    def observe(self):
        nodes = []
        for k in self.members:
            sm = self.supv[k].state_modes.local_state_modes
            nodes.append((k, self.up[k], sm.state.value, idx(sm.master_identifier),
                          [(idx(x), v.value) for x, v in sm.instance_states.items()], list(self.pending[k]),
                          len(self.inbox[k])))
        chans = [len(self.chan.get((i, j), [])) for i in self.members for j in self.members]
        views = [(k, [v for v in NodeSuite.views(self.supv[k]) if v[0] in self.members]) for k in self.members]
        return (nodes, chans, views)


class ClusterSuite(Suite):
    name = 'cluster'
    prelude = 'From Sup Require Import Node Cluster ClusterSpec.\nOpen Scope Z_scope.'
    case_type = 'ccase'
    evals = {'mismatches': 'cmismatches'}
    shard_size = 10      # a shard of long schedules costs coqc ~1 GB: 16 in parallel must fit in memory

    def __init__(self, evals=None, quick=(150, 120), thorough=(400, 300), quiet_rounds=0, convergent_cfg=False):
        self._clock = False
        self.quiet_rounds = quiet_rounds
        self.convergent_cfg = convergent_cfg
        self.node_suite = NodeSuite()
        if evals:
            self.evals = dict(evals)
        self.quick, self.thorough = quick, thorough

    def corpus(self):
        """ witnesses of cluster-level findings (fixed: cluster_park_*; known: cluster_window_*), quiet tail included """
        import glob
        out = []
        if self.quiet_rounds:
            for path in sorted(glob.glob(os.path.join(os.path.dirname(__file__), 'corpus', 'cluster_*.json'))):
                with open(path) as f:
                    out.append(self.from_description(json.load(f)))
        return out

    def generate(self, rng, tier):
        n, max_acts = self.quick if tier == 'quick' else self.thorough
        return [self.gen_schedule(rng, max_acts, faults=(k % 3 != 0)) for k in range(n)]

    def ensure_clock(self):
        if not self._clock:
            svenv.install_clock()
            self._clock = True
            self.node_suite._clock = True

    def gen_schedule(self, rng, max_acts, faults):
        """ adaptive: the real cluster is advanced while generating, so that deliveries / handshakes /
        notifications are chosen among the enabled ones; faults (crash, restart, cut, heal) are sprinkled """
        self.ensure_clock()
        cfg = self.node_suite.gen_cfg(rng)
        if self.convergent_cfg:
            # proviso of C08: the synchronisation condition can be met (TIMEOUT selected) and the failure strategy
            # is not SHUTDOWN (TIMEOUT forces CONTINUE); the other options stay random
            cfg.update(timeout=True, fstrategy='CONTINUE', user=False)
        members = sorted(rng.sample(range(1, 7), rng.choice([2, 2, 3, 3, 4])))
        if rng.random() < 0.7 and 1 not in members:
            members[0] = 1
            members.sort()
        # STRICT / LIST need every declared instance: make them satisfiable only sometimes (as in real life)
        cl = RealCluster(self, cfg, members)
        n_acts = rng.randint(max_acts // 3, max_acts)
        now = 1000
        acts = []
        busy_p = rng.choice([0.0, 0.0, 0.2])
        # slow proxies: in some schedules the handshake requests stay queued for long (hanging XML-RPCs), so that
        # they are served across an invalidation and a new CHECKING period of their target
        slow_hs = rng.random() < 0.3
        while len(acts) < n_acts:
            enabled = []
            for i in members:
                if not cl.up[i]:
                    continue
                enabled.append(('tick', i))
                if cl.pending[i] and (not slow_hs or rng.random() < 0.08):
                    enabled += [('hs', i)] * 3
                if cl.inbox[i]:
                    enabled += [('notify', i)] * 3
                for j in members:
                    if cl.chan.get((j, i)):
                        enabled += [('deliver', i, j)] * 2
            r = rng.random()
            if faults and r < 0.012 and sum(cl.up.values()) > 1:
                a = ('ACrash', rng.choice([i for i in members if cl.up[i]]))
            elif faults and r < 0.03 and not all(cl.up.values()):
                now += 1
                a = ('ARestart', rng.choice([i for i in members if not cl.up[i]]), now)
            elif faults and r < 0.04:
                i, j = rng.sample(members, 2)
                a = ('ACut', i, j)
            elif faults and r < 0.06 and cl.cut:
                i, j = rng.choice(sorted(cl.cut))
                a = ('AHeal', i, j)
            elif not enabled:
                a = ('ARestart', rng.choice(members), now)
            else:
                ch = rng.choice(enabled)
                if ch[0] == 'tick':
                    now += rng.choice([1, 2, 5])
                    a = ('ATick', ch[1], now, self.node_suite.gen_orcs(rng, busy_p))
                elif ch[0] == 'hs':
                    now += 1     # the proxy thread reads the clock after the main thread has entered CHECKING
                    if rng.random() < (0.7 if slow_hs else 0.25):
                        # a slow handshake: it started some time ago (possibly before a new CHECKING period)
                        # (never before the request was queued)
                        t1 = int(cl.pending_ts[ch[1]][0]) + 1
                        ts = t1 if slow_hs and rng.random() < 0.5 else max(now - rng.choice([1, 4, 8, 20, 45]), t1)
                        a = ('AHandshakeLate', ch[1], ts, now)
                    else:
                        a = ('AHandshake', ch[1], now)
                elif ch[0] == 'notify':
                    now += rng.randint(0, 1)
                    a = ('ANotify', ch[1], now, self.node_suite.gen_orcs(rng, busy_p))
                else:
                    now += rng.randint(0, 1)
                    a = ('ADeliver', ch[1], ch[2], now, self.node_suite.gen_orcs(rng, busy_p))
            acts.append(a)
            try:
                cl.apply(a)
            except Exception:
                return (cfg, members, acts)
        if self.quiet_rounds:
            self.quiet_tail(cl, members, acts, now)
        return (cfg, members, acts)

    def execute(self, inp):
        self.ensure_clock()
        cfg, members, acts = inp
        svenv.CLOCK.now = 1000
        cl = RealCluster(self, cfg, members)
        init = {k: NodeSuite.snapshot_init(cl.supv[k], cfg) for k in members}
        out, picks = [], []
        for a in acts:
            i = a[1] if a[0] in ('ATick', 'ADeliver', 'ANotify') else None
            try:
                if i is not None:
                    cl.rec[i].picks = {}
                cl.apply(a)
            except Exception as exc:
                out.append(('crash', svenv.crash_kind(exc)))
                picks.append(dict(cl.rec[i].picks) if i is not None else {})
                break
            out.append(('ok', cl.observe()))
            picks.append(dict(cl.rec[i].picks) if i is not None and cl.up.get(i) else {})
        return {'init': init, 'obs': out, 'picks': picks}

    # ---------------------------------------------------------------- emission
    def emit_fresh(self, cfg, init_k):
        return self.node_suite.emit_node(cfg, init_k)

    def emit(self, inp, observed):
        cfg, members, acts = inp
        ns = self.node_suite
        nodes = [(k, app('mkCnode', ns.emit_node(cfg, observed['init'][k]), True, 0, [], [])) for k in members]
        cluster = app('mkCluster', nodes, [], [])
        eacts = []
        for k, a in enumerate(acts[:len(observed['obs'])]):
            picks = observed['picks'][k]
            kind = a[0]
            if kind == 'ATick':
                eacts.append(app('ATick', a[1], a[2], ns.emit_orcs(a[3], picks)))
            elif kind == 'ADeliver':
                eacts.append(app('ADeliver', a[1], a[2], a[3], ns.emit_orcs(a[4], picks)))
            elif kind == 'AHandshake':
                eacts.append(app('AHandshake', a[1], a[2]))
            elif kind == 'AHandshakeLate':
                eacts.append(app('AHandshakeLate', a[1], a[2], a[3]))
            elif kind == 'ANotify':
                eacts.append(app('ANotify', a[1], a[2], ns.emit_orcs(a[3], picks)))
            elif kind == 'ACrash':
                eacts.append(app('ACrash', a[1]))
            elif kind == 'ARestart':
                init_k = dict(observed['init'][a[1]])
                init_k['start_date'] = a[2]
                eacts.append(app('ARestart', a[1], ns.emit_node(cfg, init_k)))
            elif kind == 'ACut':
                eacts.append(app('ACut', a[1], a[2]))
            elif kind == 'AHeal':
                eacts.append(app('AHeal', a[1], a[2]))
        obs = []
        for tag, val in observed['obs']:
            if tag == 'ok':
                nodes_o, chans, views = val
                obs.append(app('COk', (([(k, up, f, m, list(insts), list(pend), nin)
                                         for k, up, f, m, insts, pend, nin in nodes_o], list(chans)),
                                       [(k, [(j, f, d, m, list(insts)) for j, f, d, m, insts in vs])
                                        for k, vs in views])))
            else:
                obs.append(app('CCrash', C(val)))
        return coq((cluster, eacts, obs))

    def describe(self, inp, observed):
        cfg, members, acts = inp
        return {'cfg': cfg, 'members': members, 'actions': [list(a) for a in acts], 'observed': observed['obs'][-3:]}

    def from_description(self, desc):
        acts = []
        for a in desc['actions']:
            a = list(a)
            for k, x in enumerate(a):
                if isinstance(x, list):
                    a[k] = [tuple(y) for y in x]
            acts.append(tuple(a))
        return (desc['cfg'], desc['members'], acts)

    def nontrivial(self, inp, observed):
        states = set()
        masters = set()
        for t, v in observed['obs']:
            if t == 'ok':
                for nd in v[0]:
                    states.add(nd[2])
                    masters.add(nd[3])
        faults = any(a[0] in ('ACrash', 'ACut') for a in inp[2])
        if len(states) >= 4 and (faults or len(masters) >= 2):
            return repr((sorted(states), sorted(masters), len(inp[2]), inp[1]))
        return None

    def quiet_tail(self, cl, members, acts, now):
        """ disturbances stop: every link is healed, nobody crashes any more; K rounds of (tick every live
        instance, then serve every handshake / notification / publication until nothing is pending) """
        quiet = [(False, False, False)] * drv_node.N_ORC

        def do(a):
            acts.append(a)
            cl.apply(a)
        try:
            for (i, j) in sorted(cl.cut):
                do(('AHeal', i, j))
            for _ in range(self.quiet_rounds):
                for i in members:
                    if cl.up[i]:
                        now += 5
                        do(('ATick', i, now, quiet))
                progress = True
                budget = 400        # a round that never settles (messages keep producing messages) is cut short:
                while progress and budget > 0:      # the case then ends non-converged
                    budget -= 1
                    progress = False
                    for i in members:
                        if not cl.up[i]:
                            continue
                        steps = 0
                        while cl.pending[i] and steps < 200:
                            now += 1
                            do(('AHandshake', i, now))
                            progress = True
                            steps += 1
                        while cl.inbox[i] and steps < 400:
                            do(('ANotify', i, now, quiet))
                            progress = True
                            steps += 1
                        for j in members:
                            while cl.chan.get((j, i)) and steps < 600:
                                do(('ADeliver', i, j, now, quiet))
                                progress = True
                                steps += 1
        except Exception:
            pass

    def shrink_candidates(self, inp):
        cfg, members, acts = inp
        acts = list(acts)
        if not self.quiet_rounds:
            return [(cfg, members, cut) for cut in list_cuts(acts)]
        # keep the meaning of "ends with quiet rounds": only the disturbed prefix is cut, the quiet tail is
        # regenerated against the real cluster
        quiet = [(False, False, False)] * drv_node.N_ORC
        split = 0
        for k, a in enumerate(acts):
            if a[0] in ('ACrash', 'ARestart', 'ACut', 'AHandshakeLate') or \
                    (a[0] in ('ATick', 'ANotify', 'ADeliver') and [tuple(o) for o in a[-1]] != quiet):
                split = k + 1
        out = []
        for cut in list_cuts(acts[:split])[:24]:      # each candidate is replayed on a real cluster: keep it short
            self.ensure_clock()
            svenv.CLOCK.now = 1000
            cl = RealCluster(self, cfg, members)
            cut, now = list(cut), 1000
            try:
                for k, a in enumerate(cut):
                    if a[0] == 'AHandshakeLate' and cl.pending_ts.get(a[1]):
                        # keep the schedule physically possible after a cut: a handshake never starts before its
                        # request was queued
                        t1 = int(cl.pending_ts[a[1]][0]) + 1
                        if a[2] < t1:
                            a = cut[k] = ('AHandshakeLate', a[1], t1, max(t1, a[3]))
                    cl.apply(a)
                    now = max([now] + [x for x in a[1:] if isinstance(x, int) and x >= 1000])
            except Exception:
                continue
            self.quiet_tail(cl, members, cut, now)
            out.append((cfg, members, cut))
        return out

    def size_of(self, inp):
        return len(inp[2])

    def distribution(self, inputs, observeds):
        kinds, sizes, furthest, crashes = {}, {}, {}, {}
        for (cfg, members, acts), ob in zip(inputs, observeds):
            sizes[len(members)] = sizes.get(len(members), 0) + 1
            for a in acts:
                kinds[a[0]] = kinds.get(a[0], 0) + 1
            mx = 0
            for t, v in ob['obs']:
                if t == 'ok':
                    mx = max([mx] + [nd[2] for nd in v[0]])
                else:
                    crashes[v] = crashes.get(v, 0) + 1
            furthest[SSTATES[mx]] = furthest.get(SSTATES[mx], 0) + 1
        return {'action_kinds': kinds, 'cluster_sizes': sizes, 'furthest_fsm_state': furthest, 'crashes': crashes}
