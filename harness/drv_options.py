"""T3 driver for Options.v: option dictionaries through the real supvisors.options.SupvisorsOptions
(built the way supvisors/tests/test_options.py does: DummySupervisor + a mock logger), one to three
constructions in a row in the same process (the class-level default of synchro_options is process state).

The model receives the values lexed with the functions the converters apply first (integer, boolean, float,
Enum membership of value.upper(), list_of_strings); what is compared: every decision after lexing."""
import json
import math
import os
from unittest.mock import Mock

import svenv
from common import C, app, coq
from propcheck import Suite

INT_OPTS = {'multicast_ttl': (0, 255), 'event_port': (1, 65535), 'synchro_timeout': (15, 1200),
            'inactivity_ticks': (2, 720), 'stats_histo': (10, 1500)}
SYNC = ['STRICT', 'LIST', 'TIMEOUT', 'CORE', 'USER']
KEYS = ['multicast_ttl', 'multicast_group', 'multicast_interface', 'event_link', 'event_port', 'auto_fence',
        'synchro_options', 'synchro_timeout', 'inactivity_ticks', 'supvisors_list', 'core_identifiers',
        'conciliation_strategy', 'starting_strategy', 'supvisors_failure_strategy', 'stats_enabled',
        'stats_collecting_period', 'stats_periods', 'stats_histo', 'stats_irix_mode', 'tail_limit', 'tailf_limit']


def _pristine_default():
    """ the class-level default of synchro_options as the module defines it: captured when this driver is imported,
    before anything in the process had a chance to build a SupvisorsOptions (building one may shrink it) """
    svenv.setup()
    from supvisors.options import SupvisorsOptions
    return list(SupvisorsOptions.SYNCHRO_DEFAULT_OPTIONS)


PRISTINE = _pristine_default()


def fcoq(x):
    if math.isnan(x):
        return C('nan')
    if math.isinf(x):
        return C('infinity' if x > 0 else 'neg_infinity')
    h = float(x).hex()
    return C(f'({h})%float')


def lex_int(conf, key, conv=None):
    from supervisor.datatypes import integer
    if key not in conf:
        return C('IAbsent')
    try:
        return app('IInt', int((conv or integer)(conf[key])))
    except ValueError:
        return C('INotInt')


def lex_pz(s):
    from supervisor.datatypes import integer
    try:
        return app('ZOk', int(integer(s)))
    except ValueError:
        return C('ZBad')


def lex_bool(conf, key):
    from supervisor.datatypes import boolean
    if key not in conf:
        return C('BAbsent')
    try:
        return app('BVal', bool(boolean(conf[key])))
    except ValueError:
        return C('BNot')


def lex_enum(conf, key, klass):
    if key not in conf:
        return C('EAbsent')
    name = conf[key].upper()
    return app('ECode', int(klass[name].value)) if name in klass.__members__ else C('EUnknown')


def lex_float(s):
    try:
        return float(s)
    except ValueError:
        return None


class OptionsSuite(Suite):
    name = 'options'
    prelude = ('From Sup Require Import Options.\nFrom Coq Require Import PrimFloat.\n'
               'Open Scope Z_scope.')
    case_type = 'case'
    evals = {'mismatches': 'mismatches', 'spec_violations': 'spec_violations'}
    shard_size = 200

    def __init__(self):
        self.pristine = None
        self.sids = {'': 0}

    def sid(self, s):
        return self.sids.setdefault(s, len(self.sids))

    # ---------------- generation
    def gen_int(self, rng, lo, hi, hostile):
        r = rng.random()
        if r < 0.35:
            return str(rng.randint(lo, hi))
        if r < 0.7:
            return str(rng.choice([lo - 1, lo, lo + 1, hi - 1, hi, hi + 1, 0, -1, lo - 100, hi * 10]))
        if not hostile:
            return str(rng.randint(lo - 3, hi + 3))
        return rng.choice(['abc', '', '1.5', '1_0', ' 12 ', '+5', '0x10', '999999999999999999999', '-', '٣', 'None'])

    def gen_float(self, rng, hostile):
        r = rng.random()
        if r < 0.4:
            return rng.choice(['1', '5', '10', '60', '3600', '2.5', '77.7', '1.0', '3600.0', '1e3', '15'])
        if r < 0.7:
            return rng.choice(['0.9999999999999999', '1.0000000000000002', '3600.0000000000005',
                               '3599.9999999999995', '0', '-1', '3601', '1e4', '0.5', '-0.0'])
        if r < 0.85:
            return repr(rng.uniform(-10, 4000))
        if not hostile:
            return rng.choice(['inf', '-inf', '1e400', 'abc', ''])
        return rng.choice(['nan', 'NaN', '-nan', 'inf', 'abc', '', ' 7 ', '1_0', '1,5', 'infinity', '1e-400', '0x10'])

    def gen_config(self, rng, hostile):
        from supvisors.ttypes import (ConciliationStrategies, StartingStrategies, SupvisorsFailureStrategies,
                                      EventLinks)
        conf = {}
        p = rng.choice([0.15, 0.4, 0.7])
        for key, (lo, hi) in INT_OPTS.items():
            if rng.random() < p:
                conf[key] = self.gen_int(rng, lo, hi, hostile)
        for key in ('auto_fence', 'stats_irix_mode'):
            if rng.random() < p:
                conf[key] = rng.choice(['true', 'false', 'yes', 'no', 'on', 'off', '1', '0', 'TRUE', 'False']
                                       + (['maybe', '', 'y', 't', '2', ' true'] if hostile else []))
        for key, klass in (('event_link', EventLinks), ('conciliation_strategy', ConciliationStrategies),
                           ('starting_strategy', StartingStrategies),
                           ('supvisors_failure_strategy', SupvisorsFailureStrategies)):
            if rng.random() < (0.6 if key == 'supvisors_failure_strategy' else p):
                names = list(klass.__members__)
                v = rng.choice(names)
                r = rng.random()
                if r < 0.3:
                    v = v.lower()
                elif r < 0.4:
                    v = v.capitalize()
                elif r < 0.55:
                    v = rng.choice(['UNKNOWN', '', ' ' + v, v + ',', 'resync '])
                conf[key] = v
        if rng.random() < 0.6:
            toks = [rng.choice(SYNC) for _ in range(rng.choice([0, 1, 1, 2, 2, 3, 4]))]
            toks = [t.lower() if rng.random() < 0.3 else t for t in toks]
            if rng.random() < (0.25 if hostile else 0.08):
                toks.insert(rng.randint(0, len(toks)), rng.choice(['', 'BOGUS', 'strict ', 'ALL']))
            conf['synchro_options'] = rng.choice([',', ', ', ' ,']).join(toks)
        for key in ('supvisors_list', 'core_identifiers'):
            r = rng.random()
            if r < 0.5:
                conf[key] = ','.join(rng.choice(['cliche01', 'cliche02', 'cliche03', '10.0.0.1:25000'])
                                     for _ in range(rng.randint(1, 3)))
            elif r < 0.65:
                conf[key] = rng.choice(['', ',', ' , ', ' '])
        if rng.random() < p:
            toks = [rng.choice(['all', 'host', 'process', 'off', 'ALL', 'HOST', 'true', 'false', 'on', 'no']
                               + (['junk', '', 'y'] if hostile else []))
                    for _ in range(rng.choice([0, 1, 1, 1, 2, 3]))]
            conf['stats_enabled'] = ','.join(toks)
        if rng.random() < 0.55:
            conf['stats_collecting_period'] = self.gen_float(rng, hostile)
        if rng.random() < 0.6:
            n = rng.choice([0, 1, 1, 2, 2, 3, 3, 3, 4])
            conf['stats_periods'] = rng.choice([',', ', ']).join(self.gen_float(rng, hostile) for _ in range(n))
        if rng.random() < p:
            b0 = rng.choice(['224', '239', '223', '240', '230', '232', 'x', '-1'])
            rest = [rng.choice(['0', '0', '1', '255', '256', '-1', 'a', '00']) for _ in range(rng.choice([3, 3, 3, 2, 4]))]
            port = rng.choice(['1', '65535', '0', '65536', '7777', 'p', '', '80:80'])
            v = '.'.join([b0] + rest) + rng.choice([':', ':', ':', '', '::']) + port
            if rng.random() < 0.15:
                v = rng.choice(['224.0.0.0:1234', '239.0.0.0:1', '232.0.0.0:5', '233.0.0.0:80', '239.0.0.1:7777'])
            conf['multicast_group'] = v
        if rng.random() < p:
            conf['multicast_interface'] = rng.choice(
                ['ANY', 'INADDR_ANY', '192.168.1.1', '0.0.0.0', '255.255.255.255', '256.1.1.1', '1.2.3', '1.2.3.4.5',
                 'any', '', 'a.b.c.d', '10.0.0.-1', '10. 0.0.1'])
        for key in ('tail_limit', 'tailf_limit'):
            if rng.random() < p:
                conf[key] = rng.choice(['1024', '1MB', '2kb', '512', '0', '-3', 'x', '', '1.5MB', '3GB', 'MB'])
        return conf

    def generate(self, rng, tier):
        n = 1600 if tier == 'quick' else 30000
        out = []
        for k in range(n):
            hostile = (k % 4 == 3)
            out.append([self.gen_config(rng, hostile) for _ in range(rng.choice([1, 1, 2, 2, 3]))])
        return out

    def corpus(self):
        path = os.path.join(os.path.dirname(__file__), 'corpus', 'options.json')
        if os.path.exists(path):
            with open(path) as f:
                return json.load(f)
        return []

    # ---------------- execution on the real class
    def execute(self, confs):
        svenv.setup()
        from supvisors.options import SupvisorsOptions
        from supvisors.tests.base import DummySupervisor
        if self.pristine is None:
            self.pristine = list(PRISTINE)
            assert [x.name for x in self.pristine] == ['STRICT', 'TIMEOUT', 'CORE'], self.pristine
        SupvisorsOptions.SYNCHRO_DEFAULT_OPTIONS = list(self.pristine)      # a fresh process
        out = []
        try:
            for conf in confs:
                try:
                    o = SupvisorsOptions(DummySupervisor(), Mock(), **conf)
                    grp = None
                    if o.multicast_group is not None:
                        grp = [[int(b) for b in o.multicast_group[0].split('.')], int(o.multicast_group[1])]
                    iface = None if o.multicast_interface is None else [int(b) for b in
                                                                        o.multicast_interface.split('.')]
                    obs = ['ok', [int(o.multicast_ttl), grp, iface, int(o.event_link.value), int(o.event_port),
                                  bool(o.auto_fence), [int(x.value) for x in o.synchro_options],
                                  int(o.synchro_timeout), int(o.inactivity_ticks),
                                  int(o.conciliation_strategy.value), int(o.starting_strategy.value),
                                  int(o.supvisors_failure_strategy.value), bool(o.host_stats_enabled),
                                  bool(o.process_stats_enabled), float(o.collecting_period).hex(),
                                  [float(p).hex() for p in o.stats_periods], int(o.stats_histo),
                                  bool(o.stats_irix_mode), int(o.tail_limit), int(o.tailf_limit)]]
                except Exception as exc:
                    obs = ['crash', svenv.crash_kind(exc)]
                out.append([obs, [int(x.value) for x in SupvisorsOptions.SYNCHRO_DEFAULT_OPTIONS]])
        finally:
            SupvisorsOptions.SYNCHRO_DEFAULT_OPTIONS = list(self.pristine)
        return out

    # ---------------- emission
    def emit_config(self, conf):
        from supervisor.datatypes import byte_size, boolean, list_of_strings
        from supvisors.options import SupvisorsOptions
        from supvisors.ttypes import (ConciliationStrategies, StartingStrategies, SupvisorsFailureStrategies,
                                      EventLinks, SynchronizationOptions, StatisticsTypes)
        # multicast group
        if 'multicast_group' in conf:
            values = conf['multicast_group'].split(':', 1)
            two = len(values) == 2
            reserved = values[0] in SupvisorsOptions.RESERVED_MULTICAST_ADDRESSES
            group = app('GVal', two, reserved, [lex_pz(b) for b in values[0].split('.')],
                        lex_pz(values[1]) if two else C('ZBad'))
        else:
            group = C('GAbsent')
        if 'multicast_interface' not in conf:
            iface = C('FAbsentI')
        elif conf['multicast_interface'] in ['ANY', 'INADDR_ANY']:
            iface = C('FAny')
        else:
            iface = app('FAddr', [lex_pz(b) for b in conf['multicast_interface'].split('.')])
        if 'synchro_options' in conf:
            toks = [t for t in list_of_strings(conf['synchro_options']) if t]
            sync = app('SToks', [app('Some', int(SynchronizationOptions[t.upper()].value))
                                 if t.upper() in SynchronizationOptions.__members__ else None for t in toks])
        else:
            sync = C('SAbsent')

        def strs(key):
            if key not in conf:
                return C('LAbsent')
            return app('LToks', [self.sid(t) for t in list_of_strings(conf[key])])
        if 'stats_enabled' in conf:
            toks = []
            for t in list_of_strings(conf['stats_enabled']):
                if t.upper() in StatisticsTypes.__members__:
                    toks.append(app('Some', int(StatisticsTypes[t.upper()].value)))
                else:
                    try:
                        toks.append(app('Some', int((StatisticsTypes.ALL if boolean(t) else StatisticsTypes.OFF).value)))
                    except ValueError:
                        toks.append(None)
            stats = app('TToks', toks)
        else:
            stats = C('TAbsent')
        if 'stats_collecting_period' in conf:
            f = lex_float(conf['stats_collecting_period'])
            period = C('FNot') if f is None else app('FVal', fcoq(f))
        else:
            period = C('FAbsent')
        if 'stats_periods' in conf:
            fl = [lex_float(t) for t in list_of_strings(conf['stats_periods'])]
            periods = app('PToks', [None if f is None else app('Some', fcoq(f)) for f in fl])
        else:
            periods = C('PAbsent')
        return app('mkConfig', lex_int(conf, 'multicast_ttl'), group, iface,
                   lex_enum(conf, 'event_link', EventLinks), lex_int(conf, 'event_port'),
                   lex_bool(conf, 'auto_fence'), sync, lex_int(conf, 'synchro_timeout'),
                   lex_int(conf, 'inactivity_ticks'), strs('supvisors_list'), strs('core_identifiers'),
                   lex_enum(conf, 'conciliation_strategy', ConciliationStrategies),
                   lex_enum(conf, 'starting_strategy', StartingStrategies),
                   lex_enum(conf, 'supvisors_failure_strategy', SupvisorsFailureStrategies),
                   stats, period, periods, lex_int(conf, 'stats_histo'), lex_bool(conf, 'stats_irix_mode'),
                   lex_int(conf, 'tail_limit', byte_size), lex_int(conf, 'tailf_limit', byte_size))

    @staticmethod
    def emit_obs(ob):
        res, class_after = ob
        if res[0] == 'crash':
            return (app('Crash', C(res[1])), class_after)
        v = res[1]
        grp = None if v[1] is None else app('Some', (v[1][0], v[1][1]))
        iface = None if v[2] is None else app('Some', v[2])
        opt = app('mkOptions', v[0], grp, iface, v[3], v[4], v[5], v[6], v[7], v[8], v[9], v[10], v[11], v[12],
                  v[13], fcoq(float.fromhex(v[14])), [fcoq(float.fromhex(p)) for p in v[15]], v[16], v[17],
                  v[18], v[19])
        return (app('Ok', opt), class_after)

    def emit(self, confs, observed):
        return coq(([self.emit_config(c) for c in confs], [self.emit_obs(o) for o in observed]))

    # ---------------- small batches (shrinking, replay) are spread over many small shards
    def evaluate(self, workdir, inputs, observeds=None):
        saved = self.shard_size
        if len(inputs) <= 160:
            self.shard_size = 10
        try:
            return super().evaluate(workdir, inputs, observeds)
        finally:
            self.shard_size = saved

    def shrink(self, workdir, inp, eval_name, max_rounds=30):
        return super().shrink(workdir, inp, eval_name, max_rounds=max_rounds)

    # ---------------- reporting
    def describe(self, confs, observed):
        return {'configs': confs, 'observed': observed}

    def from_description(self, desc):
        return desc['configs']

    def nontrivial(self, confs, observed):
        if any(len(c) >= 2 for c in confs):
            return json.dumps(observed)
        return None

    def shrink_candidates(self, confs):
        out = []
        if len(confs) > 1:
            out += [confs[:k] + confs[k + 1:] for k in range(len(confs))]
        for k, c in enumerate(confs):
            for key in c:
                d = dict(c)
                del d[key]
                out.append(confs[:k] + [d] + confs[k + 1:])
        return out

    def distribution(self, inputs, observeds):
        d = {'constructions': 0, 'per_case': {}, 'keys': {}, 'refused_empty_synchro': 0, 'other_crashes': {},
             'defaulted_synchro': 0, 'class_default_shrunk': 0, 'nan_values': 0}
        for confs, obs in zip(inputs, observeds):
            d['per_case'][str(len(confs))] = d['per_case'].get(str(len(confs)), 0) + 1
            for c, o in zip(confs, obs):
                d['constructions'] += 1
                for k in c:
                    d['keys'][k] = d['keys'].get(k, 0) + 1
                d['defaulted_synchro'] += 'synchro_options' not in c
                d['nan_values'] += any('nan' in str(c.get(k, '')).lower()
                                       for k in ('stats_collecting_period', 'stats_periods'))
                if o[0][0] == 'crash':
                    if o[0][1] == 'ValueError':
                        d['refused_empty_synchro'] += 1
                    else:
                        d['other_crashes'][o[0][1]] = d['other_crashes'].get(o[0][1], 0) + 1
                d['class_default_shrunk'] += o[1] != [0, 2, 3]
        return d
