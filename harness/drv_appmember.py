"""T3 driver for AppMember.v (property C16, additions and removals): histories of process additions / removals and of
start requests on the REAL supvisors.context.Context, supvisors.application.ApplicationStatus / HomogeneousGroup,
supvisors.process.ProcessStatus, supvisors.instancestatus.SupvisorsInstanceStatus, supvisors.commander.Starter
(store_application / start_application / start_applications; only `next` is muted: nothing is sent) and
supvisors.rpcinterface.RPCInterface (start_application, restart_sequence).

Operations (tuples):
  ('Load', i, [(a, n, g), ...])   Context.load_processes(status_i, payloads, check_state=False)   (= the FSM handler of
                                  PROCESS_ADDED; ALL_INFO brings the same list) ; a application, n process, g program
  ('Removed', i, a, n | None)     Context.on_process_removed_event(status_i, {'group', 'name'}) ; None = '*'
  ('AppRemove', a, n)             ApplicationStatus.remove_process(n), direct call (skipped when a is unknown)
  ('Resolve', a)                  ApplicationStatus.resolve_rules(), direct call (skipped when a is unknown)
  ('StartApp', a)                 RPCInterface.start_application(0, a, False)
  ('RestartSeq',)                 RPCInterface.restart_sequence(False)
Configuration of a case: external publisher present or None, Managed applications and program rules (a stand-in for
the rules file parser: `load_application_rules` / `load_program_rules`), instances in RUNNING state (the others are
STOPPED: their PROCESS_REMOVED events are ignored), the known instances.
After every operation the canonical observable of AppMember.v is recorded (an exception is an observable and ends
the history).
"""
import svenv
from common import C, app, coq
from propcheck import Suite, list_cuts

INSTS = [1, 2, 3, 4]
N_APPS, N_NAMES, N_PROGS = 3, 6, 4


class DriverError(Exception):
    """ the driver met something it cannot record: the suite fails closed """


def ident(i):
    return f'10.0.0.{i}:25000'


def aname(a):
    return f'a{a}'


def pname(n):
    return f'p{n}'


def gname(g):
    return f'g{g}'


def num(s):
    return int(s[1:])


def inum(identifier):
    return int(identifier.split(':')[0].split('.')[-1])


def payload(a, n, g):
    return {'group': aname(a), 'name': pname(n), 'state': 0, 'statename': 'STOPPED', 'expected': True,
            'now': 1001000, 'now_monotonic': 1000, 'start': 0, 'start_monotonic': 0, 'stop': 0, 'stop_monotonic': 0,
            'pid': 0, 'description': '', 'spawnerr': '', 'extra_args': '', 'disabled': False, 'startsecs': 1,
            'stopwaitsecs': 2, 'program_name': gname(g), 'process_index': n, 'has_stdout': True, 'has_stderr': False}


class RulesStub:
    """ stands for supvisors.sparser.Parser: the rules file of the case """

    def __init__(self):
        self.managed = set()
        self.rules = {}

    def load_application_rules(self, name, rules):
        if num(name) in self.managed:
            rules.managed = True
            rules.start_sequence = 1

    def load_program_rules(self, namespec, rules):
        grp, name = namespec.split(':')
        key = (num(grp), num(name))
        if key in self.rules:
            rules.start_sequence, rules.stop_sequence = self.rules[key]


class Publisher:
    """ recording external publisher """

    def __init__(self):
        self.log = []

    def send_process_event(self, p):
        self.log.append((0, num(p['group']), num(p['name'])))

    def send_process_status(self, p):
        self.log.append((1, num(p['application_name']), num(p['process_name'])))

    def send_application_status(self, p):
        self.log.append((2, num(p['application_name']), -1))

    def __getattr__(self, name):
        if name.startswith('__'):
            raise AttributeError(name)
        return lambda *a, **k: None


class World:
    """ one Supvisors structure reused by all cases (reset between two cases) """

    def __init__(self):
        from supvisors.commander import Starter
        from supvisors.rpcinterface import RPCInterface
        from supvisors.ttypes import SupvisorsStates
        svenv.install_clock()
        svenv.CLOCK.now = 1000.0
        sv = self.sv = svenv.make_supvisors()
        self.ctx = sv.context
        self.parser = sv.parser = RulesStub()

        class QuietStarter(Starter):
            """ the real Starter; nothing is triggered (the jobs stay planned) """

            def next(self):
                return None

        sv.starter = QuietStarter(sv)
        sv.fsm.state = SupvisorsStates.OPERATION
        self.rpc = RPCInterface(sv)
        for i in INSTS:
            self.ctx.instances[ident(i)].stats_collector = None
        self.pub = None

    def reset(self, cfg):
        from supvisors.ttypes import SupvisorsInstanceStates
        pub, managed, rules, active = cfg
        self.ctx.applications.clear()
        for i in INSTS:
            status = self.ctx.instances[ident(i)]
            status.processes.clear()
            status._state = SupvisorsInstanceStates.RUNNING if i in active else SupvisorsInstanceStates.STOPPED
        self.parser.managed = set(managed)
        self.parser.rules = {(a, n): (s, t) for a, n, s, t in rules}
        self.pub = Publisher() if pub else None
        self.sv.external_publisher = self.pub
        self.sv.starter.abort()

    def status(self, i):
        return self.ctx.instances[ident(i)]

    def observe(self):
        apps = []
        for name, ap in self.ctx.applications.items():
            def cur(p, ap=ap):
                return ap.processes.get(p.process_name) is p

            def ref(p):
                return (num(p.process_name), cur(p), num(p.program_name))
            procs = [(num(n), num(p.program_name), [inum(k) for k in p.info_map]) for n, p in ap.processes.items()]
            groups = [(num(g), [(num(p.process_name), cur(p)) for p in grp.processes])
                      for g, grp in ap.process_groups.items()]
            start = [(int(s), [ref(p) for p in plist]) for s, plist in ap.start_sequence.items()]
            stop = [(int(s), [ref(p) for p in plist]) for s, plist in ap.stop_sequence.items()]
            apps.append((num(name), bool(ap.rules.managed), procs, groups, start, stop))
        insts = []
        for i in INSTS:
            keys = []
            for ns in self.status(i).processes:
                grp, name = ns.split(':')
                keys.append((num(grp), num(name)))
            insts.append((i, keys))
        return (apps, insts)

    def rpc_reply(self, call):
        """ a result, or a documented fault; anything else propagates (an internal error) """
        from supervisor.xmlrpc import Faults, RPCError
        from supvisors.ttypes import SupvisorsFaults
        try:
            res = call()
        except RPCError as exc:
            table = {Faults.BAD_NAME: 'RBadName', SupvisorsFaults.NOT_MANAGED.value: 'RNotManaged',
                     Faults.ABNORMAL_TERMINATION: 'RAbnormal'}
            if exc.code in table:
                return table[exc.code]
            raise DriverError(f'unexpected fault {exc.code} {exc.text}')
        finally:
            self.sv.starter.abort()
        if res is not True:
            raise DriverError(f'unexpected result {res!r}')
        return 'RDone'

    def apply(self, o):
        kind = o[0]
        ctx = self.ctx
        if kind == 'Load':
            ctx.load_processes(self.status(o[1]), [payload(a, n, g) for a, n, g in o[2]], check_state=False)
            return 'RNone'
        if kind == 'Removed':
            ctx.on_process_removed_event(self.status(o[1]), {'group': aname(o[2]),
                                                             'name': '*' if o[3] is None else pname(o[3])})
            return 'RNone'
        if kind == 'AppRemove':
            ap = ctx.applications.get(aname(o[1]))
            if ap is None:
                return 'RNoApp'
            ap.remove_process(pname(o[2]))
            return 'RNone'
        if kind == 'Resolve':
            ap = ctx.applications.get(aname(o[1]))
            if ap is None:
                return 'RNoApp'
            ap.resolve_rules()
            return 'RNone'
        if kind == 'StartApp':
            return self.rpc_reply(lambda: self.rpc.start_application(0, aname(o[1]), False))
        if kind == 'RestartSeq':
            return self.rpc_reply(lambda: self.rpc.restart_sequence(False))
        raise DriverError(kind)


class AppMemberSuite(Suite):
    name = 'appmember'
    prelude = 'From Sup Require Import AppMember.\nOpen Scope Z_scope.'
    case_type = 'case'
    evals = {'mismatches': 'mismatches', 'spec_violations': 'spec_violations',
             'known:c16-program-name-drift': 'known_program_name_drift'}
    shard_size = 100

    def __init__(self):
        self.world = None

    # ---------------- generation
    def gen_case(self, rng, max_ops, hostile, drift):
        n_apps = rng.randint(1, N_APPS)
        n_names = rng.randint(1, N_NAMES)
        n_progs = rng.randint(1, N_PROGS)
        n_inst = rng.randint(1, len(INSTS))
        pub = rng.random() < 0.5
        managed = [a for a in range(n_apps) if rng.random() < 0.75]
        rules = []
        for a in range(n_apps):
            for n in range(n_names):
                if rng.random() < 0.8:
                    s = rng.choice([0, 0, 1, 1, 2, 3])
                    rules.append((a, n, s, rng.choice([s, 0, 1, 2])))
        active = [i for i in INSTS[:n_inst] if hostile and rng.random() < 0.85 or not hostile]
        prog = {(a, n): rng.randrange(n_progs) for a in range(n_apps) for n in range(n_names)}
        # what each instance knows (its Supervisor configuration): a subset of the namespecs
        knows = {i: [k for k in prog if rng.random() < 0.6] for i in INSTS[:n_inst]}
        held = {i: set() for i in INSTS}
        ops = []
        n_ops = rng.randint(1, max_ops)

        def pg(k):
            if drift and rng.random() < 0.35:
                return rng.randrange(N_PROGS)
            return prog[k]
        for _ in range(n_ops):
            i = rng.choice(INSTS[:n_inst])
            r = rng.random()
            if r < 0.30:
                pool = knows[i] if knows[i] and rng.random() < 0.9 else list(prog)
                if rng.random() < 0.5:
                    ks = [rng.choice(pool)]
                else:
                    ks = [k for k in pool if rng.random() < 0.6][:8] or [rng.choice(pool)]
                    if rng.random() < 0.3:
                        rng.shuffle(ks)
                    if hostile and rng.random() < 0.2:
                        ks.append(rng.choice(ks))          # the same payload twice
                ops.append(('Load', i, [(a, n, pg((a, n))) for a, n in ks]))
                held[i].update(ks)
            elif r < 0.58:
                mine = sorted(held[i])
                if mine and not (hostile and rng.random() < 0.35):
                    a, n = rng.choice(mine)
                    held[i].discard((a, n))
                else:
                    # unknown process / not held by this instance / unknown application / double removal
                    a, n = rng.randrange(N_APPS), rng.randrange(N_NAMES)
                    held[i].discard((a, n))
                ops.append(('Removed', i, a, n))
            elif r < 0.70:
                apps_i = sorted({a for a, _ in held[i]})
                a = rng.choice(apps_i) if apps_i and rng.random() < 0.85 else rng.randrange(N_APPS)
                held[i] = {k for k in held[i] if k[0] != a}
                ops.append(('Removed', i, a, None))
            elif r < 0.73:
                everything = sorted(set().union(*held.values()))
                if everything and not (hostile and rng.random() < 0.15):
                    a, n = rng.choice(everything)
                else:
                    a, n = rng.randrange(N_APPS), rng.randrange(N_NAMES)
                ops.append(('AppRemove', a, n))
            elif r < 0.81:
                ops.append(('Resolve', rng.randrange(n_apps if rng.random() < 0.9 else N_APPS)))
            elif r < 0.93:
                ops.append(('StartApp', rng.randrange(n_apps if rng.random() < 0.9 else N_APPS)))
            else:
                ops.append(('RestartSeq',))
        return ((pub, managed, rules, active), ops)

    def generate(self, rng, tier):
        n, max_ops = (1000, 22) if tier == 'quick' else (8000, 50)
        out = []
        for k in range(n):
            out.append(self.gen_case(rng, max_ops, hostile=(k % 4 == 3), drift=(k % 12 == 7)))
        return out

    def corpus(self):
        rules = [(0, 0, 1, 1), (0, 1, 2, 2), (0, 2, 0, 1)]
        out = []
        for pub in (False, True):
            cfg = (pub, [0], rules, [1, 2])
            # the last instance knowing a sequenced program removes its group; the application survives
            out.append((cfg, [('Load', 1, [(0, 0, 0)]), ('Load', 2, [(0, 0, 0), (0, 1, 1)]), ('Removed', 2, 0, None),
                              ('StartApp', 0), ('RestartSeq',), ('Resolve', 0)]))
            # removal then re-addition, removal of the last process of a program, double removal
            out.append((cfg, [('Load', 1, [(0, 0, 0), (0, 1, 0), (0, 2, 1)]), ('Removed', 1, 0, 2), ('Resolve', 0),
                              ('Removed', 1, 0, 2), ('Load', 1, [(0, 2, 1)]), ('StartApp', 0), ('Removed', 1, 0, 1),
                              ('Removed', 1, 0, 0), ('Removed', 1, 0, 2), ('StartApp', 0), ('Load', 2, [(0, 1, 0)]),
                              ('StartApp', 0)]))
        return out

    # ---------------- execution on the real classes
    def execute(self, case):
        cfg, ops = case
        if self.world is None:
            self.world = World()
        w = self.world
        w.reset(cfg)
        out = []
        for o in ops:
            if w.pub is not None:
                w.pub.log = []
            try:
                rep = w.apply(o)
            except Exception as exc:  # an exception IS an observable
                if isinstance(exc, DriverError):
                    raise
                out.append(('crash', svenv.crash_kind(exc)))
                break
            out.append(('ok', rep, list(w.pub.log) if w.pub is not None else [], w.observe()))
        return out

    # ---------------- emission
    @staticmethod
    def emit_op(o):
        kind = o[0]
        if kind == 'Load':
            return app('Load', o[1], [tuple(x) for x in o[2]])
        if kind == 'Removed':
            return app('Removed', o[1], o[2], C('None') if o[3] is None else app('Some', o[3]))
        if kind in ('AppRemove',):
            return app('AppRemove', o[1], o[2])
        if kind in ('Resolve', 'StartApp'):
            return app(kind, o[1])
        if kind == 'RestartSeq':
            return C('RestartSeq')
        raise RuntimeError(kind)

    @staticmethod
    def emit_cfg(cfg):
        pub, managed, rules, active = cfg
        return app('mkconfig', pub, list(managed), [((a, n), (s, t)) for a, n, s, t in rules], list(active),
                   list(INSTS))

    def emit(self, case, observed):
        cfg, ops = case
        obs = []
        prev = ([], [(i, []) for i in INSTS])      # the observation of the empty context
        for rec in observed:
            if rec[0] == 'ok':
                _, rep, pubs, (apps, insts) = rec
                if not pubs and (apps, insts) == prev:
                    obs.append(app('OSame', C(rep)))         # compact form, expanded by AppMember.expand
                    continue
                prev = (apps, insts)
                oapps = [(a, m, [(n, g, list(ids)) for n, g, ids in procs],
                          [(g, [tuple(e) for e in l]) for g, l in groups],
                          [(s, [tuple(e) for e in l]) for s, l in start],
                          [(s, [tuple(e) for e in l]) for s, l in stop])
                         for a, m, procs, groups, start, stop in apps]
                oinsts = [(i, [tuple(k) for k in keys]) for i, keys in insts]
                obs.append(app('OOk', C(rep), [tuple(p) for p in pubs], (oapps, oinsts)))
            else:
                obs.append(app('OCrash', C(rec[1])))
        return coq((C(self.emit_cfg(cfg)), [self.emit_op(o) for o in ops], obs))

    # ---------------- reporting
    def describe(self, case, observed):
        cfg, ops = case
        return {'config': {'publisher': cfg[0], 'managed': list(cfg[1]), 'rules': [list(r) for r in cfg[2]],
                           'active': list(cfg[3])},
                'ops': [self.op_json(o) for o in ops], 'observed': observed}

    @staticmethod
    def op_json(o):
        if o[0] == 'Load':
            return ['Load', o[1], [list(x) for x in o[2]]]
        return list(o)

    def from_description(self, desc):
        c = desc['config']
        cfg = (bool(c['publisher']), list(c['managed']), [tuple(r) for r in c['rules']], list(c['active']))
        ops = []
        for o in desc['ops']:
            if o[0] == 'Load':
                ops.append(('Load', o[1], [tuple(x) for x in o[2]]))
            else:
                ops.append(tuple(o))
        return (cfg, ops)

    RULE = ('non-trivial = a history in which a process left an application that survived, or an application was '
            'deleted, and a start request / resolve_rules was served afterwards; key = final observation + length')

    def nontrivial(self, case, observed):
        cfg, ops = case
        seen_removal = False
        prev_names = {}
        hit = False
        for o, rec in zip(ops, observed):
            if rec[0] != 'ok':
                break
            names = {a: {p[0] for p in procs} for a, _, procs, _, _, _ in rec[3][0]}
            for a, ns_ in prev_names.items():
                if a not in names or ns_ - names[a]:
                    seen_removal = True
            prev_names = names
            if seen_removal and o[0] in ('Resolve', 'StartApp', 'RestartSeq') and rec[1] in ('RNone', 'RDone', 'RAbnormal'):
                hit = True
        if hit:
            return repr(observed[-1]) + repr(len(ops))
        return None

    def size_of(self, case):
        return sum(1 + (len(o[2]) if o[0] == 'Load' else 0) for o in case[1])

    def shrink_candidates(self, case):
        cfg, ops = case
        out = [(cfg, cut) for cut in list_cuts(list(ops))]
        for k, o in enumerate(ops):
            if o[0] == 'Load' and len(o[2]) > 1:
                for j in range(len(o[2])):
                    out.append((cfg, ops[:k] + [('Load', o[1], o[2][:j] + o[2][j + 1:])] + ops[k + 1:]))
        pub, managed, rules, active = cfg
        if len(rules) > 1:
            for j in range(len(rules)):
                out.append(((pub, managed, rules[:j] + rules[j + 1:], active), ops))
        return out

    def distribution(self, inputs, observeds):
        kinds, lens, crashes, replies = {}, {}, {}, {}
        pubs = {'publisher': 0, 'no publisher': 0}
        drift = removed_last = deleted_apps = 0
        for (cfg, ops), obs in zip(inputs, observeds):
            pubs['publisher' if cfg[0] else 'no publisher'] += 1
            b = f'{(len(ops) // 5) * 5}-{(len(ops) // 5) * 5 + 4}'
            lens[b] = lens.get(b, 0) + 1
            seen = {}
            for o in ops:
                kinds[o[0]] = kinds.get(o[0], 0) + 1
                if o[0] == 'Load':
                    for a, n, g in o[2]:
                        if seen.setdefault((a, n), g) != g:
                            drift += 1
            prev = None
            for rec in obs:
                if rec[0] == 'crash':
                    crashes[rec[1]] = crashes.get(rec[1], 0) + 1
                else:
                    replies[rec[1]] = replies.get(rec[1], 0) + 1
                    apps = {a: len(procs) for a, _, procs, _, _, _ in rec[3][0]}
                    if prev is not None:
                        deleted_apps += sum(1 for a in prev if a not in apps)
                        removed_last += sum(1 for a in prev if a in apps and apps[a] < prev[a])
                    prev = apps
        return {'op_kinds': kinds, 'history_lengths': lens, 'crashes': crashes, 'replies': replies,
                'publisher': pubs, 'payloads_with_another_program_name': drift,
                'steps_removing_processes_from_a_surviving_application': removed_last,
                'steps_deleting_an_application': deleted_apps}


# ---------------------------------------------------------------- independent replays of the candidate finding
def replay_findings():
    """ c16-program-name-drift on the real classes, without the World / generator of this driver:
    `/venv/bin/python harness/drv_appmember.py` (PYTHONPATH=/repo). Returns the list of (label, outcome). """
    from supvisors.commander import Starter
    from supvisors.rpcinterface import RPCInterface
    from supvisors.ttypes import SupvisorsInstanceStates, SupvisorsStates

    class Rules:
        def load_application_rules(self, name, rules):
            rules.managed = True
            rules.start_sequence = 1

        def load_program_rules(self, namespec, rules):
            rules.start_sequence = rules.stop_sequence = 1

    class Quiet(Starter):
        def next(self):
            return None

    def world():
        sv = svenv.make_supvisors()
        sv.parser = Rules()
        sv.starter = Quiet(sv)
        sv.fsm.state = SupvisorsStates.OPERATION
        sv.external_publisher = None
        for st in sv.context.instances.values():
            st.stats_collector = None
            st._state = SupvisorsInstanceStates.RUNNING
        return sv, RPCInterface(sv), sv.context.instances[ident(1)], sv.context.instances[ident(2)]

    def info(name, prog, index=0):
        p = payload(0, 0, 0)
        p.update({'group': 'movies', 'name': name, 'program_name': prog, 'process_index': index})
        return p

    out = []

    def attempt(label, f):
        try:
            out.append((label, 'returned %r' % (f(),)))
        except Exception as exc:
            out.append((label, 'raised %s: %r' % (type(exc).__module__ + '.' + type(exc).__name__, exc)))

    # 1. two Supervisor configurations give movies:player from two different program sections
    sv, rpc, s1, s2 = world()
    sv.context.load_processes(s1, [info('player', 'player_a')], check_state=False)
    sv.context.load_processes(s2, [info('player', 'player_b')], check_state=False)
    attempt('start_application after movies:player announced as program player_a then player_b',
            lambda: rpc.start_application(0, 'movies', False))
    attempt('restart_sequence in the same context', lambda: rpc.restart_sequence(False))
    attempt('PROCESS_REMOVED movies:player from the first instance',
            lambda: sv.context.on_process_removed_event(s1, {'group': 'movies', 'name': 'player'}))
    attempt('PROCESS_REMOVED movies:player from the second (last) instance',
            lambda: sv.context.on_process_removed_event(s2, {'group': 'movies', 'name': 'player'}))
    # 2. rolling update: the program section is renamed on instance 1 (group removed, then added again) while
    #    instance 2 still runs the former configuration
    sv, rpc, s1, s2 = world()
    sv.context.load_processes(s1, [info('player', 'player')], check_state=False)
    sv.context.load_processes(s2, [info('player', 'player')], check_state=False)
    sv.context.on_process_removed_event(s1, {'group': 'movies', 'name': '*'})
    sv.context.load_processes(s1, [info('player', 'player_v2')], check_state=False)
    attempt('start_application after a program section was renamed on one instance only',
            lambda: rpc.start_application(0, 'movies', False))
    # 3. the second program name is the homogeneous group of another process: ValueError in list.remove
    sv, rpc, s1, s2 = world()
    sv.context.load_processes(s1, [info('player', 'player_a'), info('encoder', 'player_b')], check_state=False)
    sv.context.load_processes(s2, [info('player', 'player_b')], check_state=False)
    sv.context.on_process_removed_event(s1, {'group': 'movies', 'name': 'player'})
    attempt('PROCESS_REMOVED from the last instance when the second program name is the group of another process',
            lambda: sv.context.on_process_removed_event(s2, {'group': 'movies', 'name': 'player'}))
    # control: the same history with one program name
    sv, rpc, s1, s2 = world()
    sv.context.load_processes(s1, [info('player', 'player')], check_state=False)
    sv.context.load_processes(s2, [info('player', 'player')], check_state=False)
    attempt('control: start_application with one program name', lambda: rpc.start_application(0, 'movies', False))
    return out


if __name__ == '__main__':
    svenv.install_clock()
    for label, outcome in replay_findings():
        print(f'{label}\n    -> {outcome}')
