"""Source of MANIFEST.json (run bin/mkmanifest after editing)."""
COMMON_NOTE = ('Trusted: Coq 8.16.1 kernel + vm_compute VM (no native_compute, no extraction), harness drivers / '
               'canonicalisers / literal emission, reflection of /repo tables (harness/gen_tables.py), CPython + '
               'supervisor 4.x as semantics of the implementation side, logical clock. ')
TECH = 'Coq proof over an executable Gallina model + differential correspondence evaluated by vm_compute'


def claim(text, ref, note, technique=TECH):
    return {'text': text, 'design_ref': ref, 'note': COMMON_NOTE + note, 'technique': technique}


CLAIMED = {
    'C07': claim('Coq proofs over the node model (every event history, by induction): per-event instance discipline '
                 '(documented instance graph, local instance never ISOLATED, ISOLATED absorbing), completeness and '
                 'accuracy of failure detection in local-tick counts (live_peer_never_lost, window_formulation), '
                 'ISOLATED only with auto_fence or by the handshake; the same boolean checkers are evaluated on the '
                 'observations of the real Context/FSM/listener in every run.', 'DESIGN.md §5 C07',
                 'Modelled, not verified: instancestatus.py, context.py timer/invalidation, statemachine.py; the FATAL '
                 'marking of lost processes is proved in C11 (loss_makes_fatal). Hypothesis tick_sane: the local TICK '
                 'counter never goes backwards. Wall-clock vs tick drift not exhibited.'),
    'C08': claim('Cluster-level executable model (N instances, FIFO per ordered pair, local notification queue, '
                 'handshake reads, crashes/restarts/cuts) tied to the real classes composed by a harness transport; '
                 'the Coq convergence spec (every live instance back in the state of its live self-acknowledged Master, '
                 'OPERATION/CONCILIATION) is evaluated on the last observed state after fault prefixes + quiet rounds; '
                 'theorems: see DESIGN (decision/table analysis, agreement core). Two genuine parking defects found by '
                 'this check were fixed (CONCILIATION->ELECTION, slave stuck in ELECTION).', 'DESIGN.md §5 C08',
                 'PARTIAL: liveness under arbitrary asynchronous schedules is not proved (only safety lemmas + bounded '
                 'quiet-round convergence observed on the implementation and the model); provisos: TIMEOUT selected, '
                 'clean isolation among live instances, process plane idle during quiet rounds.'),
    'C11': claim('Coq proof that the executable model of ProcessStatus refines the abstract per-instance specification '
                 'written from the property (running list, conflict flag, synthetic and displayed state, forced-state '
                 'rules, loss frame) for every well-formed history of any length over any number of instances; the '
                 'model is tied to process.py on every run by differential execution of generated histories on the real '
                 'class, compared inside Coq (vm_compute), and the Coq specification itself is evaluated against the '
                 'implementation outputs as failing-input oracle.', 'DESIGN.md §5 C11',
                 'Modelled, not verified: ProcessStatus synthesis; descriptions, extra_args, pid, uptime not modelled.'),
    'C13': claim('Coq proofs over the node model for every event history: an ISOLATED instance is frozen (state and '
                 'counters unchanged by any tick / publication / handshake result claiming to come from it, no handshake '
                 'requested), ISOLATED is absorbing, the AUTHORIZATION result is only taken into account in CHECKING with '
                 'a newer timestamp (AUTHORIZED->CHECKED, NOT_AUTHORIZED/INCONSISTENT->ISOLATED, UNKNOWN->STOPPED); '
                 'process-plane clause (events only from CHECKED/RUNNING peers) in the replication model (C12).',
                 'DESIGN.md §5 C13',
                 'Modelled, not verified: Context.is_valid + listener dispatch + on_authorization; the computation of the '
                 'authorization code by SupervisorProxy._is_authorized is exercised by the cluster suite only. '
                 'Reciprocity at cluster level is not proved.'),
    'C14': claim('Coq proofs (all layouts, loads, request maps, candidate lists): each of the six starting strategies '
                 'returns a valid candidate that is optimal for the documented lexicographic key with the exact tie '
                 'rule, None iff no valid candidate; SINGLE_INSTANCE / SINGLE_NODE distribution theorems; model = real '
                 'strategy.py / commander distribute_* / mapper.identify on generated cases.', 'DESIGN.md §5 C14',
                 'Named hypotheses nodes_nodup / nodes_consistent for the true-node-load reading (proved to hold after '
                 'any handshake history).'),
    'C15': claim('Coq proofs for every list of process states / every formula AST: application state priority, '
                 'required-based major/minor failure, formula denotation on the whitelisted fragment, totality (any '
                 'other construct => parse error => major failure, never a crash), no other execution; the driver '
                 'translates the real Python AST and audits eval/exec/compile/import at run time.', 'DESIGN.md §5 C15',
                 'Regex engine is an oracle; formulas nested deeper than 64 are outside (RecursionError).'),
    'C17': claim('Exhaustive re-measured matrix (every public XML-RPC x 9 states x Master/non-Master/no Master x '
                 'parameter variants on real RPCInterface/FSM brought to the state by a real history) compared in Coq '
                 'with the documented gates written from the property; theorems: gate matrix = documentation, rejected '
                 'calls are effect-free, fault codes.', 'DESIGN.md §5 C17',
                 'Finite domain fully enumerated on every run (exhaustive); interpretation: FINAL refuses everything.',
                 'Coq proof over a finite re-measured table (T2 exhaustive tabulation) + model'),
    'C18': claim('Coq proofs for every rules document / option dictionary: lookup precedence, bounded model recursion '
                 '(termination incl. cycles), domain frame, dependency rules, alias and sign resolution, option ranges; '
                 'model = real Parser / ProcessRules / ApplicationRules / SupvisorsOptions on generated XML documents and '
                 'option dictionaries.', 'DESIGN.md §5 C18',
                 'Regex, XML and XSD engines are oracles; hypothesis doc_unambiguous (no duplicate declarations).'),
    'C20': claim('Coq proofs by induction over every sample stream: history bounds, alignment of value and time series '
                 'through appearing/vanishing keys and counter wraps, period gate, I/O rates finite and >= 0, CPU in '
                 '[0,100] (Flocq/PrimFloat, bit-exact with Python floats), stopped process dropped, pid change resets; '
                 'bit-exact differential runs against statscompiler.py.', 'DESIGN.md §5 C20',
                 'Numeric theorems depend on the stdlib FloatAxioms (primitive float specification) and, through Flocq, on '
                 'the stdlib real-number axioms (ClassicalDedekindReals.sig_forall_dec, sig_not_dec, Classical_Prop.classic, '
                 'functional_extensionality_dep). Hypotheses: depth >= 1, CPU count not shrinking (known finding F24).'),
}
PENDING_REASON = 'check not built yet in this session (planned, see DESIGN.md §8); not claimed until it exists'
ALL = [f'C{n:02d}' for n in range(1, 21)]
