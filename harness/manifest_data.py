"""Source of MANIFEST.json (run bin/mkmanifest after editing)."""
COMMON_NOTE = ('Trusted: Coq 8.16.1 kernel + vm_compute VM (no native_compute, no extraction), harness drivers / '
               'canonicalisers / literal emission, reflection of /repo tables (harness/gen_tables.py), CPython + '
               'supervisor 4.x as semantics of the implementation side, logical clock. ')
TECH = 'Coq proof over an executable Gallina model + differential correspondence evaluated by vm_compute'


def claim(text, ref, note, technique=TECH):
    return {'text': text, 'design_ref': ref, 'note': COMMON_NOTE + note, 'technique': technique}


CLAIMED = {
    'C01': claim('Coq proofs over the node model for every event history: automatic actions (auto start, conciliation, '
                 'failure jobs, auto stop) are only emitted while the local instance is the published Master; the Master '
                 'selection rule (declared Masters still recognised, else running instances; core members first; lowest '
                 'nick) with the "kept" corollary; check_master characterisation; cluster-level agreement core '
                 '(quiescent_agreement: exact views + consistent Master check + SM-local => one Master, member of the '
                 'group, seen RUNNING by all, self-acknowledged). Tied to the real classes by the node suite and by the '
                 'cluster suite (2-4 real instances, fault prefix + quiet rounds, Coq agreement checker on the last '
                 'observed state).', 'DESIGN.md §5 C01',
                 'PARTIAL: "ends up" (liveness) is only observed on bounded quiet rounds, not proved for arbitrary '
                 'asynchronous schedules; view exactness at quiescence is a hypothesis of the agreement theorem.'),
    'C02': claim('Coq proofs over the node model for every event history: every published change of the Supvisors '
                 'state is an edge of the reflected transition table, which is included in the documented graph; FINAL '
                 'terminal, RESTARTING/SHUTTING_DOWN only to FINAL; a non-Master enters a Master-driven state only when '
                 'its view of the Master is in that state (or beyond, for DISTRIBUTION); Master-driven states entered '
                 'with a Master seen RUNNING under named hypotheses (SM-local peer payloads, no USER option, strategy not '
                 'SHUTDOWN) with refutation witnesses for each hypothesis.', 'DESIGN.md §5 C02',
                 'Known findings: SHUTTING_DOWN by the SHUTDOWN strategy without Master; USER option adopting a Master '
                 'not seen RUNNING.'),
    'C03': claim('Executable agenda-machine model of Starter + Stopper (Python re-entrancy explicit) = real commander.py on '
                 'closed-loop generated histories; Coq proofs for every state / every run: a group leaves the plan only when '
                 'nothing is current and is the minimal (start) key, requests are only emitted while a popped group is '
                 'processed and only for stopped processes, start_sequence 0 never started automatically (processes and '
                 'applications), ABORT/STOP/CONTINUE on failure; the history-level ordering statement is evaluated by a Coq '
                 'spec checker on every observed trace.', 'DESIGN.md §5 C03',
                 'PARTIAL: start_request_order at history level is checked on generated traces, not proved; '
                 'application_order is refuted (known finding c03-noresource-reentrancy); known findings '
                 'reentrant-next-keyerror, c03-timeout-strategy. ALL_INSTANCES distribution only; placement is an oracle.'),
    'C09': claim('Same Sequencer model and suite for the stop side: a stop group is the maximal key and is emitted in one '
                 'step, stops only go where the process is running (proved for every run); restart/shutdown routing, '
                 'exactly one final order per instance, FINAL terminal proved on the node model (props/C09node.v); the '
                 'history-level stop ordering is evaluated by the Coq spec checker on every observed trace.',
                 'DESIGN.md §5 C09', 'PARTIAL: stop_request_order at history level checked on generated traces, not proved.'),
    'C10': claim('Coq proofs on the command model with reflected tick constants: wait_ticks formula, timed_out bound (with '
                 'the wait_exit exception), a command is dropped once the target counter exceeds the bound or the target is '
                 'lost, a forced state is published exactly once; job-level bound evaluated by the Coq spec checker on '
                 'observed traces (bounded in-progress time after the last request).', 'DESIGN.md §5 C10',
                 'PARTIAL: job_bound refuted by the known finding c03-noresource-reentrancy (orphan commands never timed '
                 'out); fuel-sufficiency of the agenda machine not proved (theorems hold for any fuel).'),
    'C04': claim('Coq proofs: possible_identifiers = permitted & known & enabled (mapper.filter modelled exactly); for '
                 'ALL_INSTANCES the chosen target satisfies the eligibility + node-cap statement written from the property '
                 '(independent node sums over ALL pending starts) under H_own_requests_are_all, through C14\'s '
                 'result_valid; no instance qualifies <=> nothing sent and FATAL "No resource available"; no duplicate '
                 'request (stopped processes only, add_commands de-duplication); every recorded process_job decision of '
                 'the real Starter is compared with the model and judged by the Coq spec on generated concurrent starts.',
                 'DESIGN.md §5 C04',
                 'PARTIAL: emission-time eligibility for restricted distributions is checked on generated runs, not proved; '
                 'known findings c04-single-instance-on-demand-load, c04-cross-application-pending-load, '
                 'c04-non-distributed-no-recheck, c03-noresource-reentrancy (node cap exceeded / duplicate request).'),
    'C05': claim('Coq proofs: conflict detection iff a managed process runs on >= 2 instances; for each of the six '
                 'strategies the exact stop/restart request set (never outside a conflict), SENICIDE/INFANTICIDE keeper by '
                 'uptime with Python tie-breaking; conflicts cleared after the acknowledgements (via the C11 model); '
                 'OPERATION/CONCILIATION decisions; model = real conciliate_conflicts / Context.conflicts on generated '
                 'conflicts.', 'DESIGN.md §5 C05',
                 'Hypothesis H_c05 (running set = running-like copies); known finding stopping-copy.'),
    'C06': claim('Coq proofs for every sequence of failure notifications / triggers / aborts: exclusion invariant of the '
                 'four job sets, precedence STOP_APPLICATION > RESTART_APPLICATION > RESTART_PROCESS > CONTINUE with '
                 'promotion, single action per application, deferral while jobs are in progress, planned commands left '
                 'alone, Master-only; in-place filtering contract of the lost processes between the FSM and the Starter '
                 '(props/C06node.v); model = real RunningFailureHandler / on_instances_invalidation / FSM feed points / '
                 'node control plane.',
                 'DESIGN.md §5 C06', 'Known findings F9 (processes lost with the Master), F10 (RESTART dropped in ELECTION).'),
    'C12': claim('Coq proofs over a replication model (receiver rules of Context + cluster with FIFO channels and '
                 'snapshot handshakes): under the boolean schedule predicate clean (no event lost in a handshake window) '
                 'every node holds the true state of every process of each instance it sees RUNNING whenever the channel '
                 'is empty; pairwise agreement; no residue for STOPPED instances; events only from admitted peers (C13 '
                 'process-plane clause); refutation witnesses for the three handshake windows, replayed on the real '
                 'classes.', 'DESIGN.md §5 C12',
                 'PARTIAL: agreement is proved under clean; known finding handshake-window-event-lost.'),
    'C16': claim('Coq proofs: the node model never returns an exception on well-formed nodes for any event allowed by '
                 'wf_event (and each excluded event does crash: necessity), process status never crashes on well-formed '
                 'histories (C11), receiver and cluster replication models never crash (C12), handler and conciliation '
                 'models total (C05/C06); exceptions are observables of every driver, so a new raise site breaks the '
                 'correspondence with a concrete event sequence; membership bookkeeping of ApplicationStatus (additions / '
                 'removals of processes and groups) keeps the start / stop sequences exact in every reachable state, so '
                 'that start requests and the periodic evaluation never raise (props/C16app.v); set_state terminates '
                 '(props/C16term.v). The check also runs the Sequencer and Invalidation suites (no internal error of the '
                 'real Starter / Stopper).', 'DESIGN.md §5 C16',
                 'Bounded by model coverage: web UI, supvisorsctl, statistics collector, external publishers not '
                 'modelled. Known findings: set_state livelock under inconsistent synchro options + RESYNC; re-entrant '
                 'Commander.next KeyError; one namespec announced under two program names (c16-program-name-drift); '
                 'XML-RPC with a non-string namespec (C17).'),
    'C07': claim('Coq proofs over the node model (every event history, by induction): per-event instance discipline '
                 '(documented instance graph, local instance never ISOLATED, ISOLATED absorbing), completeness and '
                 'accuracy of failure detection in local-tick counts (live_peer_never_lost, window_formulation), '
                 'ISOLATED only with auto_fence or by the handshake; the same boolean checkers are evaluated on the '
                 'observations of the real Context/FSM/listener in every run.', 'DESIGN.md §5 C07',
                 'Modelled, not verified: instancestatus.py, context.py timer/invalidation, statemachine.py; the FATAL '
                 'marking of lost processes is proved in C11 (loss_makes_fatal). Hypothesis tick_sane: the local TICK '
                 'counter never goes backwards. Wall-clock vs tick drift not exhibited.'),
    'C08': claim('Cluster-level executable model (N instances, FIFO per ordered pair, local notification queue, '
                 'handshake reads, crashes/restarts/cuts) tied to the real classes composed by a harness transport; '
                 'the Coq convergence spec (every live instance back in the state of its live self-acknowledged Master, '
                 'OPERATION/CONCILIATION) is evaluated on the last observed state after fault prefixes + quiet rounds; '
                 'theorems: see DESIGN (decision/table analysis, agreement core). Two genuine parking defects found by '
                 'this check were fixed (CONCILIATION->ELECTION, slave stuck in ELECTION); the glue model has real proxy '
                 'queues, failed sends over cut links (INSTANCE_FAILURE), slow handshakes, and compares the views held '
                 'of every instance.', 'DESIGN.md §5 C08',
                 'PARTIAL: liveness under arbitrary asynchronous schedules is not proved (only safety lemmas + bounded '
                 'quiet-round convergence observed on the implementation and the model); provisos: TIMEOUT selected, '
                 'clean isolation among live instances, process plane idle during quiet rounds. Known finding '
                 'handshake-window-state-lost (stale view after a handshake parks the group in ELECTION).'),
    'C11': claim('Coq proof that the executable model of ProcessStatus refines the abstract per-instance specification '
                 'written from the property (running list, conflict flag, synthetic and displayed state, forced-state '
                 'rules, loss frame) for every well-formed history of any length over any number of instances; the '
                 'model is tied to process.py on every run by differential execution of generated histories on the real '
                 'class, compared inside Coq (vm_compute), and the Coq specification itself is evaluated against the '
                 'implementation outputs as failing-input oracle.', 'DESIGN.md §5 C11',
                 'Modelled, not verified: ProcessStatus synthesis; descriptions, extra_args, pid, uptime not modelled.'),
    'C13': claim('Coq proofs over the node model for every event history: an ISOLATED instance is frozen (state and '
                 'counters unchanged by any tick / publication / handshake result claiming to come from it, no handshake '
                 'requested), ISOLATED is absorbing, the AUTHORIZATION result is only taken into account in CHECKING with '
                 'a newer timestamp (AUTHORIZED->CHECKED, NOT_AUTHORIZED/INCONSISTENT->ISOLATED, UNKNOWN->STOPPED); '
                 'process-plane clause (events only from CHECKED/RUNNING peers) in the replication model (C12).',
                 'DESIGN.md §5 C13',
                 'Modelled, not verified: Context.is_valid + listener dispatch + on_authorization; the computation of the '
                 'authorization code by SupervisorProxy._is_authorized is exercised by the cluster suite only. '
                 'Reciprocity at cluster level: props/C13cluster.v (handshake with a peer that isolated us => '
                 'NOT_AUTHORIZED notice => ISOLATED), under link-up hypotheses.'),
    'C14': claim('Coq proofs (all layouts, loads, request maps, candidate lists): each of the six starting strategies '
                 'returns a valid candidate that is optimal for the documented lexicographic key with the exact tie '
                 'rule, None iff no valid candidate; SINGLE_INSTANCE / SINGLE_NODE distribution theorems; model = real '
                 'strategy.py / commander distribute_* / mapper.identify on generated cases.', 'DESIGN.md §5 C14',
                 'Named hypotheses nodes_nodup / nodes_consistent for the true-node-load reading (proved to hold after '
                 'any handshake history).'),
    'C15': claim('Coq proofs for every list of process states / every formula AST: application state priority, '
                 'required-based major/minor failure, formula denotation on the whitelisted fragment, totality (any '
                 'other construct => parse error => major failure, never a crash), no other execution; the driver '
                 'translates the real Python AST and audits eval/exec/compile/import at run time.', 'DESIGN.md §5 C15',
                 'Regex engine is an oracle; formulas nested deeper than 64 are outside (RecursionError).'),
    'C17': claim('Exhaustive re-measured matrix (every public XML-RPC x 9 states x Master/non-Master/no Master x '
                 'parameter variants on real RPCInterface/FSM brought to the state by a real history) compared in Coq '
                 'with the documented gates written from the property; theorems: gate matrix = documentation, rejected '
                 'calls are effect-free, fault codes.', 'DESIGN.md §5 C17',
                 'Finite domain fully enumerated on every run (exhaustive); interpretation: FINAL refuses everything.',
                 'Coq proof over a finite re-measured table (T2 exhaustive tabulation) + model'),
    'C18': claim('Coq proofs for every rules document / option dictionary: lookup precedence, bounded model recursion '
                 '(termination incl. cycles), domain frame, dependency rules, alias and sign resolution, option ranges; '
                 'model = real Parser / ProcessRules / ApplicationRules / SupvisorsOptions on generated XML documents and '
                 'option dictionaries.', 'DESIGN.md §5 C18',
                 'Regex, XML and XSD engines are oracles; hypothesis doc_unambiguous (no duplicate declarations).'),
    'C19': claim('Coq proofs over a heap model with explicit aliasing (info records addressed by location; the mock process '
                 'holds fresh copies): any number of predictions with any placement function leaves the whole observable '
                 'context unchanged and sends no request (regression theorems for the shallow copy and for the inherited '
                 'Starter.after); prediction = real start with normal events under three named hypotheses, each shown '
                 'necessary by a witness; model = real StarterModel and real Starter on generated contexts, deep snapshot '
                 'diff of the live context around 1-5 predictions evaluated by the Coq spec.', 'DESIGN.md §5 C19',
                 'PARTIAL: match proved on a group-sequential machine (ALL_INSTANCES, one application) under '
                 'H_app_or_single_process, H_loads_never_bind_across_groups, H_expected_fresh; known findings '
                 'c19-prediction-ignores-predicted-load, -stale-expected, -resolves-live-rules, -group-order.'),
    'C20': claim('Coq proofs by induction over every sample stream: history bounds, alignment of value and time series '
                 'through appearing/vanishing keys and counter wraps, period gate, I/O rates finite and >= 0, CPU in '
                 '[0,100] (Flocq/PrimFloat, bit-exact with Python floats), stopped process dropped, pid change resets; '
                 'bit-exact differential runs against statscompiler.py.', 'DESIGN.md §5 C20',
                 'Numeric theorems depend on the stdlib FloatAxioms (primitive float specification) and, through Flocq, on '
                 'the stdlib real-number axioms (ClassicalDedekindReals.sig_forall_dec, sig_not_dec, Classical_Prop.classic, '
                 'functional_extensionality_dep). Hypotheses: depth >= 1, CPU count not shrinking (known finding F24).'),
}
PENDING_REASON = 'check not built yet in this session (planned, see DESIGN.md §8); not claimed until it exists'
ALL = [f'C{n:02d}' for n in range(1, 21)]
