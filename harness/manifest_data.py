"""Source of MANIFEST.json (run bin/mkmanifest after editing)."""
CLAIMED = {
    'C11': {
        'text': 'Coq proof that the executable model of ProcessStatus refines the abstract per-instance specification '
                'written from the property (running list, conflict flag, synthetic and displayed state, forced-state '
                'rules, loss frame) for every well-formed history of any length over any number of instances; the '
                'model is tied to process.py on every run by differential execution of generated histories on the real '
                'class, compared inside Coq (vm_compute), and the Coq specification itself is evaluated against the '
                'implementation outputs as failing-input oracle.',
        'design_ref': 'DESIGN.md §5 C11',
        'note': 'Trusted: Coq kernel + VM, drivers/canonicalisers, literal emission, reflection of supervisor state '
                'tuples. Modelled, not verified: ProcessStatus synthesis; descriptions, extra_args, pid, uptime not modelled.',
        'technique': 'Coq refinement proof (induction over histories) + differential correspondence in vm_compute',
    },
}
PENDING_REASON = 'check not built yet in this session (planned, see DESIGN.md §8); not claimed until it exists'
ALL = [f'C{n:02d}' for n in range(1, 21)]
