"""T3 drivers for Strategy.v.

Suite 'strategy'   : strategy.get_supvisors_instance / strategy.get_node on real Supvisors objects.
Suite 'distribute' : ApplicationStartJobs.before() (distribute_to_single_instance / distribute_to_single_node) and
                     ApplicationJobs.add_commands -> ApplicationStartJobs.on_command_added on real
                     ApplicationStatus / ProcessStatus / ProcessStartCommand objects.

Set-up is by DATA only, on the objects of svenv.make_supvisors() (no method is patched):
  * status._state                         <- SupvisorsInstanceStates(code)
  * supvisors_id.local_view.machine_id    <- 'node<k>'   (local_view <- None for the hostile "never identified" case)
  * mapper.nodes                          <- {machine_id: [identifiers]}   as identify() would have appended them
  * mapper.local_identifier               <- the requesting instance
  * instance load: status.processes holds one real 'ballast' ProcessStatus RUNNING on that instance whose
    rules.expected_load is the wanted load; the value given to the model is read back through the real
    SupvisorsInstanceStatus.get_load().
"""
import svenv
from common import C, app, coq, some
from propcheck import Suite

N_INST = 6
RUNNING_STATE = 3
NODE_PREFIX = 'node'


def ident(i):
    return f'10.0.0.{i}:25000'


def num(identifier):
    return int(identifier.split(':')[0].split('.')[-1])


def machine(k):
    return f'{NODE_PREFIX}{k}'


def machine_num(m):
    return int(m[len(NODE_PREFIX):])


def proc_payload(group, name, state, now=1000, disabled=False):
    code = {'STOPPED': 0, 'RUNNING': 20}[state]
    return {'group': group, 'name': name, 'state': code, 'statename': state, 'expected': True,
            'now': now + 1000000, 'now_monotonic': now, 'start': now + 999990, 'start_monotonic': now - 10,
            'stop': 0 if code == 20 else now + 999995, 'stop_monotonic': 0 if code == 20 else now - 5,
            'pid': 1234 if code == 20 else 0, 'description': '', 'spawnerr': '', 'extra_args': '',
            'disabled': disabled, 'startsecs': 1, 'stopwaitsecs': 2, 'program_name': name, 'process_index': 0,
            'has_stdout': True, 'has_stderr': False}


class World:
    """ the real Supvisors structure, re-arranged by data for each case """

    def __init__(self):
        from supvisors.process import ProcessStatus, ProcessRules
        svenv.install_clock()
        self.supv = svenv.make_supvisors()
        self.views = {}
        self.ballast = {}
        for i in range(1, N_INST + 1):
            sup_id = self.supv.mapper.instances[ident(i)]
            self.views[i] = sup_id.local_view
            proc = ProcessStatus('ballast', f'b{i}', ProcessRules(self.supv), self.supv)
            proc.add_info(ident(i), proc_payload('ballast', f'b{i}', 'RUNNING'))
            self.ballast[i] = proc

    def apply(self, lay, local):
        """ lay = {'insts': [(i, state, node|None, load)], 'nodes': [(k, [ids])]} """
        from supvisors.ttypes import SupvisorsInstanceStates
        supv = self.supv
        for i, state, node, load in lay['insts']:
            sup_id = supv.mapper.instances[ident(i)]
            status = supv.context.instances[ident(i)]
            status._state = SupvisorsInstanceStates(state)
            if node is None:
                sup_id.local_view = None
            else:
                sup_id.local_view = self.views[i]
                sup_id.local_view.machine_id = machine(node)
            self.ballast[i].rules.expected_load = load
            status.processes = {self.ballast[i].namespec: self.ballast[i]}
        supv.mapper.nodes = {machine(k): [ident(i) for i in ids] for k, ids in lay['nodes']}
        supv.mapper.local_identifier = ident(local)

    def observed_layout(self, lay):
        """ the layout as the model receives it: loads are read back from the real get_load() """
        insts = []
        for i, state, node, _ in lay['insts']:
            insts.append((i, state, node, int(self.supv.context.instances[ident(i)].get_load())))
        return {'insts': insts, 'nodes': lay['nodes']}


_WORLD = None


def world():
    global _WORLD
    if _WORLD is None:
        _WORLD = World()
    return _WORLD


# ---------------------------------------------------------------- generation helpers
TIE_LOADS = [0, 10, 20, 20, 30, 40, 50, 60, 80, 100]


def gen_layout(rng, hostile=False, dup=False):
    n_nodes = rng.randint(1, 4)
    all_running = rng.random() < 0.5
    tie = rng.random() < 0.5
    # loads 0-100, scaled so that a node (sum of its instances) is below / around / above the cap of 100
    scale = rng.choice([20, 20, 35, 35, 60, 100])
    insts = []
    for i in range(1, N_INST + 1):
        state = RUNNING_STATE if (all_running or rng.random() < 0.7) else rng.randint(0, 5)
        node = rng.randint(1, n_nodes)
        load = min(rng.choice(TIE_LOADS), scale) if tie else rng.randint(0, scale)
        if rng.random() < 0.15:
            load = 0
        insts.append([i, state, node, load])
    # mapper.nodes as identify() builds it: appends in handshake order
    order = list(range(1, N_INST + 1))
    rng.shuffle(order)
    nodes = {}
    for i in order:
        nodes.setdefault(insts[i - 1][2], []).append(i)
    if dup:
        # a re-identification of one or two instances (second handshake): identify() appends again
        for _ in range(rng.randint(1, 2)):
            i = rng.randint(1, N_INST)
            nodes[insts[i - 1][2]].append(i)
    if hostile:
        r = rng.random()
        if r < 0.25:
            insts[rng.randint(0, N_INST - 1)][2] = None          # never identified: local_view is None
        elif r < 0.45:
            k = rng.choice(list(nodes))
            nodes[k].append(rng.randint(7, 9))                  # unknown identifier listed in a node
        elif r < 0.65:
            del nodes[rng.choice(list(nodes))]                  # a machine id that is not a key of mapper.nodes
        elif r < 0.85:
            i = rng.randint(1, N_INST)                          # instance listed under another node
            nodes.setdefault(rng.randint(1, 5), []).append(i)
        # else: only the request map / candidates are hostile
    node_items = list(nodes.items())
    return {'insts': [tuple(x) for x in insts], 'nodes': [(k, list(v)) for k, v in node_items]}


def gen_reqs(rng, hostile=False):
    reqs = {}
    for _ in range(rng.choice([0, 0, 1, 1, 2, 3])):
        i = rng.randint(1, N_INST)
        reqs[i] = reqs.get(i, 0) + rng.choice([5, 10, 10, 20, 30, rng.randint(1, 60)])
    if hostile and rng.random() < 0.3:
        reqs[rng.randint(7, 9)] = rng.randint(1, 30)
    return list(reqs.items())


def gen_ids(rng, hostile=False):
    r = rng.random()
    if r < 0.35:
        ids = list(range(1, N_INST + 1))
    else:
        ids = rng.sample(range(1, N_INST + 1), rng.randint(0 if r > 0.95 else 1, N_INST))
    if rng.random() < 0.6:
        rng.shuffle(ids)
    if rng.random() < 0.1 and ids:
        ids.insert(rng.randint(0, len(ids)), rng.choice(ids))   # repeated candidate
    if hostile and rng.random() < 0.3:
        ids.insert(rng.randint(0, len(ids)), rng.randint(7, 9))  # unknown candidate
    return ids


def emit_layout(lay):
    insts = [(i, app('mkInst', st, some(nd) if nd is not None else None, ld)) for i, st, nd, ld in lay['insts']]
    nodes = [(k, list(ids)) for k, ids in lay['nodes']]
    return app('mkLayout', insts, nodes)


def emit_result(obs, conv):
    tag, val = obs
    if tag == 'ok':
        return app('Ok', conv(val))
    return app('Crash', C(val))


def optz(v):
    return some(v) if v is not None else C('(@None Z)')


def py_true_keys(lay, ids, expected, reqs):
    """ counting helper only (never used as an oracle): valid candidates and their (inst, node) totals """
    info = {i: (st, nd, ld) for i, st, nd, ld in lay['insts']}
    rq = dict(reqs)
    out = {}
    for i in ids:
        if i not in info or info[i][0] != RUNNING_STATE or info[i][1] is None:
            continue
        nd = info[i][1]
        nload = sum(ld for _, (st, n2, ld) in info.items() if n2 == nd)
        nreq = sum(ld for j, ld in rq.items() if j in info and info[j][1] == nd)
        if nload + nreq + expected <= 100:
            out[i] = (info[i][2] + rq.get(i, 0), nload + nreq)
    return out


# ---------------------------------------------------------------- suite 1
class StrategySuite(Suite):
    name = 'strategy'
    prelude = 'From Sup Require Import Strategy.\nOpen Scope Z_scope.'
    case_type = 'scase'
    evals = {'mismatches': 's_mismatches', 'spec_violations': 's_spec_violations'}

    def generate(self, rng, tier):
        n = 2000 if tier == 'quick' else 40000
        out = []
        for k in range(n):
            hostile = (k % 10 == 9)
            dup = (k % 8 == 5)
            lay = gen_layout(rng, hostile=hostile, dup=dup)
            out.append({'strategy': rng.randint(0, 5), 'local': 1 if rng.random() < 0.6 else rng.randint(1, N_INST),
                        'layout': lay, 'ids': gen_ids(rng, hostile), 'kind': 'hostile' if hostile else ('dup' if dup else 'plain'),
                        'expected': rng.choice([0, 5, 10, 20, 30, 40, rng.randint(0, 100)]),
                        'reqs': gen_reqs(rng, hostile)})
        return out

    def corpus(self):
        # a node list with a repeated identifier (what identify() built before fix 428ae17; by data here): kept for
        # the model correspondence; the real double handshake is replayed by IdentifySuite
        lay = {'insts': [(1, 3, 1, 60), (2, 3, 2, 0), (3, 0, 1, 0), (4, 0, 2, 0), (5, 0, 1, 0), (6, 0, 2, 0)],
               'nodes': [(1, [1, 3, 5, 1]), (2, [2, 4, 6])]}
        return [{'strategy': 0, 'local': 1, 'layout': lay, 'ids': [1], 'expected': 10, 'reqs': [], 'kind': 'dup'}]

    def execute(self, inp):
        from supvisors.strategy import get_supvisors_instance, get_node
        from supvisors.ttypes import StartingStrategies
        w = world()
        w.apply(inp['layout'], inp['local'])
        seen = w.observed_layout(inp['layout'])
        strategy = StartingStrategies(inp['strategy'])
        ids = [ident(i) for i in inp['ids']]
        reqs = {ident(i): ld for i, ld in inp['reqs']}
        try:
            r = get_supvisors_instance(w.supv, strategy, list(ids), inp['expected'], dict(reqs))
            o1 = ('ok', num(r) if r is not None else None)
        except Exception as exc:
            o1 = ('crash', svenv.crash_kind(exc))
        try:
            m = get_node(w.supv, strategy, list(ids), inp['expected'], dict(reqs))
            o2 = ('ok', machine_num(m) if m is not None else None)
        except Exception as exc:
            o2 = ('crash', svenv.crash_kind(exc))
        return {'layout': seen, 'inst': o1, 'node': o2}

    def emit(self, inp, obs):
        return app('mkSCase', inp['strategy'], inp['local'], emit_layout(obs['layout']), list(inp['ids']),
                   inp['expected'], [tuple(x) for x in inp['reqs']],
                   emit_result(obs['inst'], optz), emit_result(obs['node'], optz))

    def describe(self, inp, obs):
        return {'input': inp, 'observed': obs}

    def from_description(self, desc):
        inp = desc['input']
        inp['layout'] = {'insts': [tuple(x) for x in inp['layout']['insts']],
                         'nodes': [(k, list(v)) for k, v in inp['layout']['nodes']]}
        inp['reqs'] = [tuple(x) for x in inp['reqs']]
        return inp

    def nontrivial(self, inp, obs):
        keys = py_true_keys(obs['layout'], inp['ids'], inp['expected'], inp['reqs'])
        if len(set(keys.values())) >= 2:
            return (inp['strategy'], tuple(sorted(keys.items())), tuple(inp['ids']), repr(obs['inst']))
        return None

    def shrink_candidates(self, inp):
        out = []
        for k in range(len(inp['ids'])):
            out.append(dict(inp, ids=inp['ids'][:k] + inp['ids'][k + 1:]))
        for k in range(len(inp['reqs'])):
            out.append(dict(inp, reqs=inp['reqs'][:k] + inp['reqs'][k + 1:]))
        lay = inp['layout']
        for k, (i, st, nd, ld) in enumerate(lay['insts']):
            if ld:
                insts = list(lay['insts'])
                insts[k] = (i, st, nd, 0)
                out.append(dict(inp, layout={'insts': insts, 'nodes': lay['nodes']}))
        if inp['expected']:
            out.append(dict(inp, expected=0))
        return out

    def distribution(self, inputs, observeds):
        d = {'strategy': {}, 'kind': {}, 'result': {}, 'n_candidates': {}, 'valid_candidates': {}}
        for inp, obs in zip(inputs, observeds):
            for key, val in (('strategy', inp['strategy']), ('kind', inp.get('kind', '?')),
                             ('n_candidates', len(inp['ids'])),
                             ('valid_candidates', len(py_true_keys(obs['layout'], inp['ids'], inp['expected'], inp['reqs']))),
                             ('result', obs['inst'][1] if obs['inst'][0] == 'crash'
                              else ('none' if obs['inst'][1] is None else 'some'))):
                d[key][str(val)] = d[key].get(str(val), 0) + 1
        return d


# ---------------------------------------------------------------- suite 2
class DistributeSuite(Suite):
    name = 'distribute'
    prelude = 'From Sup Require Import Strategy.\nOpen Scope Z_scope.'
    case_type = 'dcase'
    evals = {'mismatches': 'd_mismatches', 'spec_violations': 'd_spec_violations'}

    def gen_case(self, rng, k):
        hostile = (k % 6 == 5)
        dup = (k % 9 == 4)
        lay = gen_layout(rng, hostile=False, dup=dup)
        # lighter loads so that whole applications fit somewhere
        lay['insts'] = [(i, st, nd, ld // 2 if rng.random() < 0.7 else ld) for i, st, nd, ld in lay['insts']]
        n_proc = rng.randint(1, 5)
        procs = []
        for p in range(n_proc):
            if hostile or rng.random() < 0.25:
                known = rng.sample(range(1, N_INST + 1), rng.randint(1, N_INST))
            else:
                known = list(range(1, N_INST + 1))
            disabled = [i for i in known if rng.random() < 0.1] if rng.random() < 0.3 else []
            procs.append({'load': rng.choice([0, 5, 10, 10, 15, 20, 30, rng.randint(0, 60)]),
                          'seq': rng.choice([1, 1, 2, 3, 0]) if rng.random() < 0.85 else 0,
                          'known': sorted(known), 'disabled': sorted(disabled),
                          'running_on': rng.choice(known) if rng.random() < 0.08 else None,
                          # the program's own identifiers rule: must be ignored by the distribution rules
                          'rule_ids': rng.sample(range(1, N_INST + 1), rng.randint(1, N_INST))})
        r = rng.random()
        if r < 0.4:
            app_rule = ['*']
        else:
            app_rule = rng.sample(range(1, N_INST + 1), rng.randint(1, N_INST))
        op = 'before' if rng.random() < 0.75 else 'added'
        dist = rng.choice([1, 1, 2, 2, 2, 0])
        case = {'dist': dist, 'strategy': rng.randint(0, 5), 'kind': 'hostile' if hostile else ('dup' if dup else 'plain'),
                'local': 1 if rng.random() < 0.6 else rng.randint(1, N_INST), 'layout': lay,
                'app_rule': app_rule, 'procs': procs, 'op': op}
        idx = list(range(n_proc))
        if op == 'before':
            # planned: the start sequence of the application (start_application) or one process (start_process)
            if rng.random() < 0.8:
                planned = [p for p in idx if procs[p]['seq'] > 0] or idx[:1]
            else:
                planned = [rng.choice(idx)]
            case['planned'] = [(p, None) for p in planned]
            case['current'] = []
            case['identifiers'] = []
            case['added'] = None
        else:
            # a job in progress (identifiers already chosen): some commands already targeted, one command added
            added = rng.choice(idx)
            others = [p for p in idx if p != added]
            rng.shuffle(others)
            cut = rng.randint(0, len(others))
            if dist == 1:
                t = rng.randint(1, N_INST)
                identifiers = [t] if rng.random() < 0.9 else []
            elif dist == 2:
                nd = rng.choice(lay['nodes'])
                identifiers = list(dict.fromkeys(nd[1])) if rng.random() < 0.9 else []
                rng.shuffle(identifiers)
            else:
                identifiers = []
            pool = identifiers or list(range(1, N_INST + 1))
            case['current'] = [(p, rng.choice(pool)) for p in others[:cut]]
            case['planned'] = [(p, rng.choice(pool) if rng.random() < 0.8 else None) for p in others[cut:]]
            case['identifiers'] = identifiers
            case['added'] = added
        return case

    def generate(self, rng, tier):
        n = 1000 if tier == 'quick' else 20000
        return [self.gen_case(rng, k) for k in range(n)]

    def corpus(self):
        # former F7 witness (TypeError before fix b1324b8): two instances of node 1, each knowing one of the two
        # programs; now p0 -> 1 and p1 -> 3
        lay = {'insts': [(1, 3, 1, 0), (2, 3, 2, 0), (3, 3, 1, 0), (4, 0, 2, 0), (5, 0, 1, 0), (6, 0, 2, 0)],
               'nodes': [(1, [1, 3, 5]), (2, [2, 4, 6])]}
        f7 = {'dist': 2, 'strategy': 0, 'local': 1, 'layout': lay, 'app_rule': [1, 3], 'kind': 'plain',
              'procs': [{'load': 10, 'seq': 1, 'known': [1], 'running_on': None, 'rule_ids': [1]},
                        {'load': 10, 'seq': 1, 'known': [3], 'running_on': None, 'rule_ids': [3]}],
              'op': 'before', 'planned': [(0, None), (1, None)], 'current': [], 'identifiers': [], 'added': None}
        # former 'single-node-overload' witness (KeyError before fix b1324b8): start_process of a process outside the
        # start sequence, heavier than what is left on the node; now the command simply gets no target
        lay2 = {'insts': [(1, 3, 1, 60), (2, 0, 2, 0), (3, 0, 1, 0), (4, 0, 2, 0), (5, 0, 1, 0), (6, 0, 2, 0)],
                'nodes': [(1, [1, 3, 5]), (2, [2, 4, 6])]}
        over = {'dist': 2, 'strategy': 0, 'local': 1, 'layout': lay2, 'app_rule': ['*'], 'kind': 'plain',
                'procs': [{'load': 50, 'seq': 0, 'known': [1, 2, 3, 4, 5, 6], 'running_on': None, 'rule_ids': [1]},
                          {'load': 10, 'seq': 1, 'known': [1, 2, 3, 4, 5, 6], 'running_on': None, 'rule_ids': [1]}],
                'op': 'before', 'planned': [(0, None)], 'current': [], 'identifiers': [], 'added': None}
        return [f7, over]

    # ---------------- execution on the real classes
    def build(self, inp):
        from supvisors.application import ApplicationStatus, ApplicationRules
        from supvisors.process import ProcessStatus, ProcessRules
        from supvisors.commander import ApplicationStartJobs, ProcessStartCommand
        from supvisors.ttypes import StartingStrategies, DistributionRules
        w = world()
        supv = w.supv
        w.apply(inp['layout'], inp['local'])
        rules = ApplicationRules(supv)
        rules.managed = True
        rules.distribution = DistributionRules(inp['dist'])
        rules.identifiers = ['*'] if inp['app_rule'] == ['*'] else [ident(i) for i in inp['app_rule']]
        application = ApplicationStatus('app', rules, supv)
        processes = []
        for p, spec in enumerate(inp['procs']):
            prules = ProcessRules(supv)
            prules.expected_load = spec['load']
            prules.start_sequence = spec['seq']
            prules.identifiers = [ident(i) for i in spec['rule_ids']]
            proc = ProcessStatus('app', f'p{p}', prules, supv)
            for i in spec['known']:
                state = 'RUNNING' if spec['running_on'] == i else 'STOPPED'
                proc.add_info(ident(i), proc_payload('app', f'p{p}', state, disabled=i in spec.get('disabled', [])))
            application.add_process(proc)
            processes.append(proc)
            if spec['running_on'] is not None:
                # a process of the application that already runs is part of that instance's load
                supv.context.instances[ident(spec['running_on'])].processes[proc.namespec] = proc
        application.update_sequences()
        strategy = StartingStrategies(inp['strategy'])

        def command(p, target):
            cmd = ProcessStartCommand(processes[p], strategy)
            if target is not None:
                cmd.identifier = ident(target)      # as left by an earlier update_identifier
            return cmd

        planned_cmds = [command(p, t) for p, t in inp['planned']]
        planned = {}
        for cmd in planned_cmds:
            planned.setdefault(cmd.process.rules.start_sequence, []).append(cmd)
        jobs = ApplicationStartJobs(application, planned, strategy, supv)
        jobs.current_jobs = [command(p, t) for p, t in inp['current']]
        jobs.identifiers = [ident(i) for i in inp['identifiers']]
        return w, application, processes, jobs, command

    def execute(self, inp):
        w, application, processes, jobs, command = self.build(inp)
        seen = w.observed_layout(inp['layout'])
        # inputs of the model taken at the boundary of the modelled component (pure reads)
        if inp['dist'] == 1:
            app_ids = [num(x) for x in application.possible_identifiers()]
        elif inp['dist'] == 2:
            app_ids = [num(x) for x in application.possible_node_identifiers()]
        else:
            app_ids = []
        app_load = int(application.get_start_sequence_expected_load())

        def view(cmd):
            proc = cmd.process
            return (int(proc.process_name[1:]), int(proc.rules.expected_load), bool(proc.stopped()),
                    num(cmd.identifier) if cmd.identifier else None, sorted(num(x) for x in proc.info_map),
                    sorted(num(x) for x, info in proc.info_map.items() if info['disabled']))

        flat = [cmd for seq in jobs.planned_jobs.values() for cmd in seq]
        pre = {'current': [view(c) for c in jobs.current_jobs], 'planned': [view(c) for c in flat],
               'identifiers': list(inp['identifiers'])}
        added_view = None
        try:
            if inp['op'] == 'before':
                jobs.before()
                targets = [num(c.identifier) if c.identifier else None for c in flat]
            else:
                cmd = command(inp['added'], None)
                added_view = view(cmd)
                jobs.add_commands({cmd.process.rules.start_sequence: [cmd]})
                targets = [num(cmd.identifier) if cmd.identifier else None]
            obs = ('ok', ([num(x) for x in jobs.identifiers], targets))
        except Exception as exc:
            obs = ('crash', svenv.crash_kind(exc))
        return {'layout': seen, 'app_ids': app_ids, 'app_load': app_load, 'jobs': pre, 'added': added_view, 'obs': obs}

    @staticmethod
    def emit_cmd(v):
        p, load, stopped, target, known, disabled = v
        return app('mkCmd', p, load, stopped, optz(target), list(known), list(disabled))

    def emit(self, inp, obs):
        jobs = app('mkJobs', [self.emit_cmd(v) for v in obs['jobs']['current']],
                   [self.emit_cmd(v) for v in obs['jobs']['planned']], list(obs['jobs']['identifiers']))
        op = C('DBefore') if inp['op'] == 'before' else app('DAdded', self.emit_cmd(obs['added']))
        res = emit_result(obs['obs'], lambda v: (list(v[0]), [optz(t) for t in v[1]]))
        return app('mkDCase', inp['dist'], inp['strategy'], inp['local'], emit_layout(obs['layout']),
                   list(obs['app_ids']), obs['app_load'], jobs, op, res)

    def describe(self, inp, obs):
        return {'input': inp, 'observed': obs}

    def from_description(self, desc):
        inp = desc['input']
        inp['layout'] = {'insts': [tuple(x) for x in inp['layout']['insts']],
                         'nodes': [(k, list(v)) for k, v in inp['layout']['nodes']]}
        for key in ('planned', 'current'):
            inp[key] = [tuple(x) for x in inp[key]]
        return inp

    def nontrivial(self, inp, obs):
        if inp['dist'] == 0 or obs['obs'][0] != 'ok':
            return None
        idents, targets = obs['obs'][1]
        if inp['op'] == 'before' and idents and len(obs['app_ids']) >= 2 and len(targets) >= 1:
            return (inp['dist'], inp['strategy'], tuple(obs['app_ids']), tuple(idents), tuple(targets),
                    tuple(x[3] for x in obs['layout']['insts']))
        if inp['op'] == 'added' and len(idents) >= 2 and targets[0] is not None:
            return (inp['dist'], inp['strategy'], 'added', tuple(idents), tuple(targets),
                    tuple(x[3] for x in obs['layout']['insts']))
        return None

    def shrink_candidates(self, inp):
        out = []
        for key in ('planned', 'current'):
            for k in range(len(inp[key])):
                out.append(dict(inp, **{key: inp[key][:k] + inp[key][k + 1:]}))
        lay = inp['layout']
        for k, (i, st, nd, ld) in enumerate(lay['insts']):
            if ld:
                insts = list(lay['insts'])
                insts[k] = (i, st, nd, 0)
                out.append(dict(inp, layout={'insts': insts, 'nodes': lay['nodes']}))
        return out

    def distribution(self, inputs, observeds):
        d = {'dist': {}, 'strategy': {}, 'op': {}, 'kind': {}, 'outcome': {}, 'n_planned': {}}
        for inp, obs in zip(inputs, observeds):
            o = obs['obs']
            outcome = o[1] if o[0] == 'crash' else ('assigned' if o[1][0] else 'nobody')
            for key, val in (('dist', inp['dist']), ('strategy', inp['strategy']), ('op', inp['op']),
                             ('kind', inp.get('kind', '?')), ('outcome', outcome), ('n_planned', len(inp['planned']))):
                d[key][str(val)] = d[key].get(str(val), 0) + 1
        return d


# ---------------------------------------------------------------- suite 3
class IdentifySuite(Suite):
    """ Handshake histories on the REAL Context.on_identification_event / SupvisorsMapper.identify (state changes go
    through the real SupvisorsInstanceStatus.state setter), then one real get_supvisors_instance on the result.
    Catches a regression of 'an instance identified twice is listed twice in its node' (former finding F6): the
    observed mapper.nodes is compared with the model (identify_nodes) and must satisfy nodes_nodup. """
    name = 'identify'
    prelude = 'From Sup Require Import Strategy.\nOpen Scope Z_scope.'
    case_type = 'icase'
    evals = {'mismatches': 'i_mismatches', 'spec_violations': 'i_spec_violations'}

    def generate(self, rng, tier):
        n = 300 if tier == 'quick' else 6000
        out = []
        for _ in range(n):
            home = {i: rng.randint(1, 3) for i in range(1, N_INST + 1)}
            ops = []
            for _ in range(rng.randint(1, 9)):
                i = rng.randint(1, N_INST) if rng.random() < 0.7 else rng.choice([1, 2])
                node = home[i] if rng.random() < 0.92 else rng.randint(1, 4)
                ops.append((i, node, rng.random() < 0.9))
            scale = rng.choice([20, 35, 60, 100])
            out.append({'ops': ops, 'loads': [rng.randint(0, scale) for _ in range(N_INST)],
                        'strategy': rng.randint(0, 5), 'ids': gen_ids(rng), 'expected': rng.choice([0, 10, 20, 40])})
        return out

    def corpus(self):
        # the former F6 witness: instance 2 (load 60) goes through two handshakes; +10 must still be accepted
        return [{'ops': [(2, 1, True), (2, 1, True)], 'loads': [0, 60, 0, 0, 0, 0], 'strategy': 0, 'ids': [2],
                 'expected': 10}]

    def execute(self, inp):
        from supvisors.strategy import get_supvisors_instance
        from supvisors.ttypes import StartingStrategies, SupvisorsInstanceStates as States
        w = world()
        supv = w.supv
        ctx, mapper = supv.context, supv.mapper
        # state before any handshake (by data)
        mapper.nodes = {}
        mapper.local_identifier = ident(1)
        networks = {}
        for i in range(1, N_INST + 1):
            networks[i] = w.views[i].serial()
            mapper.instances[ident(i)].local_view = None
            status = ctx.instances[ident(i)]
            status._state = States.STOPPED
            w.ballast[i].rules.expected_load = inp['loads'][i - 1]
            status.processes = {w.ballast[i].namespec: w.ballast[i]}
        now = 1000.0
        for i, node, accepted in inp['ops']:
            status = ctx.instances[ident(i)]
            if status.state == States.RUNNING:
                status.state = States.FAILED        # the instance is lost ...
                status.state = States.STOPPED       # ... and seen again later
            now += 10
            svenv.CLOCK.now = now
            status.state = States.CHECKING          # real setter: records the CHECKING date
            network = dict(networks[i], machine_id=machine(node))
            ctx.on_identification_event({'identifier': ident(i), 'now_monotonic': now + 1 if accepted else now - 1,
                                         'network': network, 'stereotypes': []})
            status.state = States.CHECKED
            status.state = States.RUNNING
        nodes = [(machine_num(m), [num(x) for x in ids]) for m, ids in mapper.nodes.items()]
        loads = [int(ctx.instances[ident(i)].get_load()) for i in range(1, N_INST + 1)]
        try:
            r = get_supvisors_instance(supv, StartingStrategies(inp['strategy']), [ident(i) for i in inp['ids']],
                                       inp['expected'], {})
            o = ('ok', num(r) if r is not None else None)
        except Exception as exc:
            o = ('crash', svenv.crash_kind(exc))
        # leave the shared world usable by the other suites
        for i in range(1, N_INST + 1):
            mapper.instances[ident(i)].local_view = w.views[i]
        return {'nodes': nodes, 'loads': loads, 'inst': o}

    def emit(self, inp, obs):
        ops = [app('mkHs', i, node, acc) for i, node, acc in inp['ops']]
        insts = [(i, obs['loads'][i - 1]) for i in range(1, N_INST + 1)]
        return app('mkICase', ops, insts, inp['strategy'], list(inp['ids']), inp['expected'],
                   [(k, list(ids)) for k, ids in obs['nodes']], emit_result(obs['inst'], optz))

    def describe(self, inp, obs):
        return {'input': inp, 'observed': obs}

    def from_description(self, desc):
        inp = desc['input']
        inp['ops'] = [tuple(o) for o in inp['ops']]
        return inp

    def nontrivial(self, inp, obs):
        seen = [i for i, _, acc in inp['ops'] if acc]
        if len(seen) != len(set(seen)):     # some instance identified at least twice
            return (tuple(inp['ops']), tuple(map(tuple, map(lambda kv: (kv[0], tuple(kv[1])), obs['nodes']))))
        return None

    def shrink_candidates(self, inp):
        out = [dict(inp, ops=inp['ops'][:k] + inp['ops'][k + 1:]) for k in range(len(inp['ops']))] \
            if len(inp['ops']) > 1 else []
        out += [dict(inp, ids=inp['ids'][:k] + inp['ids'][k + 1:]) for k in range(len(inp['ids']))]
        return out

    def distribution(self, inputs, observeds):
        d = {'n_handshakes': {}, 're_identified': 0, 'refused_identification': 0, 'machine_id_changed': 0, 'result': {}}
        for inp, obs in zip(inputs, observeds):
            n = len(inp['ops'])
            d['n_handshakes'][str(n)] = d['n_handshakes'].get(str(n), 0) + 1
            seen = [i for i, _, acc in inp['ops'] if acc]
            d['re_identified'] += len(seen) != len(set(seen))
            d['refused_identification'] += any(not acc for _, _, acc in inp['ops'])
            per = {}
            for i, node, acc in inp['ops']:
                if acc:
                    per.setdefault(i, set()).add(node)
            d['machine_id_changed'] += any(len(v) > 1 for v in per.values())
            o = obs['inst']
            key = o[1] if o[0] == 'crash' else ('none' if o[1] is None else 'some')
            d['result'][key] = d['result'].get(key, 0) + 1
        return d
