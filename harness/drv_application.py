"""T3/T2 drivers for AppStatus.v: run application configurations on the real supvisors.application classes.

A case = one application: processes (real ProcessStatus objects whose state is set through
add_info / update_info / force_state), rules.managed, the moment update_sequences() ran, an optional
operational_status formula string given to the real ApplicationRules.status_formula setter; then the real
ApplicationStatus.update() is called once and the property-relevant observable is recorded.

Oracle inputs handed to the model (computed here with the real libraries, never by the model):
  * ast.parse(formula): outcome and the translation of the real AST to the Coq `expr`;
  * per string leaf: `leaf in processes` and the names matched by re.compile('^%s$' % leaf).
During the setter and update() every dynamic execution is audited (builtins.eval/exec/compile/__import__ wrapped,
plus a sys audit hook for exec/compile/import/os.system/subprocess/open/socket...).
"""
import ast
import builtins
import json
import os
import itertools
import re
import sys

import svenv
from common import C, app, coq
from propcheck import Suite
from drv_process import CODE, NAMES, PSTATES, event_payload, full_payload, ident

ALLOWED_EVAL = re.compile(r'^(all|any)\(\[(True|False)(, (True|False))*\]\)$')
MAX_DEPTH = 64      # nesting depth of generated formulas (Python's recursion limit is not modelled)


# ------------------------------------------------------------------ audit of dynamic executions
class Audit:
    """ records what is executed between start() and stop() """
    DENY_PREFIXES = ('os.system', 'os.exec', 'os.spawn', 'os.posix_spawn', 'os.fork', 'os.forkpty', 'subprocess.',
                     'open', 'socket.', 'ctypes.', 'import', 'os.remove', 'os.rename', 'os.rmdir', 'os.mkdir',
                     'os.chmod', 'os.chown', 'os.kill', 'os.putenv', 'os.unsetenv', 'shutil.', 'pty.spawn',
                     'builtins.input', 'builtins.breakpoint', 'marshal.', 'pickle.', 'code.__new__',
                     'function.__new__', 'sys.settrace', 'sys.setprofile', 'webbrowser.open', 'urllib.Request',
                     'os.startfile', 'os.listdir', 'os.scandir', 'os.truncate', 'os.link', 'os.symlink')
    _installed = False
    active = False
    evals = []        # well-shaped eval() calls: (0|1, [bool])
    bad = []          # everything else
    expect_exec = False
    ast_only = False  # inside compile(..., PyCF_ONLY_AST), i.e. ast.parse: builds a tree, executes nothing

    @classmethod
    def hook(cls, event, args):
        if not cls.active:
            return
        if event == 'compile':
            src = args[0]
            if isinstance(src, bytes):
                src = src.decode('utf-8', 'replace')
            if cls.ast_only:
                pass
            elif isinstance(src, str) and ALLOWED_EVAL.match(src):
                cls.expect_exec = True
            else:
                cls.bad.append(('audit', event, repr(src)[:80]))
        elif event == 'exec':
            if cls.expect_exec:
                cls.expect_exec = False
            else:
                cls.bad.append(('audit', event, getattr(args[0], 'co_name', '?')))
        elif event == 'open' and cls.ast_only and args[0] == '<unknown>' and args[1] == 'rb':
            pass   # CPython looks for the source line of a SyntaxError raised by ast.parse('<unknown>' file)
        elif event.startswith(cls.DENY_PREFIXES):
            cls.bad.append(('audit', event, repr(args)[:80]))

    @classmethod
    def install(cls):
        if not cls._installed:
            sys.addaudithook(cls.hook)
            cls._installed = True

    @classmethod
    def start(cls):
        cls.install()
        cls.evals, cls.bad, cls.expect_exec, cls.ast_only = [], [], False, False
        cls.saved = {n: getattr(builtins, n) for n in ('eval', 'exec', 'compile', '__import__')}
        real = cls.saved

        def w_eval(src, *a):
            if isinstance(src, str) and ALLOWED_EVAL.match(src) and not a:
                fn = 0 if src.startswith('all') else 1
                cls.evals.append((fn, [tok == 'True' for tok in re.findall(r'True|False', src)]))
            else:
                cls.bad.append(('eval', repr(src)[:80]))
            if a:
                return real['eval'](src, *a)
            frame = sys._getframe(1)
            return real['eval'](src, frame.f_globals, frame.f_locals)

        def w_exec(src, *a):
            cls.bad.append(('exec', repr(src)[:80]))
            return real['exec'](src, *a)

        def w_compile(src, *a, **k):
            flags = a[2] if len(a) > 2 else k.get('flags', 0)
            if isinstance(flags, int) and flags & ast.PyCF_ONLY_AST:
                cls.ast_only = True
                try:
                    return real['compile'](src, *a, **k)
                finally:
                    cls.ast_only = False
            cls.bad.append(('compile', repr(src)[:80]))
            return real['compile'](src, *a, **k)

        def w_import(name, *a, **k):
            # an import of a module that is already loaded executes nothing (e.g. `import warnings` inside the
            # deprecated ast.Constant.s getter used by evaluate() for its 'no match' message)
            if name not in sys.modules:
                cls.bad.append(('__import__', name))
            return real['__import__'](name, *a, **k)

        builtins.eval, builtins.exec, builtins.compile, builtins.__import__ = w_eval, w_exec, w_compile, w_import
        cls.active = True

    @classmethod
    def stop(cls):
        cls.active = False
        for n, f in cls.saved.items():
            setattr(builtins, n, f)
        return list(cls.evals), list(cls.bad)


# ------------------------------------------------------------------ translation of the real AST
OKIND = {ast.Name: 'KName', ast.Constant: 'KConstOther', ast.Attribute: 'KAttribute', ast.Lambda: 'KLambda',
         ast.ListComp: 'KComprehension', ast.SetComp: 'KComprehension', ast.DictComp: 'KComprehension',
         ast.GeneratorExp: 'KComprehension', ast.NamedExpr: 'KNamedExpr', ast.JoinedStr: 'KJoinedStr',
         ast.Starred: 'KStarred', ast.Subscript: 'KSubscript', ast.Compare: 'KCompare', ast.BinOp: 'KBinOp',
         ast.IfExp: 'KIfExp', ast.List: 'KCollection', ast.Tuple: 'KCollection', ast.Set: 'KCollection',
         ast.Dict: 'KCollection', ast.Await: 'KAwaitYield', ast.Yield: 'KAwaitYield', ast.YieldFrom: 'KAwaitYield',
         ast.Call: 'KCallNode'}


def okind(node):
    return OKIND.get(type(node), 'KOtherNode')


def leaf_oracle(leaf, names):
    """ (exact index or None, ('m', [indexes]) | ('e', crash kind)) computed with the real dict / re """
    exact = names.index(leaf) + 1 if leaf in names else None
    try:
        pattern = re.compile(r'^%s$' % leaf)
        rx = ('m', [k + 1 for k, name in enumerate(names) if pattern.match(name)])
    except (re.error, OverflowError, RecursionError) as exc:
        # the exceptions _get_matches turns into ApplicationStatusParseError; anything else is a driver error
        rx = ('e', svenv.crash_kind(exc))
    return exact, rx


def translate(node, names, stats):
    """ real ast node -> nested tuples mirroring the Coq `expr`; dispatch on type(node) like evaluate() """
    t = type(node)
    if t is ast.Constant and type(node.value) is str:
        stats['Str'] = stats.get('Str', 0) + 1
        exact, rx = leaf_oracle(node.value, names)
        return ('EStr', exact, rx)
    if t is ast.Call:
        stats['Call'] = stats.get('Call', 0) + 1
        if type(node.func) is ast.Name:
            f = {'all': 'FAll', 'any': 'FAny'}.get(node.func.id, 'FOtherName')
        else:
            f = ('FNotName', okind(node.func))
        return ('ECall', f, [translate(a, names, stats) for a in node.args], len(node.keywords))
    if t is ast.BoolOp:
        stats['BoolOp'] = stats.get('BoolOp', 0) + 1
        op = {ast.And: 'BAnd', ast.Or: 'BOr'}[type(node.op)]
        return ('EBoolOp', op, [translate(v, names, stats) for v in node.values])
    if t is ast.UnaryOp:
        stats['UnaryOp'] = stats.get('UnaryOp', 0) + 1
        if type(node.op) is ast.Not:
            return ('EUnary', 'UNot', translate(node.operand, names, stats))
        return ('EUnary', 'UOther', ('EOther', okind(node.operand)))
    k = okind(node)
    stats[k] = stats.get(k, 0) + 1
    return ('EOther', k)


def translate_top(stmt, names, stats):
    if type(stmt) is ast.Expr:
        return ('TExprStmt', translate(stmt.value, names, stats))
    stats['stmt:' + type(stmt).__name__] = stats.get('stmt:' + type(stmt).__name__, 0) + 1
    if not hasattr(stmt, 'value'):
        return ('TStmtNoValue',)
    if stmt.value is None:
        return ('TStmtNone',)
    return ('TStmtValue', translate(stmt.value, names, stats))


def parse_oracle(formula, names, stats):
    """ outcome of ast.parse as the model's `parsed` """
    try:
        tree = ast.parse(formula)
    except SyntaxError:
        return ('PSyntaxError',), None
    except (ValueError, RecursionError, MemoryError):   # caught by the setter since /repo 67529b2
        return ('PParserError',), None
    except BaseException as exc:   # anything else is not caught by the setter
        return ('PRaise', svenv.crash_kind(exc)), None
    first = translate_top(tree.body[0], names, stats) if len(tree.body) == 1 else None
    return ('PBody', len(tree.body), first), tree


def emit_expr(e):
    k = e[0]
    if k == 'EStr':
        _, exact, rx = e
        rxc = app('RxMatches', list(rx[1])) if rx[0] == 'm' else app('RxError', C(rx[1]))
        return app('EStr', app('Some', exact) if exact is not None else None, rxc)
    if k == 'ECall':
        _, f, args, nkw = e
        fc = C(f) if isinstance(f, str) else app('FNotName', C(f[1]))
        return app('ECall', fc, [emit_expr(a) for a in args], nkw)
    if k == 'EBoolOp':
        return app('EBoolOp', C(e[1]), [emit_expr(a) for a in e[2]])
    if k == 'EUnary':
        return app('EUnary', C(e[1]), emit_expr(e[2]))
    return app('EOther', C(e[1]))


def emit_parsed(p):
    if p is None:
        return None
    if p[0] in ('PSyntaxError', 'PParserError'):
        return app('Some', C(p[0]))
    if p[0] == 'PRaise':
        return app('Some', app('PRaise', C(p[1])))
    _, n, first = p
    if first is None:
        fc = None
    elif first[0] in ('TExprStmt', 'TStmtValue'):
        fc = app('Some', app(first[0], emit_expr(first[1])))
    else:
        fc = app('Some', C(first[0]))
    return app('Some', app('PBody', n, fc))


def expr_depth(e):
    k = e[0]
    if k == 'ECall':
        return 1 + max([expr_depth(a) for a in e[2]] + [0])
    if k == 'EBoolOp':
        return 1 + max([expr_depth(a) for a in e[2]] + [0])
    if k == 'EUnary':
        return 1 + expr_depth(e[2])
    return 1


# ------------------------------------------------------------------ the common suite
class AppSuiteBase(Suite):
    """ input: dict {procs: [{name, ops, required, seq}], managed, prefix, formula}
        ops of a process: ('add', inst, STATE, expected) | ('upd', inst, STATE, expected) | ('force', STATE) """
    prelude = 'From Sup Require Import ProcStatus AppStatus.\nOpen Scope Z_scope.'
    case_type = 'case'

    def __init__(self):
        self.supv = None

    # ---------------- generation helpers
    @staticmethod
    def gen_proc_ops(rng, hostile):
        st = rng.choice(NAMES)
        ops = [('add', 1, st, rng.random() < 0.5)]
        r = rng.random()
        if r < 0.25:
            ops.append(('upd', 1, rng.choice(NAMES), rng.random() < 0.5))
        elif r < 0.40:
            ops.append(('add', 2, rng.choice(NAMES), rng.random() < 0.5))
            if rng.random() < 0.5:
                ops.append(('upd', rng.choice([1, 2]), rng.choice(NAMES), rng.random() < 0.5))
        if rng.random() < (0.35 if hostile else 0.2):
            ops.append(('force', rng.choice(NAMES if hostile or rng.random() < 0.4 else ['FATAL', 'STOPPED'])))
        return ops

    def gen_procs(self, rng, names, hostile):
        return [{'name': n, 'ops': self.gen_proc_ops(rng, hostile), 'required': rng.random() < 0.5,
                 'seq': rng.choice([0, 0, 1, 1, 2, 3])} for n in names]

    # ---------------- execution on the real classes
    def build(self, inp):
        from supvisors.application import ApplicationRules, ApplicationStatus
        from supvisors.process import ProcessRules, ProcessStatus
        if self.supv is None:
            svenv.install_clock()
            self.supv = svenv.make_supvisors()
        supv = self.supv
        rules = ApplicationRules(supv)
        rules.managed = inp['managed']
        application = ApplicationStatus('app', rules, supv)
        now = 1000
        for k, p in enumerate(inp['procs']):
            if k == inp['prefix']:
                application.update_sequences()
            prules = ProcessRules(supv)
            prules.required = p['required']
            prules.start_sequence = p['seq']
            process = ProcessStatus('app', p['name'], prules, supv)
            for o in p['ops']:
                now += 1
                svenv.CLOCK.now = now
                if o[0] == 'add':
                    pay = full_payload(o[2], o[3], now, False)
                    pay.update({'group': 'app', 'name': p['name'], 'program_name': p['name']})
                    process.add_info(ident(o[1]), pay)
                elif o[0] == 'upd':
                    ev = event_payload(o[1], o[2], o[3], now)
                    ev.update({'group': 'app', 'name': p['name']})
                    process.update_info(ident(o[1]), ev)
                elif o[0] == 'force':
                    ev = event_payload(1, o[1], False, now)
                    ev.update({'group': 'app', 'name': p['name'], 'forced': True, 'spawnerr': 'forced by harness'})
                    process.force_state(ev)
            application.add_process(process)
        if inp['prefix'] >= len(inp['procs']):
            application.update_sequences()
        return rules, application

    def execute(self, inp):
        from supvisors.ttypes import ApplicationStatusParseError
        rules, application = self.build(inp)
        names = list(application.processes.keys())
        # what update() will read of every ProcessStatus: inputs of the model
        views = [(int(p.state), None if p.forced_state is None else int(p.forced_state), bool(p.expected_exit),
                  bool(p.rules.required), int(p.rules.start_sequence)) for p in application.processes.values()]
        if any(type(p.expected_exit) is not bool for p in application.processes.values()):
            raise RuntimeError('expected_exit is not a bool')
        stats = {}
        parsed = None
        setter = 'ONoFormula'
        evals, bad = [], []
        formula = inp.get('formula')
        if formula is not None:
            parsed, own_tree = parse_oracle(formula, names, stats)
            Audit.start()
            try:
                rules.status_formula = formula
                setter = 'OStored'
            except ApplicationStatusParseError:
                setter = 'ORejected'
            except BaseException as exc:
                setter = exc
            finally:
                e1, b1 = Audit.stop()
            if isinstance(setter, BaseException):
                setter = ('OSetterCrash', svenv.crash_kind(setter))
            evals += e1
            bad += b1
            if setter == 'OStored':
                # the tree stored by the code must be the tree that was translated
                if own_tree is None or ast.dump(own_tree) != ast.dump(rules._status_tree):
                    raise RuntimeError('driver: stored tree differs from the translated tree')
        Audit.start()
        try:
            application.update()
            crash = None
        except BaseException as exc:
            crash = exc
        finally:
            e2, b2 = Audit.stop()
        if crash is not None:
            crash = svenv.crash_kind(crash)
        evals += e2
        bad += b2
        ops_text = application.get_operational_status()
        ops_code = {'': 0, 'Operational': 1, 'Degraded': 2, 'Not Operational': 3}[ops_text]
        uobs = (int(application.state.value), bool(application.major_failure), bool(application.minor_failure),
                ops_code)
        sequenced = sorted(names.index(p.process_name) + 1
                           for sub in application.start_sequence.values() for p in sub)
        return {'views': views, 'parsed': parsed, 'setter': setter, 'crash': crash, 'uobs': uobs,
                'evals': evals, 'bad': [list(b) for b in bad], 'sequenced': sequenced, 'stats': stats,
                'status_formula': rules.status_formula is not None}

    # ---------------- emission
    def emit(self, inp, ob):
        procs = []
        for k, (st, forced, exp, req, seq) in enumerate(ob['views']):
            fc = app('Some', C(PSTATES[forced])) if forced is not None else None
            procs.append((k + 1, app('mkPV', C(PSTATES[st]), fc, exp, req, seq)))
        a = app('mkApp', procs, inp['managed'], inp['prefix'], emit_parsed(ob['parsed']))
        setter = C(ob['setter']) if isinstance(ob['setter'], str) else app('OSetterCrash', C(ob['setter'][1]))
        upd = app('UOk', ob['uobs']) if ob['crash'] is None else app('UCrash', C(ob['crash']), ob['uobs'])
        trace = [(fn, list(bl)) for fn, bl in ob['evals']]
        return coq((a, (setter, upd, trace, len(ob['bad']), list(ob['sequenced']))))

    def describe(self, inp, ob):
        return {'input': inp, 'observed': {k: v for k, v in ob.items() if k != 'stats'}}

    def from_description(self, desc):
        inp = desc['input']
        for p in inp['procs']:
            p['ops'] = [tuple(o) for o in p['ops']]
        return inp

    def shrink_candidates(self, inp):
        out = []
        n = len(inp['procs'])
        for k in range(n):
            c = dict(inp)
            c['procs'] = inp['procs'][:k] + inp['procs'][k + 1:]
            c['prefix'] = min(inp['prefix'], n - 1) if inp['prefix'] < n else n - 1
            out.append(c)
        for k, p in enumerate(inp['procs']):
            if len(p['ops']) > 1:
                c = dict(inp)
                c['procs'] = list(inp['procs'])
                c['procs'][k] = dict(p, ops=p['ops'][:1])
                out.append(c)
        f = inp.get('formula')
        if f:
            try:
                tree = ast.parse(f)
                subs = set()
                for node in ast.walk(tree):
                    if isinstance(node, ast.expr) and node is not getattr(tree.body[0], 'value', None):
                        subs.add(ast.unparse(node))
                for s in sorted(subs, key=len)[:12]:
                    if len(s) < len(f):
                        out.append(dict(inp, formula=s))
            except BaseException:
                pass
            out.append(dict(inp, formula=None))
        return out

    @staticmethod
    def displayed(view):
        return view[0] if view[1] is None else view[1]

    def base_distribution(self, inputs, observeds):
        d = {'n_procs': {}, 'displayed': {}, 'forced': 0, 'multi_instance_procs': 0, 'app_state': {},
             'failures': {}, 'update_crashes': {}, 'managed': 0, 'stale_sequences': 0}
        for inp, ob in zip(inputs, observeds):
            n = len(inp['procs'])
            d['n_procs'][n] = d['n_procs'].get(n, 0) + 1
            d['managed'] += bool(inp['managed'])
            d['stale_sequences'] += inp['prefix'] < n
            for p, v in zip(inp['procs'], ob['views']):
                nm = PSTATES[self.displayed(v)]
                d['displayed'][nm] = d['displayed'].get(nm, 0) + 1
                d['forced'] += v[1] is not None
                d['multi_instance_procs'] += len({o[1] for o in p['ops'] if o[0] == 'add'}) > 1
            st = ob['uobs'][0]
            d['app_state'][st] = d['app_state'].get(st, 0) + 1
            key = f"major={ob['uobs'][1]} minor={ob['uobs'][2]}"
            d['failures'][key] = d['failures'].get(key, 0) + 1
            if ob['crash']:
                d['update_crashes'][ob['crash']] = d['update_crashes'].get(ob['crash'], 0) + 1
        return d


# ------------------------------------------------------------------ suite 1: state / status vectors (no formula)
class AppVectorSuite(AppSuiteBase):
    name = 'appstatus_vectors'
    evals = {'mismatches': 'mismatches', 'spec_violations': 'spec_violations'}

    def generate(self, rng, tier):
        n = 1200 if tier == 'quick' else 24000
        out = []
        for k in range(n):
            hostile = k % 5 == 4
            np_ = rng.choice([0, 1, 1, 2, 2, 3, 3, 4, 5, 6, 8] if tier == 'quick' else [0, 1, 2, 3, 4, 5, 6, 8, 12])
            names = [f'p{i + 1}' for i in range(np_)]
            procs = self.gen_procs(rng, names, hostile)
            prefix = np_ if not hostile or rng.random() < 0.4 else rng.randint(0, np_)
            out.append({'procs': procs, 'managed': rng.random() < 0.6, 'prefix': prefix, 'formula': None})
        return out

    def nontrivial(self, inp, ob):
        st, major, minor, _ = ob['uobs']
        if st != 0 or major or minor:
            return (tuple(sorted((self.displayed(v), v[2], v[3]) for v in ob['views'])), inp['managed'],
                    tuple(ob['sequenced']))
        return None

    def distribution(self, inputs, observeds):
        return self.base_distribution(inputs, observeds)


# ------------------------------------------------------------------ suite 2 (T2): update_state, exhaustive
class AppStateT2Suite(AppSuiteBase):
    """ every list of displayed states of length <= 3, each both as plain state and as forced state over RUNNING """
    name = 'appstate_t2'
    exhaustive = True
    evals = {'mismatches': 'mismatches', 'spec_violations': 'spec_violations'}

    def generate(self, rng, tier):
        out = []
        for n in range(0, 4):
            for combo in itertools.product(NAMES, repeat=n):
                for forced in ((False, True) if n else (False,)):
                    procs = []
                    for k, st in enumerate(combo):
                        ops = [('add', 1, 'RUNNING', True), ('force', st)] if forced else [('add', 1, st, True)]
                        procs.append({'name': f'p{k + 1}', 'ops': ops, 'required': False, 'seq': 1})
                    out.append({'procs': procs, 'managed': True, 'prefix': n, 'formula': None})
        return out

    def nontrivial(self, inp, ob):
        return tuple(self.displayed(v) for v in ob['views']) + (tuple(v[1] is not None for v in ob['views']),)

    def distribution(self, inputs, observeds):
        d = self.base_distribution(inputs, observeds)
        return {'lists_up_to_length': 3, 'cases': len(inputs), 'app_state': d['app_state']}


# ------------------------------------------------------------------ suite 3: formulas
NAME_POOLS = [['web_01', 'web_02', 'db'], ['p1', 'p2'], ['proc'], ['worker_1', 'worker_2', 'worker_3', 'cache', 'db'],
              ['a.b', 'axb', 'a+b'], ['(', 'x', 'x1'], ['srv', 'srv_backup', 'hmi', 'hmi_2'], []]
BAD_REGEX = ['(', '[', '*a', 'a{2,1}', '(?P<x>a)(?P<x>b)', '\\', 'a{99999999999}', '(?z)', ')', '(?<=a+)b', 'x**']
NO_MATCH = ['zz', 'nothing.*', '', 'ZZ_\\d+', '$^', ' ']

HOSTILE = [
    'a.b({q})', '__import__("os").system("true")', '__import__("os")', 'all()', 'any()', 'all(*{q})', 'any(x={q})',
    'all({q}, {r})', 'any({q}, "zz")', 'all({q}, key=1)', 'all({q}, __import__("os"))', '(lambda: {q})()',
    '(lambda x: x)({q})', '[x for x in {q}]', 'all([x for x in {q}])', 'all(x for x in {q})', '(y := {q})',
    'all((y := {q}))', 'f{q}', 'f"{{__import__(\'os\').getcwd()}}"', '().__class__.__bases__[0].__subclasses__()',
    'all.__call__({q})', '{q}.__class__', 'getattr({q}, "x")', 'eval({q})', 'eval("1")', 'exec("import os")',
    'compile("1", "", "eval")', 'open("/etc/passwd")', '__builtins__', 'all', 'True', 'None', '1', '1 and 2',
    '{q} if {q} else {r}', '{q} < {r}', '{q} + {r}', '-{q}', '~{q}', '+{q}', 'not -{q}', '[{q}]', 'all([{q}, {r}])',
    '({q}, {r})', '{{{q}}}', '{{{q}: 1}}', 'b{q}', '...', 'pass', 'import os', 'from os import system', 'del x',
    'return', 'return {q}', 'x = {q}', 'x: int', 'x: int = {q}', 'x += {q}', 'type X = {q}', 'def f(): pass',
    'class A: pass', 'for x in {q}: pass', 'while 1: pass', 'with open("x") as f: pass', 'raise SystemExit',
    'assert {q}', 'global x', 'lambda: 0', 'await {q}', 'yield {q}', 'yield', '{q}; {r}', '{q}\n{r}', '', ' ', '#',
    '(', ')', 'all(', '{q} and', 'and', 'not', '"unterminated', '{q} &&', 'all({q}))', '\x00', 'any(any)({q})',
    'all(all)', 'any({q})({q})', '{q}[0]', '{q}.x', 'all({q}).real', 'any(**{{}})', 'all(*[], {q})', 'print({q})',
    'sum({q})', 'ALL({q})', 'all ({q})', ' {q}', '\n{q}', '{q}\n', '{q} # comment', 'not not not {q}',
    'all(any(all({q})))', 'any(not {q})', 'all({q} and {r})', '{q} and {q} and {r} or {q}', '{q} or any()',
    'any() or {q}', '"(" and a.b()', 'a.b() and "("', '{q} and (lambda: 0)()', 'not a.b({q})', 'all(a.b({q}))',
    'all({q}, *{r})', 'any({q}, **{{"a": 1}})', '{q} is {r}', '{q} in {r}', '{q} @ {r}', '[*{q}]', '{q}[:1]',
    'all({q})if 1 else 0', '(yield)', '(await x)', 'f""', 'f"{{{q}}}"', '"%s" % {q}', '{q}.format()', '{q} "x"',
]


# near-miss / look-alike function names: the whitelist must be exactly {all, any}
_NEAR = sorted({'allany'[i:j] for i in range(6) for j in range(i + 1, 7)} - {'all', 'any'})
_NEAR += ['All', 'ANY', 'Any', 'aLL', 'any_', '_all', 'all_', '_any', 'aall', 'anyy', 'alll', 'al1', 'any2', 'a11',
          'allall', 'anyany', 'anyall', 'min', 'max', 'sum', 'len', 'bool', 'list', 'tuple', 'set', 'sorted',
          'filter', 'map', 'next', 'iter', 'callable', 'type', 'vars', 'dir', 'id', 'hash', 'repr', 'str', 'int',
          'abs', 'any.__call__', 'all.__self__']
HOSTILE += [n + '({q})' for n in _NEAR] + [n + '({q}) and {r}' for n in _NEAR[:20]] + ['all(' + n + '({q}))' for n in _NEAR[:20]]


class AppFormulaSuite(AppSuiteBase):
    name = 'appstatus_formulas'
    # no known-finding class is left (all F14 classes fixed by /repo 67529b2): every violation is reported
    evals = {'mismatches': 'mismatches', 'spec_violations': 'spec_violations'}
    CORPUS = os.path.join(os.path.dirname(os.path.abspath(__file__)), 'corpus', 'c15_formulas.json')

    # ----- formula generators
    @staticmethod
    def q(s, rng):
        return repr(s) if rng.random() < 0.7 else '"' + s.replace('\\', '\\\\').replace('"', '\\"') + '"'

    def patterns(self, names, rng):
        pats = ['.*']
        for n in names:
            pats += [n[:max(1, len(n) // 2)] + '.*', '.*' + n[-2:], n[:-1] + '.', re.escape(n)]
            if '_' in n:
                pats += [n.split('_')[0] + '_\\d+', n.split('_')[0] + '.*']
        if len(names) >= 2:
            pats.append(f'{re.escape(names[0])}|{re.escape(names[1])}')
            pats.append(f'({re.escape(names[0])}|{re.escape(names[-1])})')
        return pats

    def leaf(self, names, rng, mode):
        r = rng.random()
        if mode == 'well':
            if names and r < 0.5:
                return self.q(rng.choice(names), rng)
            return self.q(rng.choice(self.patterns(names, rng)), rng)
        # ill-formed: mostly valid leaves, sometimes no match / bad regex
        if r < 0.70:
            return self.leaf(names, rng, 'well')
        if r < 0.88:
            return self.q(rng.choice(NO_MATCH), rng)
        return self.q(rng.choice(BAD_REGEX), rng)

    def gen_expr(self, names, rng, depth, mode):
        r = rng.random()
        if depth <= 0 or r < 0.25:
            return self.leaf(names, rng, mode)
        if r < 0.45:
            op = rng.choice([' and ', ' or '])
            return op.join(self.sub(names, rng, depth - 1, mode) for _ in range(rng.choice([2, 2, 3, 4])))
        if r < 0.60:
            return 'not ' + self.sub(names, rng, depth - 1, mode)
        if r < 0.95:
            return f"{rng.choice(['all', 'any'])}({self.gen_expr(names, rng, depth - 1, mode)})"
        return '(' + self.gen_expr(names, rng, depth - 1, mode) + ')'

    def sub(self, names, rng, depth, mode):
        e = self.gen_expr(names, rng, depth, mode)
        return '(' + e + ')' if (' and ' in e or ' or ' in e or e.startswith('not ')) else e

    def gen_hostile(self, names, rng):
        t = rng.choice(HOSTILE)
        q = self.leaf(names, rng, 'well')
        r = self.leaf(names, rng, 'ill')
        f = t.replace('{{', '\x01').replace('}}', '\x02').replace('{q}', q).replace('{r}', r)
        f = f.replace('\x01', '{').replace('\x02', '}')
        k = rng.random()
        if k < 0.25 and '\n' not in f and f.strip() and ';' not in f:
            # embed the hostile expression in a well-formed context
            ctx = self.gen_expr(names, rng, 1, 'well')
            f = rng.choice(['{c} and ({h})', '({h}) or {c}', 'not ({h})', 'all({h})', 'any(({h}))',
                            '{c} and {c} and ({h})']).format(c='(' + ctx + ')', h=f)
        return f

    def generate(self, rng, tier):
        n = 1800 if tier == 'quick' else 40000
        out = []
        for k in range(n):
            mode = ('well', 'well', 'ill', 'hostile', 'well', 'ill', 'hostile')[k % 7]
            names = list(rng.choice(NAME_POOLS))
            if rng.random() < 0.2:
                rng.shuffle(names)
            hostile_procs = mode == 'hostile' and rng.random() < 0.5
            procs = self.gen_procs(rng, names, hostile_procs)
            if mode != 'hostile' and rng.random() < 0.45:
                # mostly-up application, so that formulas evaluate to True often enough
                for p in procs:
                    if rng.random() < 0.85:
                        p['ops'] = [('add', 1, rng.choice(['RUNNING', 'RUNNING', 'STARTING', 'BACKOFF', 'EXITED']), True)]
            if mode == 'hostile':
                formula = self.gen_hostile(names, rng)
            else:
                formula = self.gen_expr(names, rng, rng.choice([0, 1, 2, 2, 3, 4, 6]), mode)
            np_ = len(names)
            prefix = np_ if rng.random() < 0.9 else rng.randint(0, np_)
            out.append({'procs': procs, 'managed': rng.random() < 0.8, 'prefix': prefix, 'formula': formula,
                        'mode': mode})
        return out

    def corpus(self):
        """ former witnesses of the fixed F14 classes + boundary formulas; always run first.
        An entry: {"formula": str | ["repeat", prefix, count, suffix], "states": [...], "what": str} """
        with open(self.CORPUS) as f:
            entries = json.load(f)
        out = []
        for ent in entries:
            formula = ent['formula']
            if isinstance(formula, list):
                formula = formula[1] * formula[2] + formula[3]
            procs = [{'name': f'p{k + 1}', 'ops': [('add', 1, st, True)], 'required': False, 'seq': 1}
                     for k, st in enumerate(ent.get('states', ['RUNNING', 'RUNNING']))]
            out.append({'procs': procs, 'managed': True, 'prefix': len(procs), 'formula': formula, 'mode': 'corpus'})
        return out

    def nontrivial(self, inp, ob):
        if ob['setter'] == 'OStored':
            return (inp['formula'], tuple(self.displayed(v) for v in ob['views']), tuple(v[2] for v in ob['views']))
        return None

    def distribution(self, inputs, observeds):
        d = self.base_distribution(inputs, observeds)
        modes, setters, nodes, results, depth = {}, {}, {}, {}, {}
        n_evals = 0
        bad = 0
        for inp, ob in zip(inputs, observeds):
            modes[inp.get('mode', '?')] = modes.get(inp.get('mode', '?'), 0) + 1
            s = ob['setter'] if isinstance(ob['setter'], str) else 'OSetterCrash:' + ob['setter'][1]
            setters[s] = setters.get(s, 0) + 1
            for k, v in ob['stats'].items():
                nodes[k] = nodes.get(k, 0) + v
            n_evals += len(ob['evals'])
            bad += len(ob['bad'])
            if ob['setter'] == 'OStored':
                key = ('crash:' + ob['crash']) if ob['crash'] else f"major={ob['uobs'][1]}"
                results[key] = results.get(key, 0) + 1
                p = ob['parsed']
                if p and p[0] == 'PBody' and p[2] and len(p[2]) > 1:
                    dd = expr_depth(p[2][1])
                    b = '1' if dd == 1 else '2-3' if dd <= 3 else '4-7' if dd <= 7 else '8+'
                    depth[b] = depth.get(b, 0) + 1
        d.update({'modes': modes, 'setter_outcomes': setters, 'ast_nodes_translated': nodes,
                  'stored_formula_results': results, 'stored_formula_depth': depth, 'eval_calls_observed': n_evals,
                  'other_executions_observed': bad})
        return d


if __name__ == '__main__':
    # replay of one formula on the real classes: /venv/bin/python harness/drv_application.py '<formula>' [STATE ...]
    import json
    formula = sys.argv[1]
    states = sys.argv[2:] or ['RUNNING', 'RUNNING']
    case = {'procs': [{'name': f'p{k + 1}', 'ops': [('add', 1, st, True)], 'required': False, 'seq': 1}
                      for k, st in enumerate(states)],
            'managed': True, 'prefix': len(states), 'formula': formula}
    suite = AppFormulaSuite()
    ob = suite.execute(case)
    print(json.dumps({k: ob[k] for k in ('setter', 'crash', 'uobs', 'evals', 'bad', 'parsed')}, default=str)[:2000])
