"""T3 drivers for FailureHandler.v (C06).

HandlerSuite      : operation sequences on the REAL supvisors.strategy.RunningFailureHandler, over real
                    Context / ApplicationStatus / ProcessStatus objects; starter and stopper are recording fakes whose
                    get_application_job_names() answers are scripted by the generator.
InvalidationSuite : the REAL Starter/Stopper.on_instances_invalidation (and ApplicationStartJobs/ApplicationStopJobs
                    .on_instances_invalidation, process_failure) on hand-built job pipes: which lost processes are
                    left for the failure handler.
`python harness/drv_handler.py f8` replays candidate finding F8 on the real FiniteStateMachine.
"""
import types

import svenv
from common import C, app, coq, some
from propcheck import Suite

RF = {'CONTINUE': 'RfContinue', 'RESTART_PROCESS': 'RfRestartProcess', 'STOP_APPLICATION': 'RfStopApplication',
      'RESTART_APPLICATION': 'RfRestartApplication', 'SHUTDOWN': 'RfShutdown', 'RESTART': 'RfRestart'}
RF_NAMES = list(RF)
GHOST_APP = 7          # an application that is NOT in context.applications (hostile stream)
UNKNOWN_BUSY = 99      # a busy application name unknown to the context


def app_name(a):
    return f'app{a}'


def proc_name(p):
    return f'proc{p}'


class FakeCommander:
    """ recording stand-in for Starter / Stopper: only what RunningFailureHandler calls """

    def __init__(self, who, calls):
        self.who = who
        self.calls = calls
        self.names = set()

    def get_application_job_names(self):
        return set(self.names)

    def next(self):
        self.calls.append((self.who + '.next',))

    def stop_application(self, application, trigger=True):
        self.calls.append(('stop_application', application, trigger))

    def default_restart_application(self, application, trigger=True):
        self.calls.append(('restart_application', application, trigger))

    def default_restart_process(self, process, trigger=True):
        self.calls.append(('restart_process', process, trigger))


class HandlerSuite(Suite):
    name = 'failurehandler'
    prelude = 'From Sup Require Import FailureHandler.\nOpen Scope Z_scope.'
    case_type = 'case'
    evals = {'mismatches': 'mismatches', 'spec_violations': 'spec_violations'}

    def __init__(self):
        self.supv = None

    # ---------------- generation
    def gen_case(self, rng, max_ops, hostile):
        n_apps = rng.randint(1, 3)
        apps = []
        procs = []
        for a in range(1, n_apps + 1):
            apps.append({'id': a, 'managed': rng.random() < 0.9})
            weights = rng.choice([[1, 1, 1, 1, 0, 0], [1, 3, 1, 1, 0, 0], [1, 1, 1, 1, 1, 1], [2, 4, 0, 1, 0, 0]])
            for k in range(rng.randint(1, 5)):
                procs.append({'id': 10 * a + k, 'app': a,
                              'start_sequence': rng.choice([0, 0, 1, 1, 2, 3]),
                              'strategy': rng.choices(RF_NAMES, weights)[0]})
        if hostile:
            for k in range(rng.randint(1, 2)):
                procs.append({'id': 10 * GHOST_APP + k, 'app': GHOST_APP, 'start_sequence': rng.choice([0, 1]),
                              'strategy': rng.choice(RF_NAMES)})
        pids = [p['id'] for p in procs]
        by_app = {}
        for p in procs:
            by_app.setdefault(p['app'], []).append(p['id'])
        app_ids = [a['id'] for a in apps]
        ops = []
        n_ops = rng.randint(1, max_ops)
        stopped = {a: rng.random() < 0.3 for a in app_ids + [GHOST_APP]}

        def busy():
            pool = app_ids + ([UNKNOWN_BUSY, GHOST_APP] if hostile else [])
            r = rng.random()
            if r < 0.45:
                return [], []
            return (sorted(x for x in pool if rng.random() < 0.3), sorted(x for x in pool if rng.random() < 0.3))

        while len(ops) < n_ops:
            r = rng.random()
            if r < 0.35:
                # an instance is lost: a burst of default jobs, mostly within one application
                a = rng.choice(list(by_app))
                if rng.random() < 0.25:
                    stopped[a] = not stopped[a]
                pool = by_app[a] if rng.random() < 0.7 else pids
                for p in rng.sample(pool, rng.randint(1, len(pool))):
                    pa = p // 10
                    ops.append(('AddDefault', p, stopped[pa]))
                if rng.random() < 0.6:
                    ops.append(('Trigger',) + busy())
            elif r < 0.55:
                p = rng.choice(pids)
                ops.append(('AddDefault', p, rng.random() < 0.4))
            elif r < 0.75:
                ops.append(('AddJob', rng.choice(RF_NAMES[:4] if rng.random() < 0.9 else RF_NAMES), rng.choice(pids)))
            elif r < 0.96:
                ops.append(('Trigger',) + busy())
            else:
                ops.append(('Abort',))
        return {'apps': apps, 'procs': procs, 'ops': ops[:max_ops + 6]}

    def generate(self, rng, tier):
        n, max_ops = (2400, 30) if tier == 'quick' else (40000, 200)
        return [self.gen_case(rng, max_ops, hostile=(k % 6 == 5)) for k in range(n)]

    # ---------------- execution on the real classes
    def build(self, case):
        from supvisors.application import ApplicationStatus, ApplicationRules
        from supvisors.process import ProcessStatus, ProcessRules
        from supvisors.strategy import RunningFailureHandler
        from supvisors.ttypes import RunningFailureStrategies
        if self.supv is None:
            svenv.install_clock()
            self.supv = svenv.make_supvisors()
        supv = self.supv
        ctx = supv.context
        ctx.applications.clear()
        calls = []
        supv.starter = FakeCommander('starter', calls)
        supv.stopper = FakeCommander('stopper', calls)
        applications = {}
        for a in case['apps']:
            rules = ApplicationRules(supv)
            rules.managed = a['managed']
            application = ApplicationStatus(app_name(a['id']), rules, supv)
            ctx.applications[application.application_name] = application
            applications[a['id']] = application
        processes = {}
        for p in case['procs']:
            rules = ProcessRules(supv)
            rules.start_sequence = p['start_sequence']
            rules.running_failure_strategy = RunningFailureStrategies[p['strategy']]
            process = ProcessStatus(app_name(p['app']), proc_name(p['id']), rules, supv)
            process.program_name = proc_name(p['id'])
            processes[p['id']] = process
            if p['app'] in applications:
                applications[p['app']].add_process(process)
        for application in applications.values():
            application.update_sequences()
        handler = RunningFailureHandler(supv)
        supv.failure_handler = handler
        return supv, handler, applications, processes, calls

    def context_slice(self, case, applications, processes):
        """ the abstract context handed to the model, READ from the real objects """
        out = []
        for p in case['procs']:
            application = applications.get(p['app'])
            process = processes[p['id']]
            seq = bool(application is not None and process in application.get_start_sequenced_processes())
            out.append((p['id'], p['app'], seq, process.rules.running_failure_strategy.name))
        return out, sorted(applications)

    def execute(self, case):
        from supvisors.ttypes import ApplicationStates, RunningFailureStrategies
        supv, handler, applications, processes, calls = self.build(case)
        app_id = {application: a for a, application in applications.items()}
        proc_id = {process: p for p, process in processes.items()}
        name_id = {app_name(a): a for a in list(applications) + [GHOST_APP]}
        ctx_slice = self.context_slice(case, applications, processes)
        obs = []
        ops_seen = []
        for o in case['ops']:
            del calls[:]
            kind = o[0]
            try:
                if kind == 'AddJob':
                    ops_seen.append(o)
                    handler.add_job(RunningFailureStrategies[o[1]], processes[o[2]])
                elif kind == 'AddDefault':
                    application = applications.get(o[1] // 10)
                    flag = False
                    if application is not None:
                        application._state = ApplicationStates.STOPPED if o[2] else ApplicationStates.RUNNING
                        flag = bool(application.stopped())
                    ops_seen.append(('AddDefault', o[1], flag))
                    handler.add_default_job(processes[o[1]])
                elif kind == 'Trigger':
                    supv.starter.names = {app_name(a) if a != UNKNOWN_BUSY else 'unknown' for a in o[1]}
                    supv.stopper.names = {app_name(a) if a != UNKNOWN_BUSY else 'unknown' for a in o[2]}
                    names = handler.get_application_job_names()
                    ops_seen.append(('Trigger', sorted(name_id.get(n, UNKNOWN_BUSY) for n in names)))
                    handler.trigger_jobs()
                elif kind == 'Abort':
                    ops_seen.append(o)
                    handler.abort()
                else:
                    raise RuntimeError(kind)
            except Exception as exc:  # an exception IS an observable
                obs.append(('crash', svenv.crash_kind(exc)))
                break
            issued = None
            if kind == 'Trigger':
                issued = self.canonical_calls(calls, app_id, proc_id)
            elif calls:
                issued = ([-1], [], [], False)   # nothing may be issued outside trigger_jobs
            obs.append(('ok', (sorted(app_id[x] for x in handler.stop_application_jobs),
                               sorted(app_id[x] for x in handler.restart_application_jobs),
                               sorted(proc_id[x] for x in handler.restart_process_jobs),
                               sorted(proc_id[x] for x in handler.continue_process_jobs), issued)))
        return {'ctx': ctx_slice, 'ops': ops_seen, 'obs': obs}

    @staticmethod
    def canonical_calls(calls, app_id, proc_id):
        """ (sorted stops, sorted application restarts, sorted process restarts, order_ok) """
        kinds = {'stop_application': 0, 'restart_application': 1, 'restart_process': 2}
        body = [c for c in calls if c[0] in kinds]
        tail = [c for c in calls if c[0] not in kinds]
        seq = [kinds[c[0]] for c in body]
        ok = (seq == sorted(seq) and tail == [('stopper.next',), ('starter.next',)]
              and calls[len(body):] == tail and all(c[2] is False for c in body))
        stops = sorted(app_id[c[1]] for c in body if c[0] == 'stop_application')
        rapps = sorted(app_id[c[1]] for c in body if c[0] == 'restart_application')
        rprocs = sorted(proc_id[c[1]] for c in body if c[0] == 'restart_process')
        return stops, rapps, rprocs, ok

    # ---------------- emission
    @staticmethod
    def emit_op(o):
        if o[0] == 'AddJob':
            return app('AddJob', C(RF[o[1]]), o[2])
        if o[0] == 'AddDefault':
            return app('AddDefault', o[1], bool(o[2]))
        if o[0] == 'Trigger':
            return app('Trigger', list(o[1]))
        if o[0] == 'Abort':
            return C('Abort')
        raise RuntimeError(o)

    def emit(self, case, observed):
        procs, apps = observed['ctx']
        ctx = app('mkCtx', [(pid, app('mkPinfo', a, seq, C(RF[strat]))) for pid, a, seq, strat in procs], list(apps))
        obs = []
        for tag, val in observed['obs']:
            if tag == 'crash':
                obs.append(app('OCrash', C(val)))
            else:
                s, r, p, c, issued = val
                t = C('None') if issued is None else some((list(issued[0]), list(issued[1]), list(issued[2]),
                                                           bool(issued[3])))
                obs.append(app('OOk', (list(s), list(r), list(p), list(c), t)))
        return coq((ctx, [self.emit_op(o) for o in observed['ops']], obs))

    def describe(self, case, observed):
        return {'case': case, 'observed': observed}

    def from_description(self, desc):
        case = desc['case']
        case['ops'] = [tuple(o) for o in case['ops']]
        return case

    def nontrivial(self, case, observed):
        # at least two different strategies hit one application between two triggers
        hit = {}
        strat = {p['id']: p['strategy'] for p in case['procs']}
        best = 0
        for o in observed['ops']:
            if o[0] == 'AddJob':
                hit.setdefault(o[2] // 10, set()).add(o[1])
            elif o[0] == 'AddDefault':
                hit.setdefault(o[1] // 10, set()).add(strat[o[1]] + ('+' if o[2] else ''))
            elif o[0] in ('Trigger', 'Abort'):
                best = max([best] + [len(v) for v in hit.values()])
                if o[0] == 'Abort':
                    hit = {}
                else:
                    hit = {a: v for a, v in hit.items() if a in o[1]}
        best = max([best] + [len(v) for v in hit.values()])
        if best >= 2:
            return repr(observed['obs'][-1]) + repr(len(observed['ops']))
        return None

    def shrink_candidates(self, case):
        ops = case['ops']
        out = [dict(case, ops=ops[:k] + ops[k + 1:]) for k in range(len(ops))] if len(ops) > 1 else []
        if len(case['procs']) > 1:
            used = {o[2] if o[0] == 'AddJob' else o[1] for o in ops if o[0] in ('AddJob', 'AddDefault')}
            for k, p in enumerate(case['procs']):
                if p['id'] not in used:
                    out.append(dict(case, procs=case['procs'][:k] + case['procs'][k + 1:]))
        return out

    def distribution(self, inputs, observeds):
        kinds, lens, crashes = {}, {}, {}
        issued = {'stop_application': 0, 'restart_application': 0, 'restart_process': 0, 'deferred_triggers': 0}
        promoted = 0
        for case, ob in zip(inputs, observeds):
            n = len(ob['ops'])
            b = f'{(n // 10) * 10}-{(n // 10) * 10 + 9}'
            lens[b] = lens.get(b, 0) + 1
            strat = {p['id']: (p['strategy'], s) for p, (_, _, s, _) in zip(case['procs'], ob['ctx'][0])}
            for o in ob['ops']:
                kinds[o[0]] = kinds.get(o[0], 0) + 1
                if o[0] == 'AddDefault' and o[2] and strat[o[1]] == ('RESTART_PROCESS', True):
                    promoted += 1
            for o, (tag, val) in zip(ob['ops'], ob['obs']):
                if tag == 'crash':
                    crashes[val] = crashes.get(val, 0) + 1
                elif val[4] is not None:
                    issued['stop_application'] += len(val[4][0])
                    issued['restart_application'] += len(val[4][1])
                    issued['restart_process'] += len(val[4][2])
                    if o[0] == 'Trigger' and o[1] and (val[0] or val[1] or val[2]):
                        issued['deferred_triggers'] += 1
        return {'op_kinds': kinds, 'sequence_lengths': lens, 'crashes': crashes, 'issued': issued,
                'promotions_RESTART_PROCESS_to_RESTART_APPLICATION': promoted}
