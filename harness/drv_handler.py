"""T3 drivers for FailureHandler.v (C06).

HandlerSuite      : operation sequences on the REAL supvisors.strategy.RunningFailureHandler, over real
                    Context / ApplicationStatus / ProcessStatus objects; starter and stopper are recording fakes whose
                    get_application_job_names() answers are scripted by the generator.
InvalidationSuite : the REAL Starter/Stopper.on_instances_invalidation (and ApplicationStartJobs/ApplicationStopJobs
                    .on_instances_invalidation, process_failure) on hand-built job pipes: which lost processes are
                    left for the failure handler.
`python harness/drv_handler.py f8` replays candidate finding F8 on the real FiniteStateMachine.
"""
import types

import svenv
from common import C, app, coq, some
from propcheck import Suite

RF = {'CONTINUE': 'RfContinue', 'RESTART_PROCESS': 'RfRestartProcess', 'STOP_APPLICATION': 'RfStopApplication',
      'RESTART_APPLICATION': 'RfRestartApplication', 'SHUTDOWN': 'RfShutdown', 'RESTART': 'RfRestart'}
RF_NAMES = list(RF)
GHOST_APP = 7          # an application that is NOT in context.applications (hostile stream)
UNKNOWN_BUSY = 99      # a busy application name unknown to the context


_CLOCK = []


def ensure_clock():
    """ install the logical clock once per process """
    if not _CLOCK:
        svenv.install_clock()
        _CLOCK.append(True)


def app_name(a):
    return f'app{a}'


def proc_name(p):
    return f'proc{p}'


class FakeCommander:
    """ recording stand-in for Starter / Stopper: only what RunningFailureHandler calls """

    def __init__(self, who, calls):
        self.who = who
        self.calls = calls
        self.names = set()

    def get_application_job_names(self):
        return set(self.names)

    def next(self):
        self.calls.append((self.who + '.next',))

    def stop_application(self, application, trigger=True):
        self.calls.append(('stop_application', application, trigger))

    def default_restart_application(self, application, trigger=True):
        self.calls.append(('restart_application', application, trigger))

    def default_restart_process(self, process, trigger=True):
        self.calls.append(('restart_process', process, trigger))


class HandlerSuite(Suite):
    name = 'failurehandler'
    prelude = 'From Sup Require Import FailureHandler.\nOpen Scope Z_scope.'
    case_type = 'case'
    evals = {'mismatches': 'mismatches', 'spec_violations': 'spec_violations'}

    def __init__(self):
        self.supv = None

    # ---------------- generation
    def gen_case(self, rng, max_ops, hostile):
        n_apps = rng.randint(1, 3)
        apps = []
        procs = []
        for a in range(1, n_apps + 1):
            apps.append({'id': a, 'managed': rng.random() < 0.9})
            weights = rng.choice([[1, 1, 1, 1, 0, 0], [1, 3, 1, 1, 0, 0], [1, 1, 1, 1, 1, 1], [2, 4, 0, 1, 0, 0]])
            for k in range(rng.randint(1, 5)):
                procs.append({'id': 10 * a + k, 'app': a,
                              'start_sequence': rng.choice([0, 0, 1, 1, 2, 3]),
                              'strategy': rng.choices(RF_NAMES, weights)[0]})
        if hostile:
            for k in range(rng.randint(1, 2)):
                procs.append({'id': 10 * GHOST_APP + k, 'app': GHOST_APP, 'start_sequence': rng.choice([0, 1]),
                              'strategy': rng.choice(RF_NAMES)})
        pids = [p['id'] for p in procs]
        by_app = {}
        for p in procs:
            by_app.setdefault(p['app'], []).append(p['id'])
        app_ids = [a['id'] for a in apps]
        ops = []
        n_ops = rng.randint(1, max_ops)
        stopped = {a: rng.random() < 0.3 for a in app_ids + [GHOST_APP]}

        def busy():
            pool = app_ids + ([UNKNOWN_BUSY, GHOST_APP] if hostile else [])
            r = rng.random()
            if r < 0.45:
                return [], []
            return (sorted(x for x in pool if rng.random() < 0.3), sorted(x for x in pool if rng.random() < 0.3))

        while len(ops) < n_ops:
            r = rng.random()
            if r < 0.35:
                # an instance is lost: a burst of default jobs, mostly within one application
                a = rng.choice(list(by_app))
                if rng.random() < 0.25:
                    stopped[a] = not stopped[a]
                pool = by_app[a] if rng.random() < 0.7 else pids
                for p in rng.sample(pool, rng.randint(1, len(pool))):
                    pa = p // 10
                    ops.append(('AddDefault', p, stopped[pa]))
                if rng.random() < 0.6:
                    ops.append(('Trigger',) + busy())
            elif r < 0.55:
                p = rng.choice(pids)
                ops.append(('AddDefault', p, rng.random() < 0.4))
            elif r < 0.75:
                ops.append(('AddJob', rng.choice(RF_NAMES[:4] if rng.random() < 0.9 else RF_NAMES), rng.choice(pids)))
            elif r < 0.96:
                ops.append(('Trigger',) + busy())
            else:
                ops.append(('Abort',))
        return {'apps': apps, 'procs': procs, 'ops': ops[:max_ops + 6]}

    def generate(self, rng, tier):
        n, max_ops = (2400, 30) if tier == 'quick' else (12000, 120)
        return [self.gen_case(rng, max_ops, hostile=(k % 6 == 5)) for k in range(n)]

    # ---------------- execution on the real classes
    def build(self, case):
        from supvisors.application import ApplicationStatus, ApplicationRules
        from supvisors.process import ProcessStatus, ProcessRules
        from supvisors.strategy import RunningFailureHandler
        from supvisors.ttypes import RunningFailureStrategies
        if self.supv is None:
            ensure_clock()
            self.supv = svenv.make_supvisors()
        supv = self.supv
        ctx = supv.context
        ctx.applications.clear()
        calls = []
        supv.starter = FakeCommander('starter', calls)
        supv.stopper = FakeCommander('stopper', calls)
        applications = {}
        for a in case['apps']:
            rules = ApplicationRules(supv)
            rules.managed = a['managed']
            application = ApplicationStatus(app_name(a['id']), rules, supv)
            ctx.applications[application.application_name] = application
            applications[a['id']] = application
        processes = {}
        for p in case['procs']:
            rules = ProcessRules(supv)
            rules.start_sequence = p['start_sequence']
            rules.running_failure_strategy = RunningFailureStrategies[p['strategy']]
            process = ProcessStatus(app_name(p['app']), proc_name(p['id']), rules, supv)
            process.program_name = proc_name(p['id'])
            processes[p['id']] = process
            if p['app'] in applications:
                applications[p['app']].add_process(process)
        for application in applications.values():
            application.update_sequences()
        handler = RunningFailureHandler(supv)
        supv.failure_handler = handler
        return supv, handler, applications, processes, calls

    def context_slice(self, case, applications, processes):
        """ the abstract context handed to the model, READ from the real objects """
        out = []
        for p in case['procs']:
            application = applications.get(p['app'])
            process = processes[p['id']]
            seq = bool(application is not None and process in application.get_start_sequenced_processes())
            out.append((p['id'], p['app'], seq, process.rules.running_failure_strategy.name))
        return out, sorted(applications)

    def execute(self, case):
        from supvisors.ttypes import ApplicationStates, RunningFailureStrategies
        supv, handler, applications, processes, calls = self.build(case)
        app_id = {application: a for a, application in applications.items()}
        proc_id = {process: p for p, process in processes.items()}
        name_id = {app_name(a): a for a in list(applications) + [GHOST_APP]}
        ctx_slice = self.context_slice(case, applications, processes)
        obs = []
        ops_seen = []
        for o in case['ops']:
            del calls[:]
            kind = o[0]
            try:
                if kind == 'AddJob':
                    ops_seen.append(o)
                    handler.add_job(RunningFailureStrategies[o[1]], processes[o[2]])
                elif kind == 'AddDefault':
                    application = applications.get(o[1] // 10)
                    flag = False
                    if application is not None:
                        application._state = ApplicationStates.STOPPED if o[2] else ApplicationStates.RUNNING
                        flag = bool(application.stopped())
                    ops_seen.append(('AddDefault', o[1], flag))
                    handler.add_default_job(processes[o[1]])
                elif kind == 'Trigger':
                    supv.starter.names = {app_name(a) if a != UNKNOWN_BUSY else 'unknown' for a in o[1]}
                    supv.stopper.names = {app_name(a) if a != UNKNOWN_BUSY else 'unknown' for a in o[2]}
                    names = handler.get_application_job_names()
                    ops_seen.append(('Trigger', sorted(name_id.get(n, UNKNOWN_BUSY) for n in names)))
                    handler.trigger_jobs()
                elif kind == 'Abort':
                    ops_seen.append(o)
                    handler.abort()
                else:
                    raise RuntimeError(kind)
            except Exception as exc:  # an exception IS an observable
                obs.append(('crash', svenv.crash_kind(exc)))
                break
            issued = None
            if kind == 'Trigger':
                issued = self.canonical_calls(calls, app_id, proc_id)
            elif calls:
                issued = ([-1], [], [], False)   # nothing may be issued outside trigger_jobs
            obs.append(('ok', (sorted(app_id[x] for x in handler.stop_application_jobs),
                               sorted(app_id[x] for x in handler.restart_application_jobs),
                               sorted(proc_id[x] for x in handler.restart_process_jobs),
                               sorted(proc_id[x] for x in handler.continue_process_jobs), issued)))
        return {'ctx': ctx_slice, 'ops': ops_seen, 'obs': obs}

    @staticmethod
    def canonical_calls(calls, app_id, proc_id):
        """ (sorted stops, sorted application restarts, sorted process restarts, order_ok) """
        kinds = {'stop_application': 0, 'restart_application': 1, 'restart_process': 2}
        body = [c for c in calls if c[0] in kinds]
        tail = [c for c in calls if c[0] not in kinds]
        seq = [kinds[c[0]] for c in body]
        ok = (seq == sorted(seq) and tail == [('stopper.next',), ('starter.next',)]
              and calls[len(body):] == tail and all(c[2] is False for c in body))
        stops = sorted(app_id[c[1]] for c in body if c[0] == 'stop_application')
        rapps = sorted(app_id[c[1]] for c in body if c[0] == 'restart_application')
        rprocs = sorted(proc_id[c[1]] for c in body if c[0] == 'restart_process')
        return stops, rapps, rprocs, ok

    # ---------------- emission
    @staticmethod
    def emit_op(o):
        if o[0] == 'AddJob':
            return app('AddJob', C(RF[o[1]]), o[2])
        if o[0] == 'AddDefault':
            return app('AddDefault', o[1], bool(o[2]))
        if o[0] == 'Trigger':
            return app('Trigger', list(o[1]))
        if o[0] == 'Abort':
            return C('Abort')
        raise RuntimeError(o)

    def emit(self, case, observed):
        procs, apps = observed['ctx']
        ctx = app('mkCtx', [(pid, app('mkPinfo', a, seq, C(RF[strat]))) for pid, a, seq, strat in procs], list(apps))
        obs = []
        for tag, val in observed['obs']:
            if tag == 'crash':
                obs.append(app('OCrash', C(val)))
            else:
                s, r, p, c, issued = val
                t = C('None') if issued is None else some((list(issued[0]), list(issued[1]), list(issued[2]),
                                                           bool(issued[3])))
                obs.append(app('OOk', (list(s), list(r), list(p), list(c), t)))
        return coq((ctx, [self.emit_op(o) for o in observed['ops']], obs))

    def describe(self, case, observed):
        return {'case': case, 'observed': observed}

    def from_description(self, desc):
        case = desc['case']
        case['ops'] = [tuple(o) for o in case['ops']]
        return case

    def nontrivial(self, case, observed):
        # at least two different strategies hit one application between two triggers
        hit = {}
        strat = {p['id']: p['strategy'] for p in case['procs']}
        best = 0
        for o in observed['ops']:
            if o[0] == 'AddJob':
                hit.setdefault(o[2] // 10, set()).add(o[1])
            elif o[0] == 'AddDefault':
                hit.setdefault(o[1] // 10, set()).add(strat[o[1]] + ('+' if o[2] else ''))
            elif o[0] in ('Trigger', 'Abort'):
                best = max([best] + [len(v) for v in hit.values()])
                if o[0] == 'Abort':
                    hit = {}
                else:
                    hit = {a: v for a, v in hit.items() if a in o[1]}
        best = max([best] + [len(v) for v in hit.values()])
        if best >= 2:
            return repr(observed['obs'][-1]) + repr(len(observed['ops']))
        return None

    def shrink_candidates(self, case):
        ops = case['ops']
        out = [dict(case, ops=ops[:k] + ops[k + 1:]) for k in range(len(ops))] if len(ops) > 1 else []
        if len(case['procs']) > 1:
            used = {o[2] if o[0] == 'AddJob' else o[1] for o in ops if o[0] in ('AddJob', 'AddDefault')}
            for k, p in enumerate(case['procs']):
                if p['id'] not in used:
                    out.append(dict(case, procs=case['procs'][:k] + case['procs'][k + 1:]))
        return out

    def distribution(self, inputs, observeds):
        kinds, lens, crashes = {}, {}, {}
        issued = {'stop_application': 0, 'restart_application': 0, 'restart_process': 0, 'deferred_triggers': 0}
        promoted = 0
        for case, ob in zip(inputs, observeds):
            n = len(ob['ops'])
            b = f'{(n // 10) * 10}-{(n // 10) * 10 + 9}'
            lens[b] = lens.get(b, 0) + 1
            strat = {p['id']: (p['strategy'], s) for p, (_, _, s, _) in zip(case['procs'], ob['ctx'][0])}
            for o in ob['ops']:
                kinds[o[0]] = kinds.get(o[0], 0) + 1
                if o[0] == 'AddDefault' and o[2] and strat[o[1]] == ('RESTART_PROCESS', True):
                    promoted += 1
            for o, (tag, val) in zip(ob['ops'], ob['obs']):
                if tag == 'crash':
                    crashes[val] = crashes.get(val, 0) + 1
                elif val[4] is not None:
                    issued['stop_application'] += len(val[4][0])
                    issued['restart_application'] += len(val[4][1])
                    issued['restart_process'] += len(val[4][2])
                    if o[0] == 'Trigger' and o[1] and (val[0] or val[1] or val[2]):
                        issued['deferred_triggers'] += 1
        return {'op_kinds': kinds, 'sequence_lengths': lens, 'crashes': crashes, 'issued': issued,
                'promotions_RESTART_PROCESS_to_RESTART_APPLICATION': promoted}


# ======================================================================================================
# Commander.on_instances_invalidation : which lost processes are left for the failure handler
# ======================================================================================================
def ident(i):
    return f'10.0.0.{i}:25000'


class InvalidationSuite(Suite):
    name = 'invalidation'
    prelude = 'From Sup Require Import FailureHandler.\nOpen Scope Z_scope.'
    case_type = 'icase'
    evals = {'mismatches': 'imismatches', 'spec_violations': 'ispec_violations'}

    def __init__(self):
        self.supv = None

    def gen_case(self, rng):
        n_procs = rng.randint(1, 8)
        procs = []
        for p in range(1, n_procs + 1):
            procs.append({'id': p, 'required': rng.random() < 0.4,
                          'sfs': rng.choice(['ABORT', 'STOP', 'CONTINUE', 'CONTINUE'])})

        def jobs(n):
            out = []
            for _ in range(n):
                cur = [(rng.randint(1, n_procs), rng.randint(1, 4)) for _ in range(rng.randint(0, 3))]
                planned = {}
                for _ in range(rng.randint(0, 3)):
                    planned.setdefault(rng.randint(0, 2), []).append((rng.randint(1, n_procs), rng.choice([0, 0, 1, 2, 3])))
                out.append({'current': cur, 'planned': sorted(planned.items())})
            return out
        # [starter current applications, starter planned applications, stopper current, stopper planned]
        case = {'procs': procs,
                'starter': [jobs(rng.randint(0, 2)), jobs(rng.randint(0, 2))],
                'stopper': [jobs(rng.randint(0, 2)), jobs(rng.randint(0, 2))],
                'lost': sorted(rng.sample([1, 2, 3, 4], rng.randint(1, 3))),
                'failed': sorted(rng.sample(range(1, n_procs + 1), rng.randint(0, n_procs)))}
        return case

    def generate(self, rng, tier):
        n = 600 if tier == 'quick' else 12000
        return [self.gen_case(rng) for _ in range(n)]

    def execute(self, case):
        from supvisors.application import ApplicationStatus, ApplicationRules
        from supvisors.commander import (Starter, Stopper, ApplicationStartJobs, ApplicationStopJobs,
                                         ProcessCommand, ProcessStartCommand, ProcessStopCommand)
        from supvisors.process import ProcessStatus, ProcessRules
        from supvisors.ttypes import StartingFailureStrategies, StartingStrategies
        if self.supv is None:
            ensure_clock()
            self.supv = svenv.make_supvisors()
        supv = self.supv
        processes = {}
        erases = {}
        for p in case['procs']:
            rules = ProcessRules(supv)
            rules.required = p['required']
            rules.starting_failure_strategy = StartingFailureStrategies[p['sfs']]
            processes[p['id']] = ProcessStatus('app', proc_name(p['id']), rules, supv)
            erases[p['id']] = bool(p['required'] and p['sfs'] in ('ABORT', 'STOP'))
        proc_id = {v: k for k, v in processes.items()}

        def command(cls, p, i):
            cmd = object.__new__(cls)
            ProcessCommand.__init__(cmd, processes[p])
            cmd.identifier = ident(i) if i else None
            return cmd

        def build(commander, layout, job_cls, cmd_cls):
            objs = []
            k = 0
            for where, specs in zip(('current', 'planned'), layout):
                for spec in specs:
                    k += 1
                    application = ApplicationStatus(f'app{k}', ApplicationRules(supv), supv)
                    planned = {seq: [command(cmd_cls, p, i) for p, i in cmds] for seq, cmds in spec['planned']}
                    if job_cls is ApplicationStartJobs:
                        job = job_cls(application, planned, StartingStrategies.CONFIG, supv)
                    else:
                        job = job_cls(application, planned, supv)
                    job.current_jobs = [command(cmd_cls, p, i) for p, i in spec['current']]
                    if where == 'current':
                        commander.current_jobs[application.application_name] = job
                    else:
                        commander.planned_jobs.setdefault(k % 2, {})[application.application_name] = job
                    objs.append((job, spec))
            commander.next = lambda: None
            # the order in which Commander.on_instances_invalidation visits the application jobs
            order = list(commander.current_jobs.values())
            for m in commander.planned_jobs.values():
                order += list(m.values())
            spec_of = {id(j): s for j, s in objs}
            return order, [spec_of[id(j)] for j in order]

        starter, stopper = Starter(supv), Stopper(supv)
        s_jobs, s_specs = build(starter, case['starter'], ApplicationStartJobs, ProcessStartCommand)
        p_jobs, p_specs = build(stopper, case['stopper'], ApplicationStopJobs, ProcessStopCommand)
        lost = [ident(i) for i in case['lost']]
        failed = {processes[p] for p in case['failed']}
        try:
            # _WorkingState._common_next
            starter.on_instances_invalidation(lost, failed)
            stopper.on_instances_invalidation(lost, failed)
        except Exception as exc:
            return {'crash': svenv.crash_kind(exc)}

        def num(identifier):
            return int(identifier.split(':')[0].split('.')[-1]) if identifier else 0
        model_jobs = []
        for spec, is_start in [(s, True) for s in s_specs] + [(s, False) for s in p_specs]:
            model_jobs.append(([(p, i, erases[p] if is_start else False) for p, i in spec['current']],
                               [(p, i, False) for _, cmds in spec['planned'] for p, i in cmds]))
        jobs_obs = [([(proc_id[c.process], num(c.identifier)) for c in job.current_jobs],
                     [proc_id[c.process] for c in sum(job.planned_jobs.values(), [])])
                    for job in s_jobs + p_jobs]
        return {'jobs': model_jobs, 'failed': sorted(proc_id[x] for x in failed), 'jobs_obs': jobs_obs}

    def emit(self, case, observed):
        if 'crash' in observed:
            # no crash is modelled: make the case disagree
            return coq((list(case['lost']), C('nil'), list(case['failed']), ([-1], C('nil'))))
        jobs = [app('mkJob', [app('mkCmd', p, i, e) for p, i, e in cur], [app('mkCmd', p, i, e) for p, i, e in pl])
                for cur, pl in observed['jobs']]
        ojobs = [([(p, i) for p, i in cur], list(pl)) for cur, pl in observed['jobs_obs']]
        return coq((list(case['lost']), jobs, list(case['failed']), (list(observed['failed']), ojobs)))

    def describe(self, case, observed):
        return {'case': case, 'observed': observed}

    def from_description(self, desc):
        case = desc['case']
        for side in ('starter', 'stopper'):
            for specs in case[side]:
                for spec in specs:
                    spec['current'] = [tuple(x) for x in spec['current']]
                    spec['planned'] = [(seq, [tuple(x) for x in cmds]) for seq, cmds in spec['planned']]
        return case

    def nontrivial(self, case, observed):
        if 'crash' in observed:
            return None
        removed = set(case['failed']) - set(observed['failed'])
        if removed and observed['failed']:
            return repr((observed['failed'], observed['jobs_obs']))
        return None

    def distribution(self, inputs, observeds):
        removed = kept = erased = 0
        for case, ob in zip(inputs, observeds):
            if 'crash' in ob:
                continue
            removed += len(set(case['failed']) - set(ob['failed']))
            kept += len(ob['failed'])
            erased += sum(1 for (cur, pl), (_, opl) in zip(ob['jobs'], ob['jobs_obs']) if pl and not opl)
        return {'lost_processes_left_to_their_job': removed, 'lost_processes_handed_to_the_handler': kept,
                'plans_erased_by_process_failure': erased,
                'crashes': sum(1 for ob in observeds if 'crash' in ob)}


# ======================================================================================================
# who feeds the handler: exhaustive tabulation (T2) of the FSM decisions on the real classes
# ======================================================================================================
def process_info(group, name, state, now):
    names = {0: 'STOPPED', 20: 'RUNNING'}
    return {'group': group, 'name': name, 'state': state, 'statename': names[state], 'expected': True,
            'now': now + 1000000, 'now_monotonic': now, 'start': now + 999990, 'start_monotonic': now - 10,
            'stop': 0, 'stop_monotonic': 0, 'pid': 1234 if state == 20 else 0, 'description': '', 'spawnerr': '',
            'extra_args': '', 'disabled': False, 'startsecs': 1, 'stopwaitsecs': 2, 'program_name': name,
            'process_index': 0, 'has_stdout': True, 'has_stderr': False}


def loss_scenario(state_name, role, loss, verbose=False):
    """ Real FiniteStateMachine forced into a working state; instances 1 (local), 2, 3 RUNNING; process `solo` of the
    managed application `app` runs only on instance 3 (RESTART_PROCESS). role: 'master' (local is the Master),
    'slave' (instance 2 is), 'next' (instance 3 is: the Master is lost with the process and the local instance is
    elected next; peer 2's published views are scripted to follow). Instance 3 is declared FAILED (if `loss`) and the
    FSM is evaluated 8 times. Returns (calls to the failure handler / commanders, local instance is Master at the end). """
    from supvisors.statemachine import FiniteStateMachine
    from supvisors.ttypes import (SupvisorsStates, SupvisorsInstanceStates, ConciliationStrategies,
                                  RunningFailureStrategies)
    ensure_clock()
    supv = svenv.make_supvisors()
    supv.parser = None
    supv.options.conciliation_strategy = ConciliationStrategies.USER
    ctx = supv.context
    calls = []
    supv.failure_handler.add_default_job = lambda p: calls.append(('add_default_job', p.namespec))
    supv.failure_handler.trigger_jobs = lambda: None
    supv.starter.in_progress = lambda: state_name == 'DISTRIBUTION' and role != 'next'
    supv.stopper.in_progress = lambda: False
    supv.starter.on_instances_invalidation = lambda lost, procs: calls.append(
        ('on_instances_invalidation', list(lost), sorted(p.namespec for p in procs)))
    supv.stopper.on_instances_invalidation = lambda lost, procs: None
    supv.starter.start_applications = lambda *a, **k: calls.append(('start_applications',))
    svenv.CLOCK.now = 1000
    fsm = supv.fsm = FiniteStateMachine(supv)
    running, stopped = SupvisorsInstanceStates.RUNNING, SupvisorsInstanceStates.STOPPED
    for i in range(1, 7):
        ctx.instances[ident(i)]._state = running if i <= 3 else stopped
    sm = supv.state_modes
    master_id = ident({'master': 1, 'slave': 2, 'next': 3}[role])
    state = SupvisorsStates[state_name]
    sm.master_identifier = master_id
    for i in (1, 2, 3):
        ism = sm.instance_state_modes[ident(i)]
        ism.master_identifier = master_id
        ism.state = state
        ism.instance_states = {ident(j): (running if j <= 3 else stopped) for j in range(1, 7)}
    # a conflict on `dup` keeps a Master in CONCILIATION (USER strategy: nothing is stopped)
    layout = [(1, 'dup'), (3, 'solo')] + ([(2, 'dup')] if state_name == 'CONCILIATION' else [])
    for i, name in layout:
        ctx.load_processes(ctx.instances[ident(i)], [process_info('app', name, 20, 990)], check_state=False)
    ctx.applications['app'].rules.managed = True
    solo = ctx.applications['app'].processes['solo']
    solo.rules.running_failure_strategy = RunningFailureStrategies.RESTART_PROCESS
    sm.state = state
    fsm.instance = fsm._StateInstances[state](supv)
    if loss:
        ctx.on_instance_failure(ctx.instances[ident(3)])
    all_calls = []
    for k in range(8):
        svenv.CLOCK.now += 5
        ism2 = sm.instance_state_modes[ident(2)]   # peer 2 sees what we see and follows
        ism2.instance_states[ident(3)] = ctx.instances[ident(3)].state
        if role == 'next':
            ism2.master_identifier = sm.master_identifier
            ism2.state = fsm.state
        fsm.next()
        if verbose:
            print(f'  evaluation {k}: state={fsm.state.name} master={sm.master_identifier!r} is_master={sm.is_master()}'
                  f' instance 3 is {ctx.instances[ident(3)].state.name} app:solo state={solo.state} calls={calls}')
        all_calls += calls
        del calls[:]
    return all_calls, bool(sm.is_master())


class FeedSuite(Suite):
    """ loss path: 3 working states x {Master, slave, slave whose Master is the lost instance} x loss/no loss, on the
    real FiniteStateMachine.next() (8 evaluations) """
    name = 'feed_loss'
    prelude = 'From Sup Require Import FailureHandler.\nOpen Scope Z_scope.'
    case_type = 'wcase'
    evals = {'mismatches': 'wmismatches', 'spec_violations': 'wspec_violations',
             'known:F9-lost-with-master': 'wknown_f9'}
    exhaustive = True
    WS = {'DISTRIBUTION': 'WDistribution', 'OPERATION': 'WOperation', 'CONCILIATION': 'WConciliation'}
    ROLES = {'master': 'RMaster', 'slave': 'RSlave', 'next': 'RNextMaster'}

    def corpus(self):
        # the former F8 witness (fixed in /repo 4ab9225): the Master loses an instance while in CONCILIATION
        return [('CONCILIATION', 'master', True)]

    def generate(self, rng, tier):
        return [(s, r, l) for s in self.WS for r in self.ROLES for l in (True, False)]

    def execute(self, case):
        calls, is_master = loss_scenario(*case)
        handled = any(c[0] == 'add_default_job' for c in calls)
        if case[1] == 'next' and case[2] and not is_master:
            raise RuntimeError(f'scenario {case}: the local instance was not elected')
        return handled

    def emit(self, case, observed):
        return coq((C(self.WS[case[0]]), C(self.ROLES[case[1]]), case[2], bool(observed)))

    def describe(self, case, observed):
        return {'case': list(case), 'observed': observed}

    def from_description(self, desc):
        return tuple(desc['case'])

    def nontrivial(self, case, observed):
        return repr(case)

    def distribution(self, inputs, observeds):
        return {'handled': sum(1 for o in observeds if o), 'cases': len(inputs)}


class CrashFeedSuite(Suite):
    """ crash path: FiniteStateMachine.on_process_state_event, 6 strategies x Master x crashed x forced x
    {Master in OPERATION, Master in ELECTION}; on_restart / on_shutdown / set_state are the real ones """
    name = 'feed_crash'
    prelude = 'From Sup Require Import FailureHandler.\nOpen Scope Z_scope.'
    case_type = 'ccase'
    evals = {'mismatches': 'cmismatches', 'spec_violations': 'cspec_violations',
             'known:F10-election-restart-dropped': 'cknown_f10'}
    exhaustive = True

    def generate(self, rng, tier):
        return [(s, m, c, f, e) for s in RF_NAMES for m in (True, False) for c in (True, False)
                for f in (True, False) for e in (False, True)]

    def execute(self, case):
        from supvisors.statemachine import FiniteStateMachine
        from supvisors.process import ProcessStatus, ProcessRules
        from supvisors.ttypes import RunningFailureStrategies, SupvisorsStates
        from supervisor.states import ProcessStates
        strat, master, crashed, forced, election = case
        ensure_clock()
        supv = svenv.make_supvisors()
        calls = []
        supv.failure_handler.add_default_job = lambda p: calls.append('add_default_job')
        supv.failure_handler.trigger_jobs = lambda: calls.append('trigger_jobs')
        supv.starter.on_event = lambda *a: None
        supv.stopper.on_event = lambda *a: None
        fsm = FiniteStateMachine(supv)
        real_restart, real_shutdown = fsm.on_restart, fsm.on_shutdown

        def on_restart():
            calls.append('on_restart')
            real_restart()

        def on_shutdown():
            calls.append('on_shutdown')
            real_shutdown()
        fsm.on_restart, fsm.on_shutdown = on_restart, on_shutdown
        visited = []

        class Logging(dict):
            def __getitem__(self, key):
                visited.append(key)
                return dict.__getitem__(self, key)
        rules = ProcessRules(supv)
        rules.running_failure_strategy = RunningFailureStrategies[strat]
        process = ProcessStatus('app', 'proc', rules, supv)
        process._state = ProcessStates.FATAL if crashed else ProcessStates.STOPPED
        process.expected_exit = not crashed
        process.forced_state = ProcessStates.FATAL if forced else None
        supv.context.on_process_state_event = lambda status, event: process
        supv.state_modes.master_identifier = ident(1) if master else ident(2)
        start = SupvisorsStates.ELECTION if election else SupvisorsStates.OPERATION
        supv.state_modes.state = start
        fsm.instance = fsm._StateInstances[start](supv)
        fsm._StateInstances = Logging(FiniteStateMachine._StateInstances)
        status = supv.context.instances[ident(2)]
        fsm.on_process_state_event(status, {})
        ending = 1 if 'on_restart' in calls else 2 if 'on_shutdown' in calls else 0
        entered = (SupvisorsStates.RESTARTING in visited) if ending == 1 else \
                  (SupvisorsStates.SHUTTING_DOWN in visited) if ending == 2 else False
        return ('add_default_job' in calls and 'trigger_jobs' in calls, ending, bool(entered))

    def emit(self, case, observed):
        return coq((C(RF[case[0]]), case[1], case[2], case[3], case[4],
                    (bool(observed[0]), observed[1], bool(observed[2]))))

    def describe(self, case, observed):
        return {'case': list(case), 'observed': list(observed)}

    def from_description(self, desc):
        return tuple(desc['case'])

    def nontrivial(self, case, observed):
        return repr(case)

    def distribution(self, inputs, observeds):
        return {'handled': sum(1 for o in observeds if o[0]), 'endings_requested': sum(1 for o in observeds if o[1]),
                'endings_entered': sum(1 for o in observeds if o[2]), 'cases': len(inputs)}


def replay_f8():
    print('former F8 witness (fixed in /repo 4ab9225) on the real FiniteStateMachine')
    print('control: Master in OPERATION, instance 3 (hosting app:solo, RESTART_PROCESS) is lost')
    c1, _ = loss_scenario('OPERATION', 'master', True, verbose=True)
    print('test: Master in CONCILIATION (conflict on app:dup, USER strategy), same loss')
    c2, _ = loss_scenario('CONCILIATION', 'master', True, verbose=True)
    ok1 = any(c[0] == 'add_default_job' for c in c1)
    ok2 = any(c[0] == 'add_default_job' for c in c2)
    print(f'add_default_job called: OPERATION={ok1} CONCILIATION={ok2}')
    print('F8 still present' if ok1 and not ok2 else 'F8 not present: the loss is handled in CONCILIATION too')


def replay_f9():
    """ node-level replay (peer 2's published views are scripted): the Master (instance 3) is lost together with
    app:solo (RESTART_PROCESS) that ran only there; the local instance becomes the new Master """
    print('F9 replay: local=1 in OPERATION, Master=3 hosts app:solo (RESTART_PROCESS); instance 3 is lost')
    calls, is_master = loss_scenario('OPERATION', 'next', True, verbose=True)
    seen = any(c[0] == 'add_default_job' for c in calls)
    print(f'local instance is the Master at the end: {is_master}')
    print('F9 CONFIRMED (node level): the new Master never hands app:solo to the failure handler' if not seen
          else 'F9 NOT reproduced')


def replay_f10():
    """ a process with running failure strategy RESTART crashes while the Master is in ELECTION """
    from supvisors.statemachine import FiniteStateMachine
    from supvisors.process import ProcessStatus, ProcessRules
    from supvisors.ttypes import SupvisorsStates, RunningFailureStrategies
    from supervisor.states import ProcessStates
    ensure_clock()
    for start in ('OPERATION', 'ELECTION'):
        supv = svenv.make_supvisors()
        supv.starter.on_event = lambda *a: None
        supv.stopper.on_event = lambda *a: None
        crit = []

        class Log(svenv.NullLogger):
            def critical(self, message, *a, **k):
                crit.append(message)
        object.__setattr__(supv, 'logger', Log())
        fsm = FiniteStateMachine(supv)
        rules = ProcessRules(supv)
        rules.running_failure_strategy = RunningFailureStrategies.RESTART
        process = ProcessStatus('app', 'proc', rules, supv)
        process._state = ProcessStates.FATAL
        process.expected_exit = False
        supv.context.on_process_state_event = lambda status, event: process
        supv.state_modes.master_identifier = ident(1)
        supv.state_modes.state = SupvisorsStates[start]
        fsm.instance = fsm._StateInstances[SupvisorsStates[start]](supv)
        fsm.on_process_state_event(supv.context.instances[ident(2)], {})
        print(f'F10 replay: Master in {start}, RESTART-strategy process crashes -> state={fsm.state.name}; '
              f'critical logs: {crit}')


if __name__ == '__main__':
    import sys
    if sys.argv[1:] == ['f8']:
        replay_f8()
    elif sys.argv[1:] == ['f9']:
        replay_f9()
    elif sys.argv[1:] == ['f10']:
        replay_f10()
