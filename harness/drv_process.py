"""T3 driver for ProcStatus.v: runs histories on the real supvisors.process.ProcessStatus."""
import svenv
from common import C, app, coq
from propcheck import Suite

PSTATES = {0: 'STOPPED', 10: 'STARTING', 20: 'RUNNING', 30: 'BACKOFF', 40: 'STOPPING', 100: 'EXITED',
           200: 'FATAL', 1000: 'UNKNOWN'}
NAMES = list(PSTATES.values())
CODE = {v: k for k, v in PSTATES.items()}


def ident(i):
    return f'10.0.0.{i}:25000'


def full_payload(st, expected, now_mono, disabled):
    code = CODE[st]
    return {'group': 'grp', 'name': 'proc', 'state': code, 'statename': st, 'expected': expected,
            'now': now_mono + 1000000, 'now_monotonic': now_mono,
            'start': now_mono + 999990, 'start_monotonic': now_mono - 10,
            'stop': 0 if code in (10, 20, 30, 40) else now_mono + 999995,
            'stop_monotonic': 0 if code in (10, 20, 30, 40) else now_mono - 5,
            'pid': 1234 if code in (20, 40) else 0, 'description': '', 'spawnerr': '', 'extra_args': '',
            'disabled': disabled, 'startsecs': 1, 'stopwaitsecs': 2, 'program_name': 'proc', 'process_index': 0,
            'has_stdout': True, 'has_stderr': False}


def event_payload(i, st, expected, now_mono):
    return {'identifier': ident(i), 'nick_identifier': f'n{i}', 'group': 'grp', 'name': 'proc',
            'state': CODE[st], 'extra_args': '', 'now': now_mono + 1000000, 'now_monotonic': now_mono,
            'pid': 1234 if st in ('RUNNING', 'STOPPING') else 0, 'expected': expected, 'spawnerr': ''}


class ProcessSuite(Suite):
    name = 'procstatus'
    prelude = 'From Sup Require Import ProcStatus.\nOpen Scope Z_scope.'
    case_type = 'case'
    evals = {'mismatches': 'mismatches', 'spec_violations': 'spec_violations'}

    def __init__(self):
        self.supv = None

    # ---------------- generation
    def gen_history(self, rng, max_ops, hostile):
        n_inst = rng.randint(1, 5)
        n_ops = rng.randint(1, max_ops)
        now = 1000
        remote = {i: rng.randint(0, 50) for i in range(1, 6)}
        known = set()
        ops = []
        plausible = {'STOPPED': ['STARTING'], 'STARTING': ['RUNNING', 'BACKOFF', 'STOPPING'],
                     'RUNNING': ['STOPPING', 'EXITED'], 'BACKOFF': ['STARTING', 'FATAL'],
                     'STOPPING': ['STOPPED'], 'EXITED': ['STARTING'], 'FATAL': ['STARTING'], 'UNKNOWN': ['STARTING']}
        last = {}
        for _ in range(n_ops):
            if rng.random() < 0.8:
                now += rng.randint(0, 3)   # ties are possible
            i = rng.randint(1, n_inst)
            r = rng.random()
            remote[i] += rng.randint(0, 4)
            if i not in known and not (hostile and r < 0.15):
                st = rng.choice(NAMES)
                ops.append(('AddInfo', i, st, rng.random() < 0.7, remote[i], rng.random() < 0.15, now))
                known.add(i)
                last[i] = st
            elif r < 0.55:
                if rng.random() < 0.6 and i in last:
                    st = rng.choice(plausible[last[i]])
                else:
                    st = rng.choice(NAMES)
                ops.append(('UpdateInfo', i, st, rng.random() < 0.7, remote[i], now))
                last[i] = st
            elif r < 0.70:
                et = remote[i] + rng.choice([-3, -1, 0, 0, 1, 5])
                target = i if rng.random() < 0.85 else rng.randint(1, 6)
                ops.append(('Force', target, rng.choice(['FATAL', 'STOPPED', 'FATAL', 'RUNNING']), et, now))
            elif r < 0.82:
                ops.append(('Invalidate', i, now))
                if last.get(i) in ('STARTING', 'RUNNING', 'BACKOFF', 'STOPPING'):
                    last[i] = 'FATAL'
            elif r < 0.87:
                if hostile or last.get(i) not in ('STARTING', 'RUNNING', 'BACKOFF', 'STOPPING'):
                    ops.append(('Remove', i))
                    known.discard(i)
                    last.pop(i, None)
            elif r < 0.92:
                ops.append(('Disable', i, rng.random() < 0.5))
            elif r < 0.97:
                ops.append(('TickTimes', i, remote[i]))
            else:
                st = rng.choice(NAMES)
                ops.append(('AddInfo', i, st, rng.random() < 0.7, remote[i], rng.random() < 0.15, now))
                known.add(i)
                last[i] = st
        return ops

    def generate(self, rng, tier):
        n, max_ops = (3000, 40) if tier == 'quick' else (30000, 150)
        out = []
        for k in range(n):
            out.append(self.gen_history(rng, max_ops, hostile=(k % 5 == 4)))
        return out

    def corpus(self):
        import json, os
        path = os.path.join(os.path.dirname(__file__), 'corpus', 'procstatus.json')
        if os.path.exists(path):
            with open(path) as f:
                return [[tuple(o) for o in case] for case in json.load(f)]
        return []

    # ---------------- execution on the real class
    def execute(self, ops):
        from supvisors.process import ProcessStatus, ProcessRules
        if self.supv is None:
            svenv.install_clock()
            self.supv = svenv.make_supvisors()
        proc = ProcessStatus('grp', 'proc', ProcessRules(self.supv), self.supv)
        out = []
        for o in ops:
            try:
                kind = o[0]
                if kind == 'AddInfo':
                    _, i, st, exp, nm, dis, now = o
                    svenv.CLOCK.now = now
                    proc.add_info(ident(i), full_payload(st, exp, nm, dis))
                elif kind == 'UpdateInfo':
                    _, i, st, exp, nm, now = o
                    svenv.CLOCK.now = now
                    proc.update_info(ident(i), event_payload(i, st, exp, nm))
                elif kind == 'Force':
                    _, i, st, et, now = o
                    svenv.CLOCK.now = now
                    ev = event_payload(i, st, False, et)
                    ev['forced'] = True
                    ev['spawnerr'] = 'forced by harness'
                    proc.force_state(ev)
                elif kind == 'Invalidate':
                    _, i, now = o
                    svenv.CLOCK.now = now
                    proc.invalidate_identifier(ident(i))
                elif kind == 'Remove':
                    proc.remove_identifier(ident(o[1]))
                elif kind == 'Disable':
                    proc.update_disability(ident(o[1]), o[2])
                elif kind == 'TickTimes':
                    proc.update_times(ident(o[1]), o[2], o[2] + 1000000)
                else:
                    raise RuntimeError(kind)
            except Exception as exc:  # an exception IS an observable
                out.append(('crash', svenv.crash_kind(exc)))
                break
            out.append(('ok', self.observe(proc)))
        return out

    @staticmethod
    def observe(proc):
        def num(identifier):
            return int(identifier.split(':')[0].split('.')[-1])
        per = [(num(k), int(v['state']), bool(v['expected']), bool(v['has_crashed']), bool(v['disabled']),
                int(v['event_time'])) for k, v in proc.info_map.items()]
        return (sorted(num(x) for x in proc.running_identifiers), bool(proc.conflicting()), int(proc.state),
                int(proc.displayed_state), bool(proc.expected_exit), proc.forced_state is not None, per)

    # ---------------- emission
    @staticmethod
    def emit_op(o):
        kind = o[0]
        if kind == 'AddInfo':
            _, i, st, exp, nm, dis, now = o
            return app('AddInfo', i, C(st), exp, nm, dis, now)
        if kind == 'UpdateInfo':
            _, i, st, exp, nm, now = o
            return app('UpdateInfo', i, C(st), exp, nm, now)
        if kind == 'Force':
            _, i, st, et, now = o
            return app('Force', i, C(st), et, now)
        if kind == 'Invalidate':
            return app('Invalidate', o[1], o[2])
        if kind == 'Remove':
            return app('Remove', o[1])
        if kind == 'Disable':
            return app('Disable', o[1], o[2])
        if kind == 'TickTimes':
            return app('TickTimes', o[1], o[2])
        raise RuntimeError(kind)

    def emit(self, ops, observed):
        obs = []
        for tag, val in observed:
            if tag == 'ok':
                obs.append(app('OOk', tuple(val[:6]) + (list(val[6]),)))
            else:
                obs.append(app('OCrash', C(val)))
        return coq(([self.emit_op(o) for o in ops], obs))

    def describe(self, ops, observed):
        return {'ops': [list(o) for o in ops], 'observed': observed}

    def from_description(self, desc):
        return [tuple(o) for o in desc['ops']]

    def nontrivial(self, ops, observed):
        kinds = {o[0] for o in ops}
        conflict = any(t == 'ok' and v[1] for t, v in observed)
        forced = any(t == 'ok' and v[5] for t, v in observed)
        if conflict or forced or 'Invalidate' in kinds:
            last = observed[-1]
            return repr(last) + repr(len(ops))
        return None

    def shrink_candidates(self, ops):
        from propcheck import list_cuts
        return list_cuts(list(ops))

    def distribution(self, inputs, observeds):
        kinds = {}
        lens = {}
        crashes = {}
        for ops, obs in zip(inputs, observeds):
            b = f'{(len(ops) // 10) * 10}-{(len(ops) // 10) * 10 + 9}'
            lens[b] = lens.get(b, 0) + 1
            for o in ops:
                kinds[o[0]] = kinds.get(o[0], 0) + 1
            if obs and obs[-1][0] == 'crash':
                crashes[obs[-1][1]] = crashes.get(obs[-1][1], 0) + 1
        return {'op_kinds': kinds, 'history_lengths': lens, 'crashes': crashes,
                'conflict_cases': sum(1 for obs in observeds if any(t == 'ok' and v[1] for t, v in obs))}
