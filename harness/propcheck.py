"""Generic orchestration of one property check (see DESIGN.md §2.3 / §2.4).

A property module provides a `Prop` description:
  ID, GEN (names of gen_tables generators), TARGETS (coq .vo targets), PROPS_FILE, SUITES (list of Suite objects)
A Suite ties one component model to the real classes by differential execution (T3) or tabulation (T2).
"""
import json
import os
import random
import shutil
import sys
import time
import traceback

import common
from common import BuildError


class Suite:
    """ Base class of a correspondence suite. Subclasses define:
      name, prelude, case_type, evals (dict eval-name -> Coq function over `cases`)
      generate(rng, tier) -> list of inputs
      corpus() -> list of inputs (run first)
      execute(inp) -> observed
      emit(inp, observed) -> Coq term of type case_type
      describe(inp, observed) -> JSON-able
      nontrivial(inp, observed) -> hashable key or None
      shrink_candidates(inp) -> list of smaller inputs
      distribution(inputs, observeds) -> dict
    Conventions on eval names:
      'mismatches'      model vs implementation (correspondence)
      'spec_violations' Coq spec vs implementation, outside every known-finding class (failing inputs)
      'known:<key>'     spec vs implementation inside the class of known finding <key>
    """
    name = 'suite'
    prelude = ''
    case_type = 'case'
    evals = {'mismatches': 'mismatches', 'spec_violations': 'spec_violations'}
    shard_size = 400
    exhaustive = False

    def corpus(self):
        return []

    def shrink_candidates(self, inp):
        return []

    def nontrivial(self, inp, observed):
        return None

    def distribution(self, inputs, observeds):
        return {}

    def describe(self, inp, observed):
        return {'input': repr(inp), 'observed': repr(observed)}

    # --- helpers
    def evaluate(self, workdir, inputs, observeds=None):
        if observeds is None:
            observeds = [self.execute(i) for i in inputs]
        texts = [self.emit(i, o) for i, o in zip(inputs, observeds)]
        res = common.run_case_shards(workdir, self.prelude, self.case_type, texts, self.evals,
                                     shard_size=self.shard_size)
        return observeds, res

    shrink_budget_s = 150

    def shrink(self, workdir, inp, eval_name, max_rounds=12):
        """ shrinking driven by the Coq oracle `eval_name`: each round evaluates all candidates of the current
        input in one batch and keeps the smallest failing one (candidates should include big cuts first) """
        cur = inp
        saved = self.evals
        self.evals = {eval_name: saved[eval_name]}
        t_start = time.perf_counter()
        try:
            for rnd in range(max_rounds):
                if time.perf_counter() - t_start > self.shrink_budget_s:
                    break       # shrinking is a convenience: the verdict never waits for it
                cands = self.shrink_candidates(cur)
                if not cands:
                    break
                cands = sorted(cands, key=self.size_of)[:120]
                wd = os.path.join(workdir, f'shrink_{rnd}')
                try:
                    _, res = self.evaluate(wd, cands)
                except BuildError:
                    break
                hits = res.get(eval_name, [])
                shutil.rmtree(wd, ignore_errors=True)
                if not hits:
                    break
                cur = cands[hits[0]]
        finally:
            self.evals = saved
        return cur

    def size_of(self, inp):
        try:
            return len(inp)
        except TypeError:
            return 0


def list_cuts(ops):
    """ generic shrink candidates for a list of operations: prefixes (geometric), halves/quarters removed,
    single removals """
    n = len(ops)
    out = []
    k = 1
    while k < n:
        out.append(ops[:k])
        k *= 2
    for parts in (2, 4, 8):
        size = max(n // parts, 1)
        for start in range(0, n, size):
            cut = ops[:start] + ops[start + size:]
            if cut and len(cut) < n:
                out.append(cut)
    if n <= 40:
        out.extend(ops[:k] + ops[k + 1:] for k in range(n) if n > 1)
    else:
        out.extend(ops[:k] + ops[k + 1:] for k in range(max(n - 20, 0), n))
    seen, uniq = set(), []
    for c in out:
        key = repr(c)
        if key not in seen:
            seen.add(key)
            uniq.append(c)
    return uniq


def parse_make_failure(output):
    """ extract 'File "...", line N' + error head from a failed make output """
    import re
    m = re.search(r'File "([^"]+)", line (\d+), characters [^\n]*\n(?:Error:)?(.*?)(?:\n\n|\nmake|\Z)', output, re.S)
    if m:
        return {'file': m.group(1), 'line': int(m.group(2)), 'error': ' '.join(m.group(3).split())[:400]}
    return {'error': output[-600:]}


def enclosing_theorem(path, line):
    import re
    try:
        with open(path) as f:
            lines = f.readlines()
    except OSError:
        return None
    for k in range(min(line, len(lines)) - 1, -1, -1):
        m = re.match(r'\s*(?:Theorem|Lemma|Corollary|Example|Definition|Fixpoint)\s+([A-Za-z0-9_\']+)', lines[k])
        if m:
            return m.group(1)
    return None


def run_property(prop, argv):
    import argparse
    ap = argparse.ArgumentParser()
    ap.add_argument('--tier', default=os.environ.get('VERIF_TIER', 'quick'))
    ap.add_argument('--replay')
    args = ap.parse_args(argv)
    tier = args.tier if args.tier in ('quick', 'thorough') else 'quick'
    seed = int(os.environ.get('VERIF_SEED', '20260923'))
    if args.replay:
        return replay(prop, args.replay)
    lock = common.lock_build()
    t0 = time.perf_counter()   # wall time of the check itself, not of waiting for another check's lock
    workdir = os.path.join(common.BUILD, f'run-{prop.ID}-{os.getpid()}')
    shutil.rmtree(workdir, ignore_errors=True)
    os.makedirs(workdir)
    broken = []        # obligations that no longer check: dicts {kind, name, detail}
    obligations = []   # names
    discharged = 0
    assumptions_printed = []
    known_lines = []
    failing = []       # (suite, input, observed, description) spec violations outside known classes
    coverage = {}
    try:
        # 1. T1/T2 generation from the current working tree
        try:
            import gen_tables
            for g in prop.GEN:
                gen_tables.GENERATORS[g]()
            gen_ok = True
        except Exception as exc:  # fail-closed
            gen_ok = False
            broken.append({'kind': 'generation', 'name': 'T1/T2 tables',
                           'detail': ''.join(traceback.format_exception_only(type(exc), exc)).strip()})
        # 2. build: models first (so the correspondence can run even if a proof breaks), then proofs/props
        model_ok = False
        props_files = list(getattr(prop, 'PROPS_FILES', [prop.PROPS_FILE]))
        thms_by_file = {pf: common.theorems_of(os.path.join(common.COQ, pf)) for pf in props_files}
        thms = [t for pf in props_files for t in thms_by_file[pf]]
        obligations += [f'theorem {t}' for t in thms]
        if gen_ok:
            try:
                common.make(prop.MODEL_TARGETS)
                model_ok = True
            except BuildError as e:
                info = parse_make_failure(e.output)
                broken.append({'kind': 'model-build', 'name': info.get('file', '?'), 'detail': info})
            if model_ok:
                try:
                    out = common.make(prop.TARGETS)
                    # re-print assumptions even when make had nothing to do
                    vo = os.path.join(common.COQ, prop.PROPS_FILE + 'o')
                    assumptions_printed = []
                    for pf in props_files:
                        assumptions_printed += common.coqc_print_assumptions(pf, thms_by_file[pf])
                    discharged += len(thms)
                except BuildError as e:
                    info = parse_make_failure(e.output)
                    th = None
                    if 'file' in info:
                        fpath = info['file'] if os.path.isabs(info['file']) else os.path.join(common.COQ, info['file'])
                        th = enclosing_theorem(fpath, info['line'])
                    broken.append({'kind': 'proof', 'name': th or info.get('file', '?'), 'detail': info})
        # 2b. thorough: independent re-check of the compiled property file and everything it depends on
        coqchk_axioms = None
        if tier == 'thorough' and model_ok and not broken:
            obligations.append('coqchk -o: independent re-check of ' + ', '.join(props_files) + ' (.vo) and their dependencies')
            try:
                coqchk_axioms = '; '.join(common.coqchk(pf) for pf in props_files)
                discharged += 1
            except BuildError as e:
                broken.append({'kind': 'coqchk', 'name': prop.PROPS_FILE, 'detail': e.output[-800:]})
        # 3. hygiene
        bad = common.hygiene()
        obligations.append('hygiene: no Admitted/admit/Axiom/Parameter/Conjecture/guard switches in coq/')
        if bad:
            broken.append({'kind': 'hygiene', 'name': 'forbidden declaration', 'detail': bad[:10]})
        else:
            discharged += 1
        # 4. correspondence suites
        rng = random.Random(seed)
        evaluations = 0
        distinct = set()
        samples = []
        dist = {}
        traces = 0
        exhaustive = True
        known = [k for k in common.load_known_findings().get('findings', []) if k['property'] == prop.ID]
        if model_ok:
            for suite in prop.SUITES:
                srng = random.Random(rng.random())
                obligations.append(f'correspondence {suite.name}: model = implementation on every generated case')
                try:
                    inputs = list(suite.corpus()) + list(suite.generate(srng, tier))
                    wd = os.path.join(workdir, suite.name)
                    observeds, res = suite.evaluate(wd, inputs)
                except BuildError as e:
                    broken.append({'kind': 'correspondence-run', 'name': suite.name,
                                   'detail': parse_make_failure(e.output)})
                    exhaustive = False
                    continue
                except Exception as exc:
                    broken.append({'kind': 'driver', 'name': suite.name,
                                   'detail': traceback.format_exc()[-1500:]})
                    exhaustive = False
                    continue
                evaluations += len(inputs)
                traces += len(inputs)
                exhaustive = exhaustive and suite.exhaustive
                for i, o in zip(inputs, observeds):
                    k = suite.nontrivial(i, o)
                    if k is not None:
                        distinct.add((suite.name, k))
                for i, o in list(zip(inputs, observeds))[:2] + list(zip(inputs, observeds))[-1:]:
                    samples.append({'suite': suite.name, **suite.describe(i, o)})
                dist[suite.name] = suite.distribution(inputs, observeds)
                mism = res.get('mismatches', [])
                if mism:
                    idx = mism[0]
                    small = suite.shrink(wd, inputs[idx], 'mismatches')
                    broken.append({'kind': 'correspondence', 'name': suite.name,
                                   'detail': {'disagreeing_cases': len(mism),
                                              'first': suite.describe(small, suite.execute(small))}})
                else:
                    discharged += 1
                for idx in res.get('spec_violations', [])[:3]:
                    small = suite.shrink(wd, inputs[idx], 'spec_violations')
                    desc = suite.describe(small, suite.execute(small))
                    if isinstance(desc, dict) and small is not inputs[idx]:
                        desc['unshrunk'] = suite.describe(inputs[idx], observeds[idx])   # the generated case
                    failing.append((suite, small, desc))
                for kf in known:
                    if kf.get('suite') != suite.name:
                        continue
                    hits = res.get('known:' + kf['key'], [])
                    if hits:
                        known_lines.append(f"KNOWN-FINDING: property={prop.ID} {kf['what']}")
                shutil.rmtree(wd, ignore_errors=True)
        else:
            exhaustive = False
        # 5. verdict
        wall = time.perf_counter() - t0
        violations = 0
        lines = []
        for suite, small, desc in failing:
            path = common.write_replay(prop.ID, {'property': prop.ID, 'kind': 'failing-input', 'suite': suite.name,
                                                 'case': desc, 'how': f'bin/check {prop.ID} --replay <this file>'})
            lines.append(f'VIOLATION property={prop.ID} replay={path}')
            violations += 1
        if broken and not failing:
            path = common.write_replay(prop.ID, {'property': prop.ID, 'kind': 'obligation-broken',
                                                 'broken': broken})
            lines.append(f'VIOLATION property={prop.ID} replay={path} no-failing-input-found')
            violations += 1
        elif broken:
            common.write_replay(prop.ID, {'property': prop.ID, 'kind': 'obligation-broken', 'broken': broken})
        axioms = sorted({a for blk in assumptions_printed for a in blk})
        coverage = {
            'obligations': len(obligations), 'discharged': discharged,
            'checker_cmd': f'make -C coq {" ".join(prop.TARGETS)} (coqc 8.16.1, full .vo) + coqc cases_k.v (vm_compute)',
            'trusted_base': common.TRUSTED_BASE_COMMON + list(getattr(prop, 'TRUSTED', []))
                            + [f'axioms reported by Print Assumptions: {axioms or "none (closed under the global context)"}'],
            'obligation_names': obligations,
            'broken': broken,
            'evaluations': evaluations, 'distinct_nontrivial': len(distinct),
            'rule': getattr(prop, 'RULE', ''),
            'samples': samples[:6], 'traces_validated_against_impl': traces,
            'input_distribution': dist, 'exhaustive': bool(exhaustive and prop.SUITES),
            'known_findings_reported': known_lines,
            'coqchk_axioms': coqchk_axioms,
        }
        common.write_evidence(prop.ID, tier, seed, coverage, wall, violations,
                              list(getattr(prop, 'ASSUMPTIONS', [])))
        for l in known_lines:
            print(l)
        for l in lines:
            print(l)
        if not lines:
            print(f'OK property={prop.ID} tier={tier} obligations={len(obligations)} discharged={discharged} '
                  f'cases={evaluations} wall={wall:.1f}s')
        return 1 if lines else 0
    finally:
        shutil.rmtree(workdir, ignore_errors=True)
        lock.close()


def replay(prop, path):
    with open(path) as f:
        payload = json.load(f)
    print(json.dumps(payload, indent=1))
    if payload.get('kind') != 'failing-input':
        print('replay: this file names the obligation that no longer checks; re-run the check to rebuild it')
        return 1
    for suite in prop.SUITES:
        if suite.name == payload.get('suite') and hasattr(suite, 'from_description'):
            inp = suite.from_description(payload['case'])
            lock = common.lock_build()
            wd = os.path.join(common.BUILD, f'replay-{prop.ID}-{os.getpid()}')
            try:
                observeds, res = suite.evaluate(wd, [inp])
                print('implementation observed:', json.dumps(suite.describe(inp, observeds[0]), default=str))
                print('model/spec verdicts:', res)
                return 1 if any(res.values()) else 0
            finally:
                shutil.rmtree(wd, ignore_errors=True)
                lock.close()
    return 1
