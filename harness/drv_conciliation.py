"""T3/T2 drivers for Conciliation.v (C05).

ConciliationSuite : the REAL Context.conflicting/conflicts and conciliate_conflicts with each of the six strategies on
                    real ProcessStatus objects put in conflict by real add_info / update_info calls. The Stopper is the
                    REAL class (stop_process / restart_process plan real ProcessStopCommand objects) with `next`
                    disabled and its entry points recorded; starter and failure handler are recording fakes.
DecisionSuite     : exhaustive table of OperationState._master_next / ConciliationState._master_next on the real classes.
`python harness/drv_conciliation.py stopping` replays the STOPPING-copy finding on the real classes.
"""
import types

import svenv
from common import C, app, coq, some
from propcheck import Suite

CS = {'SENICIDE': 'Senicide', 'INFANTICIDE': 'Infanticide', 'USER': 'User', 'STOP': 'Stop', 'RESTART': 'Restart',
      'RUNNING_FAILURE': 'RunningFailure'}
CS_NAMES = list(CS)
CODE = {'STOPPED': 0, 'STARTING': 10, 'RUNNING': 20, 'BACKOFF': 30, 'STOPPING': 40, 'EXITED': 100, 'FATAL': 200,
        'UNKNOWN': 1000}
NOW = 5000
_CLOCK = []


def ensure_clock():
    if not _CLOCK:
        svenv.install_clock()
        _CLOCK.append(True)


def ident(i):
    return f'10.0.0.{i}:25000'


def num(identifier):
    return int(identifier.split(':')[0].split('.')[-1])


def full_payload(group, name, st, uptime):
    code = CODE[st]
    alive = code in (10, 20, 30, 40)
    return {'group': group, 'name': name, 'state': code, 'statename': st, 'expected': True,
            'now': NOW + 1000000, 'now_monotonic': NOW, 'start': NOW - uptime + 1000000,
            'start_monotonic': NOW - uptime, 'stop': 0 if alive else NOW + 999995,
            'stop_monotonic': 0 if alive else NOW - 5, 'pid': 1234 if code in (20, 40) else 0, 'description': '',
            'spawnerr': '', 'extra_args': '', 'disabled': False, 'startsecs': 1, 'stopwaitsecs': 2,
            'program_name': name, 'process_index': 0, 'has_stdout': True, 'has_stderr': False}


def event_payload(i, group, name, st, now_mono):
    return {'identifier': ident(i), 'nick_identifier': f'n{i}', 'group': group, 'name': name, 'state': CODE[st],
            'extra_args': '', 'now': now_mono + 1000000, 'now_monotonic': now_mono,
            'pid': 1234 if st in ('RUNNING', 'STOPPING') else 0, 'expected': True, 'spawnerr': ''}


def build_context(supv, apps):
    """ real ApplicationStatus / ProcessStatus objects for the case; returns {pid: process} """
    from supvisors.application import ApplicationStatus, ApplicationRules
    from supvisors.process import ProcessStatus, ProcessRules
    ctx = supv.context
    ctx.applications.clear()
    processes = {}
    svenv.CLOCK.now = NOW
    for a in apps:
        rules = ApplicationRules(supv)
        rules.managed = a['managed']
        application = ApplicationStatus(f"app{a['id']}", rules, supv)
        ctx.applications[application.application_name] = application
        for p in a['procs']:
            name = f"proc{p['id']}"
            process = ProcessStatus(application.application_name, name, ProcessRules(supv), supv)
            for i, st, uptime, then_stopping in p['copies']:
                process.add_info(ident(i), full_payload(application.application_name, name, st, uptime))
                if then_stopping:
                    process.update_info(ident(i), event_payload(i, application.application_name, name, 'STOPPING', NOW))
            application.add_process(process)
            processes[p['id']] = process
        application.update_sequences()
    return processes


def make_collaborators(supv, calls):
    """ real Stopper with `next` disabled and entry points recorded; fake starter / failure handler """
    from supvisors.commander import Stopper

    class RecordingStopper(Stopper):
        depth = 0

        def next(self):
            calls.append(('stopper.next',))

        def stop_process(self, process, identifiers=None, trigger=True):
            if self.depth == 0:
                calls.append(('stop_process', process,
                              None if identifiers is None else sorted(num(x) for x in identifiers), trigger))
            self.depth += 1
            try:
                super().stop_process(process, identifiers, trigger)
            finally:
                self.depth -= 1

        def default_restart_process(self, process, trigger=True):
            calls.append(('restart_process', process, trigger))
            self.depth += 1
            try:
                super().default_restart_process(process, trigger)
            finally:
                self.depth -= 1

    direct = []
    supv.stopper = RecordingStopper(supv)
    supv.starter = types.SimpleNamespace(
        start_process=lambda strategy, process, extra_args='', trigger=True: direct.append((process, trigger)),
        next=lambda: calls.append(('starter.next',)))
    supv.failure_handler = types.SimpleNamespace(
        add_default_job=lambda process: calls.append(('add_default_job', process)),
        trigger_jobs=lambda: calls.append(('trigger_jobs',)))
    return direct


def planned_stops(stopper, proc_id):
    out = []
    for seq_map in stopper.planned_jobs.values():
        for job in seq_map.values():
            for cmds in job.planned_jobs.values():
                out += [(proc_id[c.process], num(c.identifier)) for c in cmds]
            out += [(proc_id[c.process], num(c.identifier)) for c in job.current_jobs]
    for job in stopper.current_jobs.values():
        for cmds in job.planned_jobs.values():
            out += [(proc_id[c.process], num(c.identifier)) for c in cmds]
        out += [(proc_id[c.process], num(c.identifier)) for c in job.current_jobs]
    return sorted(out)


class ConciliationSuite(Suite):
    name = 'conciliation'
    prelude = 'From Sup Require Import Conciliation.\nOpen Scope Z_scope.'
    case_type = 'case'
    evals = {'mismatches': 'mismatches', 'spec_violations': 'spec_violations',
             'known:stopping-copy': 'known_stopping'}

    def __init__(self):
        self.supv = None

    # ---------------- generation
    def gen_proc(self, rng, pid, kind, allow_stopping):
        """ kind: 'conflict' (2-4 running copies), 'single', 'none' """
        insts = list(range(1, 7))
        rng.shuffle(insts)
        n_run = {'conflict': rng.randint(2, 4), 'single': 1, 'none': 0}[kind]
        copies = []
        tie_pool = [rng.randint(0, 60) for _ in range(2)]
        for i in insts[:n_run]:
            st = rng.choices(['RUNNING', 'STARTING', 'BACKOFF'], [8, 1, 1])[0]
            uptime = rng.choice(tie_pool) if rng.random() < 0.5 else rng.randint(0, 300)
            stopping = allow_stopping and st == 'RUNNING' and rng.random() < 0.35
            copies.append((i, st, uptime, stopping))
        for i in insts[n_run:n_run + rng.randint(0, 2)]:
            copies.append((i, rng.choice(['STOPPED', 'EXITED', 'FATAL', 'STOPPED']), rng.randint(0, 300), False))
        rng.shuffle(copies)
        return {'id': pid, 'copies': copies}

    def gen_case(self, rng, k):
        hostile = k % 8 == 7
        allow_stopping = k % 10 == 9
        n_apps = rng.randint(1, 3)
        n_conf = rng.randint(1, 4)
        apps = []
        slots = []
        for a in range(1, n_apps + 1):
            apps.append({'id': a, 'managed': rng.random() < 0.85, 'procs': []})
        pid_next = {a['id']: 0 for a in apps}

        def add(kind):
            a = rng.choice(apps)
            pid = 10 * a['id'] + pid_next[a['id']]
            pid_next[a['id']] += 1
            a['procs'].append(self.gen_proc(rng, pid, kind, allow_stopping))
            return pid
        for _ in range(n_conf):
            add('conflict')
        for _ in range(rng.randint(0, 3)):
            add(rng.choice(['single', 'single', 'none']))
        for a in apps:
            rng.shuffle(a['procs'])
        case = {'apps': apps, 'strategy': CS_NAMES[k % 6] if k % 12 < 6 else rng.choice(CS_NAMES), 'passed': None}
        if hostile:
            # hand an arbitrary list of processes to conciliate_conflicts (not what ConciliationState does)
            pids = [p['id'] for a in apps for p in a['procs']]
            case['passed'] = rng.sample(pids, rng.randint(1, len(pids)))
        return case

    def generate(self, rng, tier):
        n = 1800 if tier == 'quick' else 40000
        return [self.gen_case(rng, k) for k in range(n)]

    # ---------------- execution on the real classes
    def execute(self, case):
        from supvisors.strategy import conciliate_conflicts
        from supvisors.ttypes import ConciliationStrategies
        ensure_clock()
        if self.supv is None:
            self.supv = svenv.make_supvisors()
        supv = self.supv
        processes = build_context(supv, case['apps'])
        proc_id = {v: k for k, v in processes.items()}
        calls = []
        direct = make_collaborators(supv, calls)
        ctx = supv.context
        # the context slice, READ from the real objects
        views = []
        for a in case['apps']:
            application = ctx.applications[f"app{a['id']}"]
            pvs = []
            for process in application.processes.values():
                pvs.append((proc_id[process], [num(x) for x in process.running_identifiers],
                            [(num(k), int(v['state']), int(v['uptime'])) for k, v in process.info_map.items()],
                            bool(process.running())))
            views.append((bool(application.rules.managed), pvs))
        confl_flag = bool(ctx.conflicting())
        conflicts = ctx.conflicts()
        confl_ids = [proc_id[p] for p in conflicts]
        passed = conflicts if case['passed'] is None else [processes[p] for p in case['passed']]
        crash = None
        try:
            conciliate_conflicts(supv, ConciliationStrategies[case['strategy']], passed)
        except Exception as exc:
            crash = svenv.crash_kind(exc)
        ocalls = []
        for c in calls:
            if c[0] == 'stop_process':
                ocalls.append(('CStop', proc_id[c[1]], c[2], c[3]))
            elif c[0] == 'restart_process':
                ocalls.append(('CRestart', proc_id[c[1]], c[2]))
            elif c[0] == 'stopper.next':
                ocalls.append(('CStopperNext',))
            elif c[0] == 'add_default_job':
                ocalls.append(('CAddDefault', proc_id[c[1]]))
            elif c[0] == 'trigger_jobs':
                ocalls.append(('CTriggerJobs',))
            else:
                ocalls.append(('Other', c[0]))
        deferred = sorted(proc_id[p] for lst in supv.stopper.process_start_requests.values() for _, p, _ in lst)
        return {'views': views, 'conflicting': confl_flag, 'conflicts': confl_ids,
                'passed': [proc_id[p] for p in passed], 'regular': case['passed'] is None,
                'calls': ocalls, 'stops': planned_stops(supv.stopper, proc_id), 'deferred': deferred,
                'direct': [proc_id[p] for p, _ in direct],
                'deferred_triggers_ok': all(c[-1] is False for c in ocalls if c[0] in ('CStop', 'CRestart'))
                                        and all(t is False for _, t in direct),
                'crash': crash}

    # ---------------- emission
    @staticmethod
    def emit_call(c):
        if c[0] == 'CStop':
            return app('CStop', c[1], C('None') if c[2] is None else some(list(c[2])))
        if c[0] == 'CRestart':
            return app('CRestart', c[1])
        if c[0] == 'CAddDefault':
            return app('CAddDefault', c[1])
        if c[0] in ('CStopperNext', 'CTriggerJobs'):
            return C(c[0])
        return app('CRestart', -1)   # an unexpected call: make the case disagree

    def emit(self, case, ob):
        ctx = [app('mkAv', managed, [app('mkPv', pid, list(run), [(i, (st, up)) for i, st, up in info], isrun)
                                     for pid, run, info, isrun in pvs]) for managed, pvs in ob['views']]
        calls = [self.emit_call(c) for c in ob['calls']]
        if not ob['deferred_triggers_ok']:
            calls.append(app('CRestart', -2))   # a strategy must defer the trigger to the final next()
        crash = C('None') if ob['crash'] is None else some(C(ob['crash']))
        obs = (ob['conflicting'], list(ob['conflicts']), calls, [(p, i) for p, i in ob['stops']],
               list(ob['deferred']), list(ob['direct']), crash)
        return coq((ctx, C(CS[case['strategy']]), list(ob['passed']), bool(ob['regular']), obs))

    def describe(self, case, observed):
        return {'case': case, 'observed': observed}

    def from_description(self, desc):
        case = desc['case']
        for a in case['apps']:
            for p in a['procs']:
                p['copies'] = [tuple(c) for c in p['copies']]
        return case

    def nontrivial(self, case, ob):
        # a real conflict handled by the strategy
        if ob['regular'] and ob['conflicts']:
            return repr((case['strategy'], ob['stops'], ob['deferred'], ob['direct'], len(ob['conflicts'])))
        return None

    def shrink_candidates(self, case):
        out = []
        for ai, a in enumerate(case['apps']):
            for pi in range(len(a['procs'])):
                apps = [dict(x, procs=list(x['procs'])) for x in case['apps']]
                removed = apps[ai]['procs'].pop(pi)
                passed = case['passed']
                if passed is not None:
                    passed = [p for p in passed if p != removed['id']]
                    if not passed:
                        continue
                out.append(dict(case, apps=apps, passed=passed))
            for pi, p in enumerate(a['procs']):
                for ci in range(len(p['copies'])):
                    apps = [dict(x, procs=[dict(q, copies=list(q['copies'])) for q in x['procs']]) for x in case['apps']]
                    apps[ai]['procs'][pi]['copies'].pop(ci)
                    out.append(dict(case, apps=apps))
        return out

    def distribution(self, inputs, observeds):
        strat, nconf, ties, crashes = {}, {}, 0, {}
        stopping = hostile = unmanaged_conf = 0
        for case, ob in zip(inputs, observeds):
            strat[case['strategy']] = strat.get(case['strategy'], 0) + 1
            n = len(ob['conflicts'])
            nconf[n] = nconf.get(n, 0) + 1
            if ob['crash']:
                crashes[ob['crash']] = crashes.get(ob['crash'], 0) + 1
            if not ob['regular']:
                hostile += 1
            for managed, pvs in ob['views']:
                for pid, run, info, _ in pvs:
                    ups = [u for i, _, u in info if i in run]
                    if len(run) > 1 and (ups.count(min(ups)) > 1 or ups.count(max(ups)) > 1):
                        ties += 1
                    if len(run) > 1 and not managed:
                        unmanaged_conf += 1
                    if any(st == 40 for i, st, _ in info if i in run):
                        stopping += 1
        return {'strategies': strat, 'simultaneous_conflicts': {str(k): v for k, v in sorted(nconf.items())},
                'conflicts_with_extremal_uptime_ties': ties, 'conflicts_in_unmanaged_applications': unmanaged_conf,
                'processes_with_a_listed_STOPPING_copy': stopping, 'hostile_cases': hostile, 'crashes': crashes}


class DecisionSuite(Suite):
    """ OperationState._master_next / ConciliationState._master_next : 2 x 2^3 points on the real classes """
    name = 'conciliation_decision'
    prelude = 'From Sup Require Import Conciliation.\nOpen Scope Z_scope.'
    case_type = 'dcase'
    evals = {'mismatches': 'dmismatches', 'spec_violations': 'dspec_violations'}
    exhaustive = True

    def generate(self, rng, tier):
        return [(st, sb, pb, cf) for st in ('OPERATION', 'CONCILIATION') for sb in (False, True)
                for pb in (False, True) for cf in (False, True)]

    def execute(self, case):
        import supvisors.statemachine as smod
        from supvisors.ttypes import SupvisorsStates
        st, sb, pb, cf = case
        ensure_clock()
        supv = svenv.make_supvisors()
        supv.starter.in_progress = lambda: sb
        supv.stopper.in_progress = lambda: pb
        supv.context.conflicting = lambda: cf
        supv.context.conflicts = lambda: ['the conflicts']
        called = []
        saved = smod.conciliate_conflicts
        smod.conciliate_conflicts = lambda supvisors, strategy, conflicts: called.append(conflicts)
        try:
            cls = smod.OperationState if st == 'OPERATION' else smod.ConciliationState
            nxt = cls(supv)._master_next()
        finally:
            smod.conciliate_conflicts = saved
        assert nxt in (SupvisorsStates.OPERATION, SupvisorsStates.CONCILIATION), nxt
        return (nxt == SupvisorsStates.CONCILIATION, called == [['the conflicts']])

    def emit(self, case, observed):
        st, sb, pb, cf = case
        return coq((C('COperation' if st == 'OPERATION' else 'CConciliation'), sb, pb, cf,
                    (bool(observed[0]), bool(observed[1]))))

    def describe(self, case, observed):
        return {'case': list(case), 'observed': list(observed)}

    def from_description(self, desc):
        return tuple(desc['case'])

    def nontrivial(self, case, observed):
        return repr(case)

    def distribution(self, inputs, observeds):
        return {'to_conciliation': sum(1 for o in observeds if o[0]), 'reconciliations': sum(1 for o in observeds if o[1]),
                'cases': len(inputs)}


def replay_stopping():
    """ a copy being stopped outside Supvisors while a conflict waits for conciliation """
    from supvisors.strategy import conciliate_conflicts
    from supvisors.ttypes import ConciliationStrategies
    ensure_clock()
    supv = svenv.make_supvisors()
    # proc RUNNING on instance 1 for 100 s and on instance 2 for 10 s; the copy on 2 is being stopped by hand
    apps = [{'id': 1, 'managed': True,
             'procs': [{'id': 10, 'copies': [(1, 'RUNNING', 100, False), (2, 'RUNNING', 10, True)]}]}]
    for strategy in ('SENICIDE', 'STOP'):
        processes = build_context(supv, apps)
        process = processes[10]
        calls = []
        make_collaborators(supv, calls)
        print(f'{strategy}: running_identifiers={sorted(process.running_identifiers)} states='
              f"{ {num(k): v['statename'] if 'statename' in v else v['state'] for k, v in process.info_map.items()} }"
              f' states(codes)={ {num(k): int(v["state"]) for k, v in process.info_map.items()} }'
              f' uptimes={ {num(k): v["uptime"] for k, v in process.info_map.items()} }')
        print(f'  Context.conflicting() = {supv.context.conflicting()} (only ONE copy is STARTING/BACKOFF/RUNNING)')
        conciliate_conflicts(supv, ConciliationStrategies[strategy], supv.context.conflicts())
        print(f'  stop commands planned by the real Stopper: {planned_stops(supv.stopper, {process: 10})}')
    print('SENICIDE keeps the copy that is already STOPPING (lower uptime) and stops the only RUNNING one.')


if __name__ == '__main__':
    import sys
    if sys.argv[1:] == ['stopping']:
        replay_stopping()
