"""T3 driver for Sequencer.v: the real Starter + Stopper of supvisors/commander.py on real Context /
ApplicationStatus / ProcessStatus objects, in closed loop with a scripted "Supervisor world".

Set-up (documented deviations from a live system; everything else is the real code):
  * svenv.make_supvisors(): real options / mapper / Context / StateModes; `supv.starter`, `supv.stopper` are the real
    classes (Stopper sub-classed only to RECORD the iteration order of the Python set running_identifiers when it
    holds >= 2 identifiers; the recorded order is an oracle input of the model); `supv.fsm` is the real
    FiniteStateMachine (OFF state; state_modes has no Master, so the running-failure branch of
    on_process_state_event is not taken; `failure_handler` stays a Mock);
  * `supv.listener` is a small object whose `force_process_state` is the REAL SupervisorListener method, bound to it
    (it calls the real fsm.on_process_state_event then rpc_handler.send_process_state_event); it is wrapped to
    record the entry of the call;
  * `supv.rpc_handler` is a recording fake (send_start_process / send_stop_process / send_process_state_event);
  * `supvisors.commander.get_supvisors_instance` is wrapped: the REAL strategy code chooses, the result is
    recorded (oracle input of the model: placement is C04/C14's concern);
  * instances are brought to RUNNING by data (`status._state`), their tick counter through the real
    `status.update_tick`; rules are set by data on the real ProcessRules / ApplicationRules (no rules file:
    `supv.parser = None`), then `application.update_sequences()`;
  * `status.stats_collector = None` on every instance (the collector process is not started: its pipe would fill);
  * loss of instances: `status._state = FAILED` then the real `context.invalidate_failed()`; the commander part
    (`on_instances_invalidation` of both, as `_common_next` does) is a separate operation so that a periodic
    check can run in between, as in FiniteStateMachine.on_timer_event -> next.
"""
import json
import os
import random

import svenv
from common import C, app, coq, some
from propcheck import Suite

N_INST = 6
PSTATES = {0: 'STOPPED', 10: 'STARTING', 20: 'RUNNING', 30: 'BACKOFF', 40: 'STOPPING', 100: 'EXITED',
           200: 'FATAL', 1000: 'UNKNOWN'}
CODE = {v: k for k, v in PSTATES.items()}
SECS = [0, 1, 5, 6, 60]


def ident(i):
    return f'10.0.0.{i}:25000'


def num(identifier):
    return int(identifier.split(':')[0].split('.')[-1])


def aname(a):
    return f'A{a}'


def pname(p):
    return f'p{p}'


def anum(name):
    return int(name[1:])


def load_payload(a, p, now, startsecs, stopwaitsecs):
    return {'group': aname(a), 'name': pname(p), 'state': 0, 'statename': 'STOPPED', 'expected': True,
            'now': now + 1000000, 'now_monotonic': now, 'start': 0, 'start_monotonic': 0,
            'stop': 0, 'stop_monotonic': 0, 'pid': 0, 'description': '', 'spawnerr': '', 'extra_args': '',
            'disabled': False, 'startsecs': startsecs, 'stopwaitsecs': stopwaitsecs,
            'program_name': pname(p), 'process_index': 0, 'has_stdout': True, 'has_stderr': False}


def event_payload(i, a, p, st, expected, now_mono):
    return {'identifier': ident(i), 'nick_identifier': f'n{i}', 'group': aname(a), 'name': pname(p),
            'state': CODE[st], 'extra_args': '', 'now': now_mono + 1000000, 'now_monotonic': now_mono,
            'pid': 1234 if st in ('RUNNING', 'STOPPING') else 0, 'expected': expected, 'spawnerr': ''}


class Recorder:
    """ fake rpc_handler + oracle log """

    def __init__(self):
        self.outs = []
        self.oracle = []

    def send_start_process(self, identifier, namespec, extra_args):
        a, p = namespec.split(':')
        self.outs.append(('start', num(identifier), anum(a), anum(p)))

    def send_stop_process(self, identifier, namespec):
        a, p = namespec.split(':')
        self.outs.append(('stop', num(identifier), anum(a), anum(p)))

    def send_process_state_event(self, payload):
        self.outs.append(('pub', anum(payload['group']), anum(payload['name']), PSTATES[int(payload['state'])],
                          self.accepted_stack[-1] if self.accepted_stack else False))

    def __getattr__(self, name):
        def other(*args, **kwargs):
            return None
        return other


REASONS = {'No resource available': -1}
for _code, _nm in PSTATES.items():
    REASONS[f'process {_nm} event not received in time'] = _code


class World:
    def __init__(self):
        from supvisors import commander
        from supvisors.commander import Starter, Stopper
        from supvisors.statemachine import FiniteStateMachine
        from supvisors.listener import SupervisorListener
        svenv.install_clock()
        self.supv = supv = svenv.make_supvisors()
        self.rec = rec = Recorder()
        supv.rpc_handler = rec
        supv.parser = None
        supv.external_publisher = None
        for status in supv.context.instances.values():
            status.stats_collector = None      # nobody reads the statistics pipe in the harness
        self.commander = commander
        self.real_place = commander.get_supvisors_instance
        world = self

        def recording_place(*args, **kwargs):
            res = world.real_place(*args, **kwargs)
            rec.oracle.append(('place', num(res) if res else None))
            return res
        commander.get_supvisors_instance = recording_place

        class RecStopper(Stopper):
            def store_application(self, application):
                for processes in application.stop_sequence.values():
                    for process in processes:
                        if len(process.running_identifiers) >= 2:
                            rec.oracle.append(('order', [num(x) for x in process.running_identifiers]))
                super().store_application(application)

            def stop_process(self, process, identifiers=None, trigger=True):
                if len(process.running_identifiers) >= 2:
                    rec.oracle.append(('order', [num(x) for x in process.running_identifiers]))
                super().stop_process(process, identifiers, trigger)

        self.Starter, self.Stopper = Starter, RecStopper
        supv.fsm = FiniteStateMachine(supv)

        class Listener:
            pass
        lst = Listener()
        lst.supvisors, lst.logger, lst.fsm, lst.rpc_handler = supv, supv.logger, supv.fsm, rec
        lst.local_status = supv.context.local_status
        real_force = SupervisorListener.force_process_state.__get__(lst)

        from supvisors.process import ProcessStatus
        real_fs = ProcessStatus.force_state
        rec.accepted_stack = []

        def spy_force_state(proc_self, event):
            res = real_fs(proc_self, event)
            if rec.accepted_stack:
                rec.accepted_stack[-1] = bool(res)
            return res
        ProcessStatus.force_state = spy_force_state   # records the return value only

        def force_process_state(process, identifier, event_time, forced_state, reason):
            rec.outs.append(('forced', anum(process.application_name), anum(process.process_name),
                             PSTATES[int(forced_state)], REASONS[reason], num(identifier) if identifier else None))
            rec.accepted_stack.append(False)
            try:
                real_force(process, identifier, event_time, forced_state, reason)
            finally:
                rec.accepted_stack.pop()
        lst.force_process_state = force_process_state
        supv.listener = lst
        self.lost = ([], set())

    def reset(self, cf):
        from supvisors.ttypes import SupvisorsInstanceStates
        supv = self.supv
        ctx = supv.context
        ctx.applications.clear()
        svenv.CLOCK.now = cf['now']
        for i, state, counter in cf['insts']:
            status = ctx.instances[ident(i)]
            status._state = SupvisorsInstanceStates(state)
            status.processes = {}
            status.times.remote_sequence_counter = 0
            status.update_tick(counter, float(cf['now']), float(cf['now'] + 1000000))
        for i, state, counter in cf['insts']:
            infos = [load_payload(ac['name'], pc['name'], cf['now'], pc['startsecs'], pc['stopwaitsecs'])
                     for ac in cf['apps'] for pc in ac['procs'] if i in pc['insts']]
            if infos:
                ctx.load_processes(ctx.instances[ident(i)], infos, check_state=False)
        from supvisors.ttypes import StartingStrategies, StartingFailureStrategies
        for ac in cf['apps']:
            application = ctx.applications.get(aname(ac['name']))
            if application is None:
                continue
            application.rules.managed = ac['managed']
            application.rules.start_sequence = ac['start']
            application.rules.stop_sequence = ac['stop']
            application.rules.starting_strategy = StartingStrategies(ac['strategy'])
            for pc in ac['procs']:
                process = application.processes.get(pname(pc['name']))
                if process is None:
                    continue
                r = pc['rules']
                process.rules.start_sequence = r['start']
                process.rules.stop_sequence = r['stop']
                process.rules.required = r['required']
                process.rules.wait_exit = r['wait_exit']
                process.rules.starting_failure_strategy = StartingFailureStrategies(r['sfs'])
                process.rules.expected_load = pc['load']
            application.update_sequences()
            application.update()
        supv.starter = self.Starter(supv)
        supv.stopper = self.Stopper(supv)
        supv.state_modes.local_state_modes.starting_jobs = False
        supv.state_modes.local_state_modes.stopping_jobs = False
        self.lost = ([], set())
        self.rec.outs = []
        self.rec.oracle = []

    # ---- one operation on the real objects
    def apply(self, o):
        from supvisors.ttypes import SupvisorsInstanceStates, StartingStrategies
        supv = self.supv
        ctx = supv.context
        kind = o[0]
        if kind == 'Event':
            _, i, a, p, st, expected, nm = o
            supv.fsm.on_process_state_event(ctx.instances[ident(i)], event_payload(i, a, p, st, expected, nm))
        elif kind == 'Tick':
            _, i, cnt, mt = o
            ctx.instances[ident(i)].update_tick(cnt, float(mt), float(mt + 1000000))
        elif kind == 'Ticks':
            for i, cnt in o[1]:
                ctx.instances[ident(i)].update_tick(cnt, float(o[2]), float(o[2] + 1000000))
        elif kind == 'Check':
            supv.starter.check()
            supv.stopper.check()
        elif kind == 'CtxInvalidate':
            for i in o[1]:
                ctx.instances[ident(i)]._state = SupvisorsInstanceStates.FAILED
            self.lost = ctx.invalidate_failed()
        elif kind == 'CmdInvalidate':
            if self.lost[0]:
                supv.starter.on_instances_invalidation(self.lost[0], self.lost[1])
                supv.stopper.on_instances_invalidation(self.lost[0], self.lost[1])
        elif kind == 'InstState':
            ctx.instances[ident(o[1])]._state = SupvisorsInstanceStates(o[2])
        elif kind == 'StartApp':
            supv.starter.start_application(StartingStrategies(o[1]), ctx.applications[aname(o[2])])
        elif kind == 'StopApp':
            supv.stopper.stop_application(ctx.applications[aname(o[1])])
        elif kind == 'RestartApp':
            supv.stopper.restart_application(StartingStrategies(o[1]), ctx.applications[aname(o[2])])
        elif kind == 'StartProc':
            supv.starter.start_process(StartingStrategies(o[1]), ctx.applications[aname(o[2])].processes[pname(o[3])])
        elif kind == 'StopProc':
            ids = [ident(i) for i in o[3]] or None
            supv.stopper.stop_process(ctx.applications[aname(o[1])].processes[pname(o[2])], ids)
        elif kind == 'RestartProc':
            supv.stopper.restart_process(StartingStrategies(o[1]),
                                         ctx.applications[aname(o[2])].processes[pname(o[3])])
        elif kind == 'StartApps':
            supv.starter.start_applications()
        elif kind == 'StopApps':
            supv.stopper.stop_applications()
        elif kind == 'Abort':
            (supv.starter if o[1] == 'KStart' else supv.stopper).abort()
        else:
            raise RuntimeError(kind)

    # ---- canonical dump, mirror of Sequencer.v::dump
    @staticmethod
    def enc_list(f, items):
        items = list(items)
        out = [len(items)]
        for x in items:
            out += f(x)
        return out

    def enc_cmd(self, c):
        return ([anum(c.process.application_name), anum(c.process.process_name)]
                + ([1, num(c.identifier)] if c.identifier else [0])
                + [int(c.request_sequence_counter), int(c.wait_ticks)]
                + [1 if getattr(c, 'ignore_wait_exit', False) else 0])

    def enc_job(self, j):
        return (self.enc_list(lambda kv: [kv[0]] + self.enc_list(self.enc_cmd, kv[1]), j.planned_jobs.items())
                + self.enc_list(self.enc_cmd, j.current_jobs)
                + [1 if getattr(j, 'stop_request', False) else 0])

    def enc_cmdr(self, c):
        def enc_aj(kv):
            return [anum(kv[0])] + self.enc_job(kv[1])
        return (self.enc_list(lambda kv: [kv[0]] + self.enc_list(enc_aj, kv[1].items()), c.planned_jobs.items())
                + self.enc_list(enc_aj, c.current_jobs.items()))

    def dump(self):
        supv = self.supv
        st = supv.stopper

        def enc_proc(process):
            return ([anum(process.process_name), int(process.state), int(process.displayed_state)]
                    + self.enc_list(lambda x: [x], sorted(num(x) for x in process.running_identifiers)))

        def enc_app(application):
            return ([anum(application.application_name), int(application.state.value),
                     1 if application.major_failure else 0, 1 if application.minor_failure else 0]
                    + self.enc_list(enc_proc, application.processes.values()))
        failed = sorted((anum(p.application_name), anum(p.process_name)) for p in self.lost[1])
        return (self.enc_cmdr(supv.starter) + self.enc_cmdr(st)
                + self.enc_list(lambda kv: [anum(kv[0]), int(kv[1][0].value)], st.application_start_requests.items())
                + self.enc_list(lambda kv: [anum(kv[0])] + self.enc_list(
                    lambda t: [int(t[0].value), anum(t[1].process_name)], kv[1]), st.process_start_requests.items())
                + self.enc_list(lambda x: [x[0], x[1]], failed)
                + self.enc_list(enc_app, supv.context.applications.values()))

    def run_op(self, o, now):
        """ returns (oracle log, observation) """
        self.rec.outs = []
        self.rec.oracle = []
        svenv.CLOCK.now = now
        try:
            self.apply(o)
        except Exception as exc:  # an exception IS an observable
            return list(self.rec.oracle), ('crash', svenv.crash_kind(exc))
        supv = self.supv
        return list(self.rec.oracle), ('ok', list(self.rec.outs), bool(supv.starter.in_progress()),
                                       bool(supv.stopper.in_progress()), bool(supv.state_modes.starting_jobs),
                                       bool(supv.state_modes.stopping_jobs), self.dump())


_WORLD = None


def world():
    global _WORLD
    if _WORLD is None:
        _WORLD = World()
    return _WORLD


# ---------------------------------------------------------------- scenarios (closed-loop generation)
BEHAVIOURS = ['normal', 'normal', 'normal', 'slow', 'backoff_fatal', 'backoff_ok', 'early_exit_ok',
              'early_exit_bad', 'never', 'stuck_starting', 'fatal_now']
STOP_BEHAVIOURS = ['normal', 'normal', 'normal', 'slow', 'never', 'stuck_stopping']


def gen_config(rng):
    n_apps = rng.randint(1, 4)
    apps = []
    small = rng.random() < 0.5
    for a in range(1, n_apps + 1):
        n_procs = rng.randint(1, 3 if small else 6)
        procs = []
        sfs_app = rng.randint(0, 2)
        for p in range(1, n_procs + 1):
            insts = sorted(rng.sample(range(1, N_INST + 1), rng.randint(1, 4)))
            if rng.random() < 0.03:
                insts = []
            start = rng.choice([0, 1, 1, 2, 2, 3, 4])
            rules = {'start': start, 'stop': rng.choice([-1, 0, 1, 2, 3, 4]) if rng.random() < 0.9 else start,
                     'required': start > 0 and rng.random() < 0.5, 'wait_exit': rng.random() < 0.25,
                     'sfs': sfs_app if rng.random() < 0.7 else rng.randint(0, 2)}
            procs.append({'name': p, 'rules': rules, 'startsecs': rng.choice(SECS), 'stopwaitsecs': rng.choice(SECS),
                          'insts': insts, 'load': rng.choice([0, 0, 10, 30, 60, 120]) if rng.random() < 0.4 else 0,
                          'behaviour': rng.choice(BEHAVIOURS), 'stop_behaviour': rng.choice(STOP_BEHAVIOURS)})
        procs = [pc for pc in procs if pc['insts']] or procs[:1]
        if not procs[0]['insts']:
            procs[0]['insts'] = [1]
        apps.append({'name': a, 'managed': rng.random() < 0.92, 'start': rng.choice([0, 1, 1, 2, 3, 4]),
                     'stop': rng.choice([0, 1, 2, 3, 4]), 'strategy': rng.randint(0, 3), 'procs': procs})
    insts = [(i, 3, rng.randint(0, 30)) for i in range(1, N_INST + 1)]
    return {'insts': insts, 'apps': apps, 'now': 1000}


class Sim:
    """ scripted Supervisor world: reacts to the requests emitted by the real Starter/Stopper """

    def __init__(self, rng, cf, max_ops, drop):
        self.rng = rng
        self.cf = cf
        self.max_ops = max_ops
        self.drop = drop
        self.w = world()
        self.w.reset(cf)
        self.now = cf['now']
        self.counters = {i: c for i, _, c in cf['insts']}
        self.alive = {i: True for i, _, _ in cf['insts']}
        self.pending = []    # [due_step, i, a, p, state, expected]
        self.step = 0
        self.ops = []        # [(op, now, oracle)]
        self.obs = []
        self.proc_cf = {(ac['name'], pc['name']): pc for ac in cf['apps'] for pc in ac['procs']}
        self.crashed = False

    def do(self, o):
        self.now += self.rng.choice([0, 1, 1, 2])
        oracle, ob = self.w.run_op(o, self.now)
        self.ops.append((o, self.now, oracle))
        self.obs.append(ob)
        if ob[0] == 'crash':
            self.crashed = True
            return
        for out in ob[1]:
            if out[0] == 'start':
                self.on_start(out[1], out[2], out[3])
            elif out[0] == 'stop':
                self.on_stop(out[1], out[2], out[3])

    def push(self, delay, i, a, p, st, expected=True):
        self.pending.append([self.step + delay, i, a, p, st, expected])

    def on_start(self, i, a, p):
        rng = self.rng
        b = self.proc_cf[(a, p)]['behaviour']
        d = rng.randint(0, 2)
        we = self.proc_cf[(a, p)]['rules']['wait_exit']
        if b == 'never':
            return
        if b == 'fatal_now':
            self.push(d, i, a, p, 'FATAL', False)
            return
        self.push(d, i, a, p, 'STARTING')
        if b == 'stuck_starting':
            return
        if b in ('backoff_fatal', 'backoff_ok'):
            k = rng.randint(1, 3)
            for _ in range(k):
                d += rng.randint(1, 3)
                self.push(d, i, a, p, 'BACKOFF')
                d += rng.randint(1, 3)
                self.push(d, i, a, p, 'STARTING')
            if b == 'backoff_fatal':
                self.pending.pop()
                self.push(d, i, a, p, 'FATAL', False)
                return
        if b == 'early_exit_bad' and rng.random() < 0.5:
            self.push(d + 1, i, a, p, 'EXITED', False)
            return
        d += rng.randint(1, 3) if b != 'slow' else rng.randint(6, 14)
        self.push(d, i, a, p, 'RUNNING')
        if b == 'early_exit_ok' or (we and rng.random() < 0.7):
            self.push(d + rng.randint(1, 4), i, a, p, 'EXITED', True)
        elif b == 'early_exit_bad':
            self.push(d + rng.randint(1, 4), i, a, p, 'EXITED', False)

    def on_stop(self, i, a, p):
        rng = self.rng
        b = self.proc_cf[(a, p)]['stop_behaviour']
        if b == 'never':
            return
        d = rng.randint(0, 2)
        self.push(d, i, a, p, 'STOPPING')
        if b == 'stuck_stopping':
            return
        d += rng.randint(1, 3) if b != 'slow' else rng.randint(6, 14)
        self.push(d, i, a, p, 'STOPPED')

    def rand_proc(self):
        ac = self.rng.choice(self.cf['apps'])
        pc = self.rng.choice(ac['procs'])
        return ac['name'], pc['name']

    def user_request(self):
        rng = self.rng
        r = rng.random()
        a, p = self.rand_proc()
        strat = rng.randint(0, 3)
        if r < 0.22:
            return ('StartApp', strat, a)
        if r < 0.36:
            return ('StopApp', a)
        if r < 0.46:
            return ('RestartApp', strat, a)
        if r < 0.58:
            return ('StartProc', strat, a, p)
        if r < 0.68:
            ids = [] if rng.random() < 0.7 else sorted(rng.sample(range(1, N_INST + 1), rng.randint(1, 3)))
            return ('StopProc', a, p, ids)
        if r < 0.76:
            return ('RestartProc', strat, a, p)
        if r < 0.90:
            return ('StartApps',)
        if r < 0.98:
            return ('StopApps',)
        return ('Abort', rng.choice(['KStart', 'KStop']))

    def tick_round(self):
        rng = self.rng
        ticks = []
        for i in range(1, N_INST + 1):
            if self.alive[i] and rng.random() < 0.85:
                self.counters[i] += 1 if rng.random() < 0.9 else rng.randint(2, 4)
                if rng.random() < 0.02:
                    self.counters[i] = rng.randint(0, 3)     # stealth restart of the remote: counter goes back
                ticks.append((i, self.counters[i]))
        if rng.random() < 0.15 and ticks:
            i, cnt = ticks.pop()
            self.do(('Tick', i, cnt, self.now))
            if self.crashed:
                return
        if ticks:
            self.do(('Ticks', ticks, self.now))
            if self.crashed:
                return
        if rng.random() < 0.9:
            self.do(('Check',))

    def prologue(self):
        """ some processes are already running when the history starts (so that stop sequences have work) """
        rng = self.rng
        frac = rng.choice([0.3, 0.7, 1.0])
        for (a, p), pc in self.proc_cf.items():
            if rng.random() < frac and not self.crashed:
                targets = rng.sample(pc['insts'], 2 if len(pc['insts']) >= 2 and rng.random() < 0.12 else 1)
                for i in targets:
                    self.do(('Event', i, a, p, 'STARTING', True, self.now))
                    if rng.random() < 0.9 and not self.crashed:
                        self.do(('Event', i, a, p, 'RUNNING', True, self.now))

    def run(self, hostile):
        rng = self.rng
        if rng.random() < 0.45:
            self.prologue()
            if not self.crashed:
                self.do(rng.choice([('StopApps',), ('StopApp', self.rand_proc()[0]), ('StartApps',),
                                    ('RestartApp', 0, self.rand_proc()[0]), self.user_request()]))
        else:
            self.do(rng.choice([('StartApps',), ('StartApps',), self.user_request()]))
        while len(self.ops) < self.max_ops and not self.crashed:
            self.step += 1
            due = [e for e in self.pending if e[0] <= self.step]
            r = rng.random()
            if due and r < 0.55:
                e = due[0] if rng.random() < 0.8 else rng.choice(due)
                self.pending.remove(e)
                if rng.random() < self.drop:
                    continue
                _, i, a, p, st, expected = e
                self.do(('Event', i, a, p, st, expected, self.now))
            elif r < 0.80:
                self.tick_round()
            elif r < 0.90:
                self.do(self.user_request())
            elif r < 0.94:
                live = [i for i in self.alive if self.alive[i] and i != 1]
                if live:
                    ids = sorted(rng.sample(live, 1 if rng.random() < 0.8 else min(2, len(live))))
                    for i in ids:
                        self.alive[i] = False
                    self.pending = [e for e in self.pending if e[1] not in ids]
                    self.do(('CtxInvalidate', ids))
                    if not self.crashed and rng.random() < 0.6:
                        self.do(('Check',))
                    if not self.crashed and rng.random() < 0.95:
                        self.do(('CmdInvalidate',))
            elif r < 0.96:
                dead = [i for i in self.alive if not self.alive[i]]
                if dead:
                    i = rng.choice(dead)
                    self.alive[i] = True
                    self.do(('InstState', i, 3))
            elif hostile:
                a, p = self.rand_proc()
                i = rng.randint(1, N_INST)
                st = rng.choice(list(CODE))
                self.do(('Event', i, a, p, st, rng.random() < 0.5, self.now + rng.choice([-5, 0, 0, 3])))
            else:
                self.tick_round()
        return self.ops, self.obs


def replay_ops(cf, ops):
    """ open-loop replay of concrete operations (shrinking, replay files); oracles are re-recorded """
    w = world()
    w.reset(cf)
    out_ops, obs = [], []
    for o, now, _ in ops:
        oracle, ob = w.run_op(o, now)
        out_ops.append((o, now, oracle))
        obs.append(ob)
        if ob[0] == 'crash':
            break
    return out_ops, obs


# ---------------------------------------------------------------- the suite
def load_order(cf):
    """ order of context.applications / application.processes as Context.load_processes builds them: first
    appearance while the instances are loaded one after the other """
    order = []
    for i, _, _ in cf['insts']:
        for ac in cf['apps']:
            for pc in ac['procs']:
                if i in pc['insts'] and (ac['name'], pc['name']) not in order:
                    order.append((ac['name'], pc['name']))
    app_order = []
    for a, _ in order:
        if a not in app_order:
            app_order.append(a)
    return app_order, order


def emit_config(cf):
    apps = []
    app_order, order = load_order(cf)
    by_name = {ac['name']: ac for ac in cf['apps']}
    for a in app_order:
        ac = by_name[a]
        procs = []
        pcs = {pc['name']: pc for pc in ac['procs']}
        for pc in [pcs[p] for a2, p in order if a2 == a]:
            r = pc['rules']
            procs.append(app('mkPConf', pc['name'],
                             app('mkPRules', r['start'], r['stop'], r['required'], r['wait_exit'], r['sfs']),
                             pc['startsecs'], pc['stopwaitsecs'], list(pc['insts'])))
        apps.append(app('mkAConf', ac['name'], ac['managed'], ac['start'], ac['stop'], ac['strategy'], procs))
    return app('mkConfig', [tuple(x) for x in cf['insts']], apps, cf['now'])


def emit_op(o):
    kind = o[0]
    if kind == 'Event':
        _, i, a, p, st, expected, nm = o
        return app('OpEvent', i, a, p, C(st), expected, nm)
    if kind == 'Tick':
        return app('OpTick', o[1], o[2], o[3])
    if kind == 'Ticks':
        return app('OpTicks', [tuple(x) for x in o[1]], o[2])
    if kind == 'Check':
        return C('OpCheck')
    if kind == 'CtxInvalidate':
        return app('OpCtxInvalidate', list(o[1]))
    if kind == 'CmdInvalidate':
        return C('OpCmdInvalidate')
    if kind == 'InstState':
        return app('OpInstState', o[1], o[2])
    table = {'StartApp': 'CStartApp', 'StopApp': 'CStopApp', 'RestartApp': 'CRestartApp', 'StartProc': 'CStartProc',
             'RestartProc': 'CRestartProc', 'StartApps': 'CStartApps', 'StopApps': 'CStopApps'}
    if kind in table:
        return app('OpCall', app(table[kind], *o[1:]))
    if kind == 'StopProc':
        return app('OpCall', app('CStopProc', o[1], o[2], list(o[3])))
    if kind == 'Abort':
        return app('OpCall', app('CAbort', C(o[1])))
    raise RuntimeError(kind)


def emit_oracle(x):
    if x[0] == 'place':
        return app('OPlace', some(x[1]) if x[1] is not None else None)
    return app('OOrder', list(x[1]))


def emit_out(x):
    if x[0] == 'start':
        return app('OStart', x[1], x[2], x[3])
    if x[0] == 'stop':
        return app('OStop', x[1], x[2], x[3])
    if x[0] == 'forced':
        return app('OForced', x[1], x[2], C(x[3]), x[4], some(x[5]) if x[5] is not None else None)
    if x[0] == 'pub':
        return app('OPub', x[1], x[2], C(x[3]), x[4])
    raise RuntimeError(x)


def emit_obs(ob):
    if ob[0] == 'crash':
        return app('OCrash', C(ob[1]))
    _, outs, a, b, c, d, dump = ob
    return app('OOk', [emit_out(x) for x in outs], a, b, c, d, list(dump))


def tup(o):
    return tuple(tuple(x) if isinstance(x, list) and o[0] not in ('CtxInvalidate', 'StopProc') else x for x in o)


class SequencerSuite(Suite):
    name = 'sequencer'
    prelude = 'From Sup Require Import Sequencer.\nOpen Scope Z_scope.'
    case_type = 'case'
    evals = {'mismatches': 'mismatches'}
    shard_size = 60
    quick_cases = 1500
    thorough_cases = 12000

    def generate(self, rng, tier):
        n, max_ops = (self.quick_cases, 60) if tier == 'quick' else (self.thorough_cases, 160)
        out = []
        for k in range(n):
            cf = gen_config(rng)
            out.append({'cf': cf, 'seed': rng.randrange(1 << 30), 'max_ops': rng.randint(8, max_ops),
                        'drop': rng.choice([0.0, 0.0, 0.1, 0.3]), 'hostile': k % 5 == 4})
        return out

    def corpus(self):
        path = os.path.join(os.path.dirname(__file__), 'corpus', 'sequencer.json')
        if os.path.exists(path):
            with open(path) as f:
                return [self.from_description(d) for d in json.load(f)]
        return []

    def execute(self, inp):
        if 'ops' in inp:
            return replay_ops(inp['cf'], inp['ops'])
        sim = Sim(random.Random(inp['seed']), inp['cf'], inp['max_ops'], inp['drop'])
        ops, obs = sim.run(inp['hostile'])
        inp['ops'] = [(o, now, None) for o, now, _ in ops]   # later executions replay the concrete operations
        return ops, obs

    def emit(self, inp, observed):
        ops, obs = observed
        return coq((emit_config(inp['cf']),
                    [(emit_op(o), now, [emit_oracle(x) for x in oracle]) for o, now, oracle in ops],
                    [emit_obs(ob) for ob in obs]))

    def describe(self, inp, observed):
        ops, obs = observed
        return {'cf': inp['cf'], 'ops': [[list(o), now] for o, now, _ in ops],
                'observed': [list(ob) if ob[0] == 'crash' else [ob[0], [list(x) for x in ob[1]]] + list(ob[2:6])
                             for ob in obs]}

    def from_description(self, desc):
        cf = dict(desc['cf'])
        cf['insts'] = [tuple(x) for x in cf['insts']]
        ops = []
        for o, now in desc['ops']:
            o = tuple(o)
            if o[0] == 'Ticks':
                o = ('Ticks', [tuple(x) for x in o[1]], o[2])
            ops.append((o, now, None))
        return {'cf': cf, 'ops': ops}

    def nontrivial(self, inp, observed):
        ops, obs = observed
        groups = any(len({pc['rules']['start'] for pc in ac['procs'] if pc['rules']['start'] > 0}) >= 2
                     or len({pc['rules']['stop'] for pc in ac['procs']}) >= 2 for ac in inp['cf']['apps'])
        trouble = any(ob[0] == 'ok' and any(x[0] == 'forced' for x in ob[1]) for ob in obs) \
            or any(o[0] == 'CtxInvalidate' for o, _, _ in ops) \
            or any(o[0] == 'Event' and o[4] in ('FATAL', 'EXITED') for o, _, _ in ops)
        if groups and trouble:
            reqs = tuple(x[:4] for ob in obs if ob[0] == 'ok' for x in ob[1])
            return hash((reqs, len(ops)))
        return None

    def shrink_candidates(self, inp):
        """ at most ~24 candidates per round (each round costs one Coq evaluation of all of them): halves, then
        removal of chunks of decreasing size """
        ops = inp.get('ops')
        if not ops or len(ops) <= 1:
            return []
        n = len(ops)
        cands = []
        if n > 8:
            cands += [{'cf': inp['cf'], 'ops': ops[:n // 2]}, {'cf': inp['cf'], 'ops': ops[:-max(1, n // 8)]}]
        size = max(1, n // 20)
        for k in range(0, n, size):
            cands.append({'cf': inp['cf'], 'ops': ops[:k] + ops[k + size:]})
        return cands[:26]

    def distribution(self, inputs, observeds):
        kinds, lens, crashes, outs = {}, {}, {}, {}
        for inp, (ops, obs) in zip(inputs, observeds):
            b = f'{(len(ops) // 20) * 20}-{(len(ops) // 20) * 20 + 19}'
            lens[b] = lens.get(b, 0) + 1
            for o, _, _ in ops:
                kinds[o[0]] = kinds.get(o[0], 0) + 1
            for ob in obs:
                if ob[0] == 'crash':
                    crashes[ob[1]] = crashes.get(ob[1], 0) + 1
                else:
                    for x in ob[1]:
                        key = x[0] if x[0] != 'forced' else f'forced:{x[3]}:{"noresource" if x[4] == -1 else "timeout"}'
                        outs[key] = outs.get(key, 0) + 1
        return {'op_kinds': kinds, 'history_lengths': lens, 'crashes': crashes, 'outputs': outs,
                'apps': {str(n): sum(1 for i in inputs if len(i['cf']['apps']) == n) for n in range(1, 5)}}


class SequencerC03(SequencerSuite):
    name = 'sequencer'
    evals = {'mismatches': 'mismatches', 'spec_violations': 'failing_c03',
             'known:c03-noresource-reentrancy': 'known_noresource_c03',
             'known:c03-timeout-strategy': 'known_timeout_strategy',
             'known:reentrant-next-keyerror': 'known_keyerror'}


class SequencerC09(SequencerSuite):
    name = 'sequencer'
    evals = {'mismatches': 'mismatches', 'spec_violations': 'failing_c09',
             'known:c03-noresource-reentrancy': 'known_noresource_c09',
             'known:reentrant-next-keyerror': 'known_keyerror'}


class SequencerC10(SequencerSuite):
    name = 'sequencer'
    evals = {'mismatches': 'mismatches', 'spec_violations': 'failing_c10',
             'known:c03-noresource-reentrancy': 'known_noresource_c10',
             'known:reentrant-next-keyerror': 'known_keyerror'}


class SequencerC16(SequencerSuite):
    """ C16 on the Starter / Stopper: no internal error whatever the history (the known re-entrancy KeyError apart) """
    name = 'sequencer'
    evals = {'mismatches': 'mismatches', 'spec_violations': 'other_crashes',
             'known:reentrant-next-keyerror': 'known_keyerror'}
    thorough_cases = 5000
