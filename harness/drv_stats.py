"""T3 drivers for coq/model/Stats.v (property C20): bit-exact differential runs on the real
supvisors.statscompiler classes and pure functions.

Three suites:
  statshost  HostStatisticsCompiler + HostStatisticsInstance  (streams of host samples, several identifiers)
  statsproc  ProcStatisticsCompiler + Holder + Instance       (streams of process samples)
  statsfloat cpu_statistics / int->float / io rate expression / cpu_process_statistics on hostile numbers
Floats cross the boundary as float.hex() literals and are compared by bits inside Coq (Stats.fbits_eqb).
"""
import math
from unittest.mock import Mock

import svenv
from common import C, app, coq
from propcheck import Suite

PRELUDE = ('From Coq Require Import PrimFloat Uint63.\nFrom Sup Require Import Stats.\nOpen Scope Z_scope.\n'
           'Notation fnan := PrimFloat.nan.\nNotation finf := PrimFloat.infinity.\n'
           'Notation fninf := PrimFloat.neg_infinity.')

U64 = 2 ** 64


# ---------------------------------------------------------------- literals
def fl(x):
    """ Coq PrimFloat literal, bit exact (NaN payloads are not distinguished, as in float.hex()) """
    x = float(x)
    if math.isnan(x):
        return C('fnan')
    if math.isinf(x):
        return C('finf' if x > 0 else 'fninf')
    h = x.hex()
    mant, exp = h.split('p')
    if '.' in mant:
        mant = mant.rstrip('0').rstrip('.')     # 0x1.4000000000000p+2 -> 0x1.4p+2 (same value, less text)
    return C('(' + mant + 'p' + exp + ')%float')


def zi(x):
    """ Coq Z literal; large values go through primitive integers (fast to parse) """
    if 65536 <= x < 2 ** 62:
        return C(f'(zu {x}%uint63)')
    if 2 ** 62 <= x < 2 ** 124:
        return C(f'(zb {x >> 62}%uint63 {x & (2 ** 62 - 1)}%uint63)')
    return x


def fhex(x):
    return float(x).hex()


def unhex(s):
    return float.fromhex(s) if s not in ('nan', 'inf', '-inf') else float(s)


def crash_of(exc):
    return svenv.crash_kind(exc)     # ZeroDivisionError / OverflowError -> OtherError


def ident_name(i):
    return f'10.0.0.{i}:25000'


def num(name):
    """ 'if3' / 'sd2' / 'pt1' / 'ns4' / '10.0.0.2:25000' -> Z key """
    if ':' in name:
        return int(name.split(':')[0].split('.')[-1])
    return int(name[2:])


def falist(d):
    """ {name: [floats]} -> [(key, [literal])] in dict order """
    return [(num(k), [fl(x) for x in v]) for k, v in d.items()]


def thist(d):
    return [(num(k), ([fl(x) for x in upt], [[fl(x) for x in lst] for lst in vals])) for k, (upt, vals) in d.items()]


def tshape(d):
    return [(num(k), (len(upt), [len(lst) for lst in vals])) for k, (upt, vals) in d.items()]


# ================================================================ host suite
def host_payload(s):
    """ sample tuple -> the payload dict the collector would send (fresh objects every time) """
    now, cpu, mem, net, disk, usage = s
    return {'now': now, 'cpu': [tuple(j) for j in cpu], 'mem': mem,
            'net_io': {f'if{k}': tuple(v) for k, v in net},
            'disk_io': {f'sd{k}': tuple(v) for k, v in disk},
            'disk_usage': {f'pt{k}': v for k, v in usage}}


def emit_hsample(s):
    now, cpu, mem, net, disk, usage = s
    return app('mkHS', fl(now), [(fl(w), fl(i)) for w, i in cpu], fl(mem),
               [(k, (zi(a), zi(b))) for k, (a, b) in net], [(k, (zi(a), zi(b))) for k, (a, b) in disk],
               [(k, fl(v)) for k, v in usage])


class HostGen:
    """ one identifier's evolving host: monotone counters, appearing/vanishing keys, wraps """

    def __init__(self, rng, hostile):
        self.rng = rng
        self.hostile = hostile
        self.now = rng.choice([0.0, 1000.0, 1.7e9, rng.uniform(0, 1e6)])
        self.ncpu = rng.randint(1, 4)
        self.cpu = [[rng.uniform(0, 1e5), rng.uniform(0, 1e5)] for _ in range(self.ncpu)]
        self.idle_frozen = rng.random() < 0.35      # work advances while idle does not (F25 territory)
        self.keys = {kind: {} for kind in ('net', 'disk')}
        for kind in self.keys:
            for k in rng.sample(range(1, 6), rng.randint(0, 3)):
                self.keys[kind][k] = [self.big(), self.big()]
        self.usage = {k: rng.uniform(0, 100) for k in rng.sample(range(1, 5), rng.randint(0, 2))}

    def big(self):
        r = self.rng.random()
        if r < 0.6:
            return self.rng.randint(0, 10 ** 9)
        if r < 0.85:
            return self.rng.randint(0, 2 ** 53 + 10 ** 6)
        return self.rng.randint(U64 - 10 ** 6, U64 - 1) if r < 0.95 else self.rng.randint(0, 2 ** 32)

    def step(self):
        rng = self.rng
        r = rng.random()
        if r < 0.70:
            self.now += rng.choice([1.0, 2.5, 5.0, rng.uniform(0.1, 8.0), rng.uniform(4.9, 5.1)])
        elif r < 0.85:
            self.now += rng.uniform(8.0, 70.0)
        elif r < 0.93:
            pass                                  # same timestamp
        else:
            self.now -= rng.uniform(0.0, 3.0)      # clock stepping back
        if self.hostile and rng.random() < 0.03:
            self.now = rng.choice([float('nan'), float('inf'), -0.0, 1e308, -1e308])
        for c in self.cpu:
            if rng.random() < 0.85:
                c[0] += rng.choice([rng.uniform(0, 500), rng.uniform(0, 1e-3), float(rng.randint(0, 400)), 0.0])
            if not self.idle_frozen or rng.random() < 0.3:
                c[1] += rng.choice([rng.uniform(0, 500), float(rng.randint(0, 400)), 0.0])
            if self.hostile and rng.random() < 0.02:
                c[rng.randint(0, 1)] = rng.choice([float('nan'), float('inf'), 0.0, -5.0, 1.7e308])
        if self.hostile and rng.random() < 0.08:
            # number of CPU entries changes (F24 when it shrinks below the first sample's)
            if rng.random() < 0.5 and len(self.cpu) > 0:
                self.cpu.pop()
            else:
                self.cpu.append([rng.uniform(0, 10), rng.uniform(0, 10)])
        for kind, keys in self.keys.items():
            for k in list(keys):
                rr = rng.random()
                if rr < 0.06:
                    del keys[k]                    # vanishes
                elif rr < 0.13:
                    keys[k][rng.randint(0, 1)] = rng.randint(0, 1000)     # counter wrap
                else:
                    for j in (0, 1):
                        keys[k][j] += rng.choice([0, rng.randint(0, 10 ** 7), rng.randint(0, 2 ** 40)])
                        if keys[k][j] >= U64 and not self.hostile:
                            keys[k][j] -= U64       # a real 64-bit wrap
            if rng.random() < 0.12:
                k = rng.randint(1, 5)
                if k not in keys:
                    keys[k] = [self.big(), self.big()]     # appears (at the end of the dict)
            if self.hostile and rng.random() < 0.02:
                keys[rng.randint(1, 5)] = [rng.choice([-7, 2 ** 1030, 10 ** 400]), 0]
        for k in list(self.usage):
            rr = rng.random()
            if rr < 0.06:
                del self.usage[k]
            else:
                self.usage[k] = min(100.0, max(0.0, self.usage[k] + rng.uniform(-3, 3)))
        if rng.random() < 0.08:
            self.usage.setdefault(rng.randint(1, 4), rng.uniform(0, 100))
        # dict order: shuffle sometimes (psutil gives no order guarantee)
        for kind in self.keys:
            if rng.random() < 0.1:
                items = list(self.keys[kind].items())
                rng.shuffle(items)
                self.keys[kind] = dict(items)
        return (self.now, [tuple(c) for c in self.cpu], rng.uniform(0, 100),
                [(k, tuple(v)) for k, v in self.keys['net'].items()],
                [(k, tuple(v)) for k, v in self.keys['disk'].items()],
                list(self.usage.items()))


GOOD_PERIODS = [[5.0], [1.0], [1.0, 2.5], [5.0, 15.0, 60.0], [2.0, 10.0], [2.0, 2.0, 7.0], [3600.0]]
BAD_PERIODS = [[0.0], [-1.0], [float('nan')], [0.5, 5.0], [], [1e-300], [float('inf')], [0.0, 5.0]]


def gen_config(rng, hostile):
    if hostile and rng.random() < 0.5:
        periods = rng.choice(BAD_PERIODS)
    else:
        periods = rng.choice(GOOD_PERIODS)
    if hostile and rng.random() < 0.3:
        depth = rng.choice([0, 0, -1, -3])
    else:
        depth = rng.choice([1, 2, 2, 3, 3, 5, 10, 1500])
    return list(periods), depth


class HostStatsSuite(Suite):
    name = 'statshost'
    prelude = PRELUDE
    case_type = 'hcase'
    shard_size = 40
    evals = {'mismatches': 'hmismatches', 'spec_violations': 'hspec_violations',
             'known:F24-cpu-count-shrinks': 'hknown_f24'}

    def generate(self, rng, tier):
        n, max_len = (600, 14) if tier == 'quick' else (4000, 24)
        out = []
        for k in range(n):
            hostile = (k % 5 == 4)
            periods, depth = gen_config(rng, hostile)
            n_id = rng.choice([1, 1, 2, 3])
            gens = {i: HostGen(rng, hostile) for i in range(1, n_id + 1)}
            ops = []
            for _ in range(rng.randint(1, max_len)):
                i = rng.randint(1, n_id)
                ops.append((i, gens[i].step()))
            out.append((periods, depth, ops))
        return out

    def corpus(self):
        w = float.fromhex('0x1.baedf1e8837c2p+14')

        def s(now, cpu, net=()):
            return (now, cpu, 1.0, list(net), [], [])
        return [
            # former F25 witnesses (fixed): 100.0 * work / total was one ulp above 100 / overflowed
            ([5.0], 10, [(1, s(0.0, [(0.0, 0.0)])), (1, s(5.0, [(w, 0.0)]))]),
            ([5.0], 10, [(1, s(0.0, [(0.0, 0.0)])), (1, s(5.0, [(2.0 ** 1020, 0.0)]))]),
            # F24 witness: fewer CPU entries than the first sample
            ([5.0], 10, [(1, s(0.0, [(0.0, 0.0)] * 3)), (1, s(5.0, [(1.0, 1.0)] * 3)),
                         (1, s(10.0, [(2.0, 2.0)] * 2)), (1, s(15.0, [(3.0, 3.0)] * 3))]),
            # zero duration with period 0: ZeroDivisionError
            ([0.0], 10, [(1, s(1.0, [(0.0, 0.0)], [(1, (1, 1))])), (1, s(1.0, [(0.0, 0.0)], [(1, (1, 1))]))]),
            # negative depth
            ([1.0], -1, [(1, s(1.0, [(0.0, 0.0)])), (1, s(3.0, [(0.0, 0.0)])), (1, s(5.0, [(0.0, 0.0)]))]),
            # depth 0: a new key gets one point although depth is 0
            ([1.0], 0, [(1, s(1.0, [(0.0, 0.0)])), (1, s(3.0, [(0.0, 0.0)], [(1, (1, 1))])),
                        (1, s(5.0, [(0.0, 0.0)], [(1, (2, 2))])), (1, s(7.0, [(0.0, 0.0)], [(1, (3, 3))]))]),
        ]

    # ---------------- execution on the real classes
    def execute(self, inp):
        from supvisors import statscompiler as sc
        periods, depth, ops = inp
        supv = Mock()
        supv.options.stats_periods = list(periods)
        supv.options.stats_histo = depth
        comp = sc.HostStatisticsCompiler(supv)
        calls = []
        real_push = sc.HostStatisticsInstance.push_statistics

        def recording_push(inst, stats):
            try:
                res = real_push(inst, stats)
            except Exception as exc:
                calls.append(('crash', crash_of(exc)))
                raise
            if res:
                calls.append(('point', (fhex(res['period'][1]), [fhex(x) for x in res['cpu']], fhex(res['mem']),
                                        {k: [fhex(x) for x in v] for k, v in res['net_io'].items()},
                                        {k: [fhex(x) for x in v] for k, v in res['disk_io'].items()},
                                        {k: [fhex(v)] for k, v in res['disk_usage'].items()})))
            else:
                calls.append(('none',))
            return res

        steps = []
        sc.HostStatisticsInstance.push_statistics = recording_push
        try:
            for i, s in ops:
                del calls[:]
                name = ident_name(i)
                try:
                    comp.push_statistics(name, host_payload(s))
                except Exception:
                    if not calls or calls[-1][0] != 'crash':
                        raise
                insts = list(comp.instance_map.get(name, {}).values())
                shapes = [(len(h.times), len(h.mem), [len(lst) for lst in h.cpu],
                           tshape(h.net_io), tshape(h.disk_io), tshape(h.disk_usage)) for h in insts]
                steps.append((list(calls), shapes, comp.nb_cores.get(name)))
        finally:
            sc.HostStatisticsInstance.push_statistics = real_push
        final = []
        for name, per in comp.instance_map.items():
            dumps = []
            for h in per.values():
                dumps.append(([fhex(x) for x in h.times], [[fhex(x) for x in lst] for lst in h.cpu],
                              [fhex(x) for x in h.mem], self.hexhist(h.net_io), self.hexhist(h.disk_io),
                              self.hexhist(h.disk_usage), fhex(h.ref_stats['now']) if h.ref_stats else None))
            final.append((num(name), dumps))
        cores = [(num(k), v) for k, v in comp.nb_cores.items()]
        return steps, (final, cores)

    @staticmethod
    def hexhist(d):
        return [(num(k), ([fhex(x) for x in upt], [[fhex(x) for x in lst] for lst in vals]))
                for k, (upt, vals) in d.items()]

    # ---------------- emission
    @staticmethod
    def emit_out(call):
        if call[0] == 'none':
            return C('HNone')
        if call[0] == 'crash':
            return app('HCrash', C(call[1]))
        upt, cpu, mem, net, disk, usage = call[1]

        def al(d):
            return [(num(k), [fl(unhex(x)) for x in v]) for k, v in d.items()]
        return app('HPoint', (fl(unhex(upt)), [fl(unhex(x)) for x in cpu], fl(unhex(mem)), al(net), al(disk),
                              al(usage)))

    @staticmethod
    def emit_hist(h):
        return [(k, ([fl(unhex(x)) for x in upt], [[fl(unhex(x)) for x in lst] for lst in vals]))
                for k, (upt, vals) in h]

    def emit(self, inp, observed):
        periods, depth, ops = inp
        steps, (final, cores) = observed
        esteps = [([self.emit_out(c) for c in calls], [tuple(sh) for sh in shapes],
                   C('None') if nb is None else app('Some', nb)) for calls, shapes, nb in steps]
        efinal = [(k, [([fl(unhex(x)) for x in t], [[fl(unhex(x)) for x in lst] for lst in c],
                        [fl(unhex(x)) for x in m], self.emit_hist(n), self.emit_hist(d), self.emit_hist(u),
                        C('None') if r is None else app('Some', fl(unhex(r))))
                       for t, c, m, n, d, u, r in dumps]) for k, dumps in final]
        return coq(([fl(p) for p in periods], depth, [(i, emit_hsample(s)) for i, s in ops], esteps,
                    (efinal, cores)))

    # ---------------- reporting
    def describe(self, inp, observed):
        periods, depth, ops = inp
        steps, final = observed
        return {'periods': [fhex(p) for p in periods], 'depth': depth,
                'ops': [[i, self.sample_json(s)] for i, s in ops],
                'steps': [{'outs': calls, 'shapes': shapes, 'nb_cores': nb} for calls, shapes, nb in steps],
                'final': final}

    @staticmethod
    def sample_json(s):
        now, cpu, mem, net, disk, usage = s
        return {'now': fhex(now), 'cpu': [[fhex(w), fhex(i)] for w, i in cpu], 'mem': fhex(mem),
                'net': [[k, list(v)] for k, v in net], 'disk': [[k, list(v)] for k, v in disk],
                'usage': [[k, fhex(v)] for k, v in usage]}

    def from_description(self, desc):
        ops = []
        for i, s in desc['ops']:
            ops.append((i, (unhex(s['now']), [(unhex(w), unhex(x)) for w, x in s['cpu']], unhex(s['mem']),
                            [(k, tuple(v)) for k, v in s['net']], [(k, tuple(v)) for k, v in s['disk']],
                            [(k, unhex(v)) for k, v in s['usage']])))
        return [unhex(p) for p in desc['periods']], desc['depth'], ops

    def nontrivial(self, inp, observed):
        steps, _ = observed
        points = sum(1 for calls, _, _ in steps for c in calls if c[0] == 'point')
        if points >= 2:
            return repr(steps[-1][1]) + repr(len(steps))
        return None

    def shrink_candidates(self, inp):
        periods, depth, ops = inp
        out = [(periods, depth, ops[:k] + ops[k + 1:]) for k in range(len(ops))] if len(ops) > 1 else []
        if len(periods) > 1:
            out += [(periods[:k] + periods[k + 1:], depth, ops) for k in range(len(periods))]
        # drop optional parts of samples
        for k, (i, s) in enumerate(ops):
            now, cpu, mem, net, disk, usage = s
            if net or disk or usage:
                out.append((periods, depth, ops[:k] + [(i, (now, cpu, mem, [], [], []))] + ops[k + 1:]))
        return out

    def distribution(self, inputs, observeds):
        lens, outs, depths, crashes = {}, {}, {}, {}
        n_wrap = n_keychange = 0
        for (periods, depth, ops), (steps, _) in zip(inputs, observeds):
            b = f'{(len(ops) // 5) * 5}-{(len(ops) // 5) * 5 + 4}'
            lens[b] = lens.get(b, 0) + 1
            depths[depth] = depths.get(depth, 0) + 1
            for calls, _, _ in steps:
                for c in calls:
                    outs[c[0]] = outs.get(c[0], 0) + 1
                    if c[0] == 'crash':
                        crashes[c[1]] = crashes.get(c[1], 0) + 1
            last = {}
            for i, s in ops:
                if i in last:
                    prev = dict(last[i][3])
                    cur = dict(s[3])
                    if set(prev) != set(cur):
                        n_keychange += 1
                    if any(k in prev and (prev[k][0] > v[0] or prev[k][1] > v[1]) for k, v in cur.items()):
                        n_wrap += 1
                last[i] = s
        return {'stream_lengths': lens, 'instance_outcomes': outs, 'depths': depths, 'crashes': crashes,
                'steps_with_net_key_change': n_keychange, 'steps_with_net_wrap': n_wrap}


# ================================================================ process suite
def proc_payload(s):
    ns, pid, now, work, mem, cores = s
    d = {'namespec': f'ns{ns}', 'pid': pid, 'now': now, 'proc_work': work, 'proc_memory': mem}
    if cores is not None:
        d['nb_cores'] = cores
    return d


def emit_psample(s):
    ns, pid, now, work, mem, cores = s
    return app('mkPS', ns, pid, fl(now), fl(work), fl(mem), C('None') if cores is None else app('Some', cores))


class ProcStatsSuite(Suite):
    name = 'statsproc'
    prelude = PRELUDE
    case_type = 'pcase'
    shard_size = 40
    evals = {'mismatches': 'pmismatches', 'spec_violations': 'pspec_violations'}

    def generate(self, rng, tier):
        n, max_len = (600, 18) if tier == 'quick' else (8000, 40)
        out = []
        for k in range(n):
            hostile = (k % 5 == 4)
            periods, depth = gen_config(rng, hostile)
            n_ns, n_id = rng.randint(1, 3), rng.randint(1, 2)
            state = {}          # (ns, ident) -> [pid, now, work]
            now = {i: rng.choice([0.0, 1000.0, rng.uniform(0, 1e6)]) for i in range(1, n_id + 1)}
            ops = []
            for _ in range(rng.randint(1, max_len)):
                ns, i = rng.randint(1, n_ns), rng.randint(1, n_id)
                r = rng.random()
                now[i] += rng.choice([1.0, 2.5, 5.0, rng.uniform(0.1, 8.0), 0.0, rng.uniform(8.0, 70.0)])
                if hostile and rng.random() < 0.05:
                    now[i] -= rng.uniform(0, 5)
                st = state.get((ns, i))
                if st is None:
                    if r < 0.85:
                        st = state[(ns, i)] = [rng.randint(1, 5), rng.uniform(0, 100)]
                    elif hostile and r < 0.9:
                        st = [rng.choice([-3, -1]), 0.0]         # negative pid, never registered
                    else:
                        ops.append((i, (ns, 0, now[i], 0.0, 0.0, None)))   # stopped and unknown
                        continue
                elif r < 0.10:
                    ops.append((i, (ns, 0, now[i], 0.0, 0.0, None)))       # stops
                    del state[(ns, i)]
                    continue
                elif r < 0.22:
                    st[0] = st[0] % 5 + 1                                   # restarts under a new pid
                    st[1] = rng.uniform(0, 5)
                else:
                    st[1] += rng.choice([rng.uniform(0, 20), 0.0, rng.uniform(0, 1e-3)])
                work = st[1]
                if hostile and rng.random() < 0.03:
                    work = rng.choice([float('nan'), float('inf'), -1.0])
                cores = rng.randint(1, 8) if rng.random() < 0.1 else None
                ops.append((i, (ns, st[0], now[i], work, rng.uniform(0, 30), cores)))
            out.append((periods, depth, ops))
        return out

    def corpus(self):
        return [
            ([5.0], 3, [(1, (1, 7, 0.0, 1.0, 2.0, None)), (1, (1, 7, 5.0, 2.0, 2.0, 4)),
                        (1, (1, 8, 10.0, 0.5, 2.0, None)), (1, (1, 8, 15.0, 1.5, 2.0, None)),
                        (1, (1, 0, 20.0, 0.0, 0.0, None))]),
            ([0.0], 3, [(1, (1, 7, 1.0, 1.0, 2.0, None)), (1, (1, 7, 1.0, 2.0, 2.0, None))]),
            ([1.0], -1, [(1, (1, 7, 1.0, 1.0, 2.0, None)), (1, (1, 7, 3.0, 2.0, 2.0, None)),
                         (1, (1, 7, 5.0, 3.0, 2.0, None))]),
        ]

    def execute(self, inp):
        from supvisors import statscompiler as sc
        periods, depth, ops = inp
        options = Mock()
        options.stats_periods = list(periods)
        options.stats_histo = depth
        options.stats_irix_mode = True
        comp = sc.ProcStatisticsCompiler(options, Mock())
        calls = []
        real_push = sc.ProcStatisticsInstance.push_statistics

        def recording_push(inst, stats):
            try:
                res = real_push(inst, stats)
            except Exception as exc:
                calls.append(('crash', crash_of(exc)))
                raise
            if res:
                calls.append(('point', fhex(res['cpu']), fhex(res['mem']), fhex(res['period'][1])))
            else:
                calls.append(('none',))
            return res

        steps = []
        sc.ProcStatisticsInstance.push_statistics = recording_push
        try:
            for i, s in ops:
                del calls[:]
                try:
                    comp.push_statistics(ident_name(i), proc_payload(s))
                except Exception:
                    if not calls or calls[-1][0] != 'crash':
                        raise
                shape = [(num(ns), [(num(idn), (pid, [(p.pid, (len(p.times), len(p.cpu), len(p.mem)))
                                                      for p in per.values()]))
                                    for idn, (pid, per) in holder.instance_map.items()])
                         for ns, holder in comp.holder_map.items()]
                steps.append((list(calls), shape, [(num(k), v) for k, v in comp.nb_cores.items()]))
        finally:
            sc.ProcStatisticsInstance.push_statistics = real_push
        final = [(num(ns), [(num(idn), [([fhex(x) for x in p.times], [fhex(x) for x in p.cpu],
                                         [fhex(x) for x in p.mem],
                                         fhex(p.ref_stats['now']) if p.ref_stats else None)
                                        for p in per.values()])
                            for idn, (pid, per) in holder.instance_map.items()])
                 for ns, holder in comp.holder_map.items()]
        return steps, final

    @staticmethod
    def emit_out(call):
        if call[0] == 'none':
            return C('PNone')
        if call[0] == 'crash':
            return app('PCrash', C(call[1]))
        return app('PPoint', fl(unhex(call[1])), fl(unhex(call[2])), fl(unhex(call[3])))

    def emit(self, inp, observed):
        periods, depth, ops = inp
        steps, final = observed
        esteps = [([self.emit_out(c) for c in calls], shape, cores) for calls, shape, cores in steps]
        efinal = [(ns, [(idn, [([fl(unhex(x)) for x in t], [fl(unhex(x)) for x in c], [fl(unhex(x)) for x in m],
                                C('None') if r is None else app('Some', fl(unhex(r))))
                               for t, c, m, r in dumps]) for idn, dumps in per]) for ns, per in final]
        return coq(([fl(p) for p in periods], depth, [(i, emit_psample(s)) for i, s in ops], esteps, efinal))

    def describe(self, inp, observed):
        periods, depth, ops = inp
        steps, final = observed
        return {'periods': [fhex(p) for p in periods], 'depth': depth,
                'ops': [[i, [s[0], s[1], fhex(s[2]), fhex(s[3]), fhex(s[4]), s[5]]] for i, s in ops],
                'steps': [{'outs': calls, 'shape': shape, 'nb_cores': cores} for calls, shape, cores in steps],
                'final': final}

    def from_description(self, desc):
        return ([unhex(p) for p in desc['periods']], desc['depth'],
                [(i, (s[0], s[1], unhex(s[2]), unhex(s[3]), unhex(s[4]), s[5])) for i, s in desc['ops']])

    def nontrivial(self, inp, observed):
        steps, _ = observed
        points = sum(1 for calls, _, _ in steps for c in calls if c[0] == 'point')
        pids = {(s[0], i, s[1]) for i, s in inp[2]}
        if points >= 2 or len(pids) > 2:
            return repr(steps[-1][1]) + repr(len(steps))
        return None

    def shrink_candidates(self, inp):
        periods, depth, ops = inp
        out = [(periods, depth, ops[:k] + ops[k + 1:]) for k in range(len(ops))] if len(ops) > 1 else []
        if len(periods) > 1:
            out += [(periods[:k] + periods[k + 1:], depth, ops) for k in range(len(periods))]
        return out

    def distribution(self, inputs, observeds):
        lens, outs, kinds = {}, {}, {'stop': 0, 'pid_change': 0, 'sample': 0}
        for (periods, depth, ops), (steps, _) in zip(inputs, observeds):
            b = f'{(len(ops) // 5) * 5}-{(len(ops) // 5) * 5 + 4}'
            lens[b] = lens.get(b, 0) + 1
            last = {}
            for i, s in ops:
                if s[1] == 0:
                    kinds['stop'] += 1
                elif (s[0], i) in last and last[(s[0], i)] not in (0, s[1]):
                    kinds['pid_change'] += 1
                else:
                    kinds['sample'] += 1
                last[(s[0], i)] = s[1]
            for calls, _, _ in steps:
                for c in calls:
                    outs[c[0]] = outs.get(c[0], 0) + 1
        return {'stream_lengths': lens, 'instance_outcomes': outs, 'op_kinds': kinds}


# ================================================================ pure float functions
SPECIALS = [0.0, -0.0, float('nan'), float('inf'), float('-inf'), 5e-324, 2.2250738585072014e-308,
            1.7976931348623157e308, 1.0, 100.0, 1e-300, 1e300]


class FloatSuite(Suite):
    name = 'statsfloat'
    prelude = PRELUDE
    case_type = 'fcase'
    shard_size = 300
    evals = {'mismatches': 'fmismatches', 'spec_violations': 'fspec_violations',
             'known:F25b-proc-cpu-over-100': 'fknown_proc_cpu'}

    def rfloat(self, rng):
        r = rng.random()
        if r < 0.08:
            return rng.choice(SPECIALS)
        if r < 0.5:
            return rng.uniform(0, 1e6)
        if r < 0.7:
            return float(rng.randint(0, 10 ** 7))
        if r < 0.85:
            return math.ldexp(rng.random(), rng.randint(-1074, 1023))
        return rng.uniform(-1e3, 1e3)

    def rint(self, rng):
        r = rng.random()
        if r < 0.3:
            return rng.randint(0, 10 ** 9)
        if r < 0.5:
            return rng.randint(2 ** 53 - 100, 2 ** 53 + 5000)
        if r < 0.7:
            return rng.randint(0, U64 - 1)
        if r < 0.8:
            return rng.randint(2 ** 62, 2 ** 66)
        if r < 0.9:
            return rng.randint(1, 2 ** 12) << rng.randint(40, 1030)
        if r < 0.95:
            return rng.getrandbits(rng.randint(64, 1100))
        return -rng.randint(0, 2 ** 70)

    def generate(self, rng, tier):
        n = 1200 if tier == 'quick' else 40000
        out = []
        for k in range(n):
            kind = k % 4
            if kind == 0:
                m = rng.randint(0, 3)
                ref, latest = [], []
                for _ in range(m):
                    if rng.random() < 0.75:      # monotone, non-negative counters (idle often frozen)
                        rw, ri = rng.uniform(0, 1e6), rng.uniform(0, 1e6)
                        lw = rw + rng.choice([rng.uniform(0, 1e5), float(rng.randint(0, 1000)), 0.0])
                        li = ri + rng.choice([0.0, 0.0, rng.uniform(0, 1e5), float(rng.randint(0, 1000))])
                    else:
                        rw, ri, lw, li = (self.rfloat(rng) for _ in range(4))
                    ref.append((rw, ri))
                    latest.append((lw, li))
                if rng.random() < 0.2 and ref:
                    ref.pop()
                out.append(('cpu', latest, ref))
            elif kind == 1:
                out.append(('int', self.rint(rng)))
            elif kind == 2:
                d = rng.choice([1.0, 5.0, rng.uniform(1, 100), self.rfloat(rng)])
                out.append(('rate', self.rint(rng), d))
            elif rng.random() < 0.6:
                # non-decreasing process counter, increase <= host work (equal 1 time in 3)
                ref = rng.uniform(0, 1e5)
                work = rng.choice([rng.uniform(0, 1e5), float(rng.randint(0, 1000))])
                host = (ref + work) - ref if rng.random() < 0.34 else ((ref + work) - ref) + rng.uniform(0, 1e4)
                out.append(('proccpu', ref + work, ref, host))
            else:
                out.append(('proccpu', self.rfloat(rng), self.rfloat(rng), self.rfloat(rng)))
        return out

    def corpus(self):
        w = float.fromhex('0x1.baedf1e8837c2p+14')
        return [('cpu', [(w, 0.0)], [(0.0, 0.0)]), ('cpu', [(2.0 ** 1020, 0.0)], [(0.0, 0.0)]),
                ('proccpu', w, 0.0, w), ('int', 2 ** 64 - 1024), ('int', 2 ** 1024 - 2 ** 970),
                ('int', 2 ** 1024 - 2 ** 970 - 1), ('rate', 5, 0.0), ('rate', 2 ** 64 - 1, 1.0)]

    @staticmethod
    def guarded(fn):
        try:
            return ('ok', fhex(fn()))
        except Exception as exc:
            return ('crash', crash_of(exc))

    def execute(self, inp):
        from supvisors import statscompiler as sc
        if inp[0] == 'cpu':
            return [fhex(x) for x in sc.cpu_statistics(list(inp[1]), list(inp[2]))]
        if inp[0] == 'int':
            return self.guarded(lambda: inp[1] / 1.0)
        if inp[0] == 'rate':
            def rate():
                res = sc.io_statistics({'a': (inp[1], 0)}, {'a': (0, 0)}, inp[2]) if inp[1] >= 0 else None
                if res is None:      # negative deltas never reach the expression in io_statistics
                    return inp[1] / inp[2] / 128
                return res['a'][0]
            return self.guarded(rate)
        return self.guarded(lambda: sc.cpu_process_statistics(inp[1], inp[2], inp[3]))

    @staticmethod
    def emit_res(r):
        return app('FOk', fl(unhex(r[1]))) if r[0] == 'ok' else app('FCrash', C(r[1]))

    def emit(self, inp, observed):
        if inp[0] == 'cpu':
            return app('FCpu', [(fl(a), fl(b)) for a, b in inp[1]], [(fl(a), fl(b)) for a, b in inp[2]],
                       [fl(unhex(x)) for x in observed])
        if inp[0] == 'int':
            return app('FInt', zi(inp[1]), self.emit_res(observed))
        if inp[0] == 'rate':
            return app('FRate', zi(inp[1]), fl(inp[2]), self.emit_res(observed))
        return app('FProcCpu', fl(inp[1]), fl(inp[2]), fl(inp[3]), self.emit_res(observed))

    def describe(self, inp, observed):
        def enc(x):
            if isinstance(x, float):
                return fhex(x)
            if isinstance(x, (list, tuple)):
                return [enc(e) for e in x]
            return x
        return {'input': enc(list(inp)), 'observed': observed}

    def from_description(self, desc):
        i = desc['input']
        if i[0] == 'cpu':
            return ('cpu', [(unhex(a), unhex(b)) for a, b in i[1]], [(unhex(a), unhex(b)) for a, b in i[2]])
        if i[0] == 'int':
            return ('int', i[1])
        if i[0] == 'rate':
            return ('rate', i[1], unhex(i[2]))
        return ('proccpu', unhex(i[1]), unhex(i[2]), unhex(i[3]))

    def nontrivial(self, inp, observed):
        return repr(inp)

    def distribution(self, inputs, observeds):
        kinds, crashes = {}, 0
        over = 0
        for i, o in zip(inputs, observeds):
            kinds[i[0]] = kinds.get(i[0], 0) + 1
            if i[0] != 'cpu' and o[0] == 'crash':
                crashes += 1
            if i[0] == 'cpu' and any(unhex(x) > 100.0 for x in o):
                over += 1
        return {'kinds': kinds, 'crashing': crashes, 'cpu_cases_with_value_over_100': over}
