"""Shared machinery for all checks: paths, Coq emission, coqc/make runners, evidence, verdicts.

Everything here is deliberately plain: the trusted part is (1) what the drivers record from the real classes,
(2) the literal emission below, (3) reading back the index lists printed by coqc.
"""
import fcntl
import hashlib
import json
import os
import re
import shutil
import subprocess
import sys
import time

ROOT = os.path.dirname(os.path.dirname(os.path.abspath(__file__)))
COQ = os.path.join(ROOT, 'coq')
BUILD = os.path.join(ROOT, 'build')
# seeded-change runs redirect their evidence (VERIF_EVIDENCE_DIR) so that the committed evidence is never clobbered
EVIDENCE = os.environ.get('VERIF_EVIDENCE_DIR') or os.path.join(ROOT, 'evidence')
REPLAY = os.path.join(EVIDENCE, 'replay')
REPO = os.environ.get('VERIF_REPO', '/repo')
PY = '/venv/bin/python'
NPROC = 16

TRUSTED_BASE_COMMON = [
    'Coq 8.16.1 kernel and its vm_compute VM (no native_compute)',
    'no extraction (no Extract directives): the model is evaluated inside Coq',
    'harness/gen_tables.py (reflection of /repo tables into coq/gen)',
    'harness drivers + canonicalisers (what is recorded as observable of the real classes)',
    'literal emission harness/common.py::coq and parsing of the index lists printed by coqc',
    'CPython 3.12 + supervisor 4.x as the semantics of the implementation side',
    'logical clock patched over time.monotonic/time.time in the drivers',
]


def write_if_changed(path, text):
    try:
        with open(path) as f:
            if f.read() == text:
                return False
    except FileNotFoundError:
        pass
    os.makedirs(os.path.dirname(path), exist_ok=True)
    tmp = path + '.tmp%d' % os.getpid()
    with open(tmp, 'w') as f:
        f.write(text)
    os.replace(tmp, path)
    return True


# ---------------------------------------------------------------- Coq literal emission
class C(str):
    """ raw Coq text (constructor names, applications) """


def coq(x):
    if isinstance(x, C):
        return str(x)
    if isinstance(x, bool):
        return 'true' if x else 'false'
    if isinstance(x, int):
        return f'({x})' if x < 0 else str(x)
    if x is None:
        return 'None'
    if isinstance(x, tuple):
        # explicit constructors: Coq's parser is very slow on nested tuple / list notations
        out = coq(x[0])
        for e in x[1:]:
            out = f'(pair {out} {coq(e)})'
        return out
    if isinstance(x, list):
        out = 'nil'
        for e in reversed(x):
            out = f'(cons {coq(e)} {out})'
        return out
    raise TypeError(f'cannot emit {x!r}')


def app(ctor, *args):
    """ constructor application """
    if not args:
        return C(ctor)
    return C('(' + ctor + ' ' + ' '.join(coq(a) for a in args) + ')')


def some(x):
    return app('Some', x)


# ---------------------------------------------------------------- build
class BuildError(Exception):
    def __init__(self, what, output):
        super().__init__(what)
        self.what = what
        self.output = output


def lock_build():
    os.makedirs(BUILD, exist_ok=True)
    f = open(os.path.join(BUILD, '.lock'), 'w')
    fcntl.flock(f, fcntl.LOCK_EX)
    return f


def ensure_makefile():
    mk = os.path.join(COQ, 'Makefile')
    proj = os.path.join(COQ, '_CoqProject')
    files = sorted(os.path.relpath(os.path.join(d, f), COQ)
                   for sub in ('gen', 'model', 'proofs', 'props')
                   for d, _, fs in os.walk(os.path.join(COQ, sub)) for f in fs if f.endswith('.v'))
    txt = '-Q . Sup\n' + '\n'.join(files) + '\n'
    changed = write_if_changed(proj, txt)
    if changed or not os.path.exists(mk):
        subprocess.run(['coq_makefile', '-f', '_CoqProject', '-o', 'Makefile'], cwd=COQ, check=True,
                       stdout=subprocess.DEVNULL, stderr=subprocess.DEVNULL)


def make(targets, timeout=1500):
    """ full .vo build of the given targets (relative to coq/), returns captured output """
    ensure_makefile()
    cmd = ['timeout', str(timeout), 'make', '-j', str(NPROC), '--no-print-directory'] + list(targets)
    p = subprocess.run(cmd, cwd=COQ, stdout=subprocess.PIPE, stderr=subprocess.STDOUT, text=True)
    if p.returncode != 0:
        raise BuildError('make ' + ' '.join(targets), p.stdout)
    return p.stdout


def coqc(path, timeout=600):
    """ compile one file outside the project tree (cases), with the project on the load path """
    cmd = ['timeout', str(timeout), 'coqc', '-Q', COQ, 'Sup', path]
    p = subprocess.run(cmd, stdout=subprocess.PIPE, stderr=subprocess.STDOUT, text=True,
                       cwd=os.path.dirname(path))
    if p.returncode != 0:
        raise BuildError('coqc ' + path, p.stdout)
    return p.stdout


HYGIENE_RE = re.compile(r'\b(Admitted|admit|Axiom|Axioms|Parameter|Parameters|Conjecture|Hypothesis|Variable)\b'
                        r'|Unset Guard|bypass_check|type-in-type|impredicative-set|Admit Obligations')


def strip_coq_comments(text):
    """ remove (possibly nested, multi-line) Coq comments, keeping newlines so that line numbers survive;
    string literals are respected """
    out = []
    depth = 0
    i = 0
    in_str = False
    n = len(text)
    while i < n:
        c = text[i]
        if depth == 0 and c == '"':
            in_str = not in_str
            out.append(c)
            i += 1
        elif not in_str and text.startswith('(*', i):
            depth += 1
            i += 2
        elif not in_str and depth > 0 and text.startswith('*)', i):
            depth -= 1
            i += 2
        else:
            if depth == 0 or c == '\n':
                out.append(c)
            i += 1
    return ''.join(out)


def hygiene():
    """ static scan of the whole development; returns offending lines (must be empty).
    Hypothesis/Variable are allowed only inside a Section (nesting counted). Comments are ignored. """
    bad = []
    for sub in ('model', 'proofs', 'props', 'gen'):
        for d, _, fs in os.walk(os.path.join(COQ, sub)):
            for fn in sorted(fs):
                if not fn.endswith('.v'):
                    continue
                with open(os.path.join(d, fn)) as f:
                    text = f.read()
                depth = 0
                for n, code in enumerate(strip_coq_comments(text).split('\n'), 1):
                    if re.match(r'\s*Section\b', code):
                        depth += 1
                    if re.match(r'\s*End\b', code) and depth:
                        depth -= 1
                    for m in HYGIENE_RE.finditer(code):
                        w = m.group(0)
                        if w in ('Hypothesis', 'Variable') and depth > 0:
                            continue
                        bad.append(f'{fn}:{n}: {code.strip()[:120]}')
    return bad


def strip_comments(line):
    return re.sub(r'\(\*.*?\*\)', '', line)


def parse_assumptions(output):
    """ Print Assumptions output -> list (one per command, in order) of axiom-name lists """
    blocks = []
    cur = None
    for line in output.splitlines():
        if line.startswith('Closed under the global context'):
            blocks.append([])
            cur = None
        elif line.startswith('Axioms:'):
            cur = []
            blocks.append(cur)
        elif cur is not None and line and not line[0].isspace():
            cur.append(line.split(':')[0].split()[0])
    return blocks


def coqc_print_assumptions(props_file, thms):
    """ compile a scratch file that prints the assumptions of every theorem of the props file """
    mod = 'Sup.' + props_file[:-2].replace('/', '.')
    wd = os.path.join(BUILD, 'assum-%d' % os.getpid())
    os.makedirs(wd, exist_ok=True)
    path = os.path.join(wd, 'Assum.v')
    with open(path, 'w') as f:
        f.write(f'Require Import {mod}.\n')
        for t in thms:
            f.write(f'Print Assumptions {t}.\n')
    try:
        out = coqc(path)
    finally:
        shutil.rmtree(wd, ignore_errors=True)
    blocks = parse_assumptions(out)
    if len(blocks) != len(thms):
        raise BuildError('Print Assumptions', out)
    return blocks


def coqchk(props_file, timeout=3000):
    """ independent checker on the compiled props module; returns the axioms section it prints """
    mod = 'Sup.' + props_file[:-2].replace('/', '.')
    cmd = ['timeout', str(timeout), 'coqchk', '-silent', '-o', '-Q', COQ, 'Sup', mod]
    p = subprocess.run(cmd, stdout=subprocess.PIPE, stderr=subprocess.STDOUT, text=True, cwd=COQ)
    if p.returncode != 0:
        raise BuildError('coqchk ' + mod, p.stdout)
    m = re.search(r'\* Axioms:(.*?)\n\s*\n\* Constants/Inductives relying on type-in-type', p.stdout, re.S)
    axioms = ' '.join(m.group(1).split()) if m else 'unparsed'
    for key in ('type-in-type: <none>', 'unsafe (co)fixpoints: <none>', 'positivity is assumed: <none>'):
        if key not in ' '.join(p.stdout.split()):
            raise BuildError('coqchk reports unsafe features for ' + mod, p.stdout)
    return axioms


def theorems_of(props_file):
    with open(props_file) as f:
        txt = strip_coq_comments(f.read())
    return re.findall(r'^\s*(?:Theorem|Lemma|Corollary|Example)\s+([A-Za-z0-9_\']+)', txt, re.M)


# ---------------------------------------------------------------- cases evaluation
def parse_nat_list(output, name):
    """ read the result printed by `Eval vm_compute in (name ...)` preceded by a `Print name marker` line:
    we print markers ourselves with Coq strings to avoid depending on the pretty-printer's wrapping. """
    m = re.search(r'@@' + re.escape(name) + r'@@(.*?)@@end@@', output, re.S)
    if not m:
        raise BuildError('parse ' + name, output)
    body = m.group(1)
    body = body.replace('\n', ' ')
    m2 = re.search(r'=\s*\[(.*?)\]\s*:', body, re.S)
    if not m2:
        raise BuildError('parse list ' + name, output)
    inner = m2.group(1).strip()
    if not inner:
        return []
    return [int(tok.replace('%nat', '').strip()) for tok in inner.split(';')]


def eval_block(name, expr):
    """ Coq commands printing `@@name@@ = [...] : list nat @@end@@` """
    return (
        f'Goal True. idtac "@@{name}@@". Abort.\n'
        f'Eval vm_compute in ({expr}).\n'
        f'Goal True. idtac "@@end@@". Abort.\n')


def shard(seq, n):
    return [seq[i:i + n] for i in range(0, len(seq), n)]


def run_case_shards(workdir, prelude, case_type, case_texts, evals, shard_size=400, timeout=600):
    """ case_texts: list of Coq terms (one per case). evals: {name: function name applied to `cases`}.
    Returns {name: sorted list of global indexes}. One coqc per shard, in parallel. """
    os.makedirs(workdir, exist_ok=True)
    shards = shard(case_texts, shard_size)
    files = []
    for k, sh in enumerate(shards):
        path = os.path.join(workdir, f'cases_{k}.v')
        with open(path, 'w') as f:
            f.write(prelude + '\n')
            # one definition per case (fast to parse and to type-check), then the list
            for j, t in enumerate(sh):
                f.write(f'Definition c{j} : {case_type} := {t}.\n')
            f.write(f'Definition cases : list ({case_type}) := ')
            f.write(''.join(f'(cons c{j} ' for j in range(len(sh))) + 'nil' + ')' * len(sh) + '.\n')
            for name, fn in evals.items():
                f.write(eval_block(name, f'{fn} cases'))
        files.append(path)
    procs = []
    results = {name: [] for name in evals}
    pending = list(enumerate(files))
    running = []
    outputs = {}

    def start(k, path):
        cmd = ['timeout', str(timeout), 'coqc', '-Q', COQ, 'Sup', path]
        return subprocess.Popen(cmd, stdout=subprocess.PIPE, stderr=subprocess.STDOUT, text=True, cwd=workdir)

    while pending or running:
        while pending and len(running) < NPROC:
            k, path = pending.pop(0)
            running.append((k, path, start(k, path)))
        k, path, p = running.pop(0)
        out, _ = p.communicate()
        if p.returncode != 0:
            for _, _, q in running:
                q.kill()
            raise BuildError('coqc ' + path, out)
        outputs[k] = out
    for k in sorted(outputs):
        for name in evals:
            for idx in parse_nat_list(outputs[k], name):
                results[name].append(k * shard_size + idx)
    return results


# ---------------------------------------------------------------- known findings
def load_known_findings():
    path = os.path.join(ROOT, 'known_findings.json')
    with open(path) as f:
        return json.load(f)


# ---------------------------------------------------------------- evidence & verdict
def write_evidence(prop_id, tier, seed, coverage, wall_s, violations, assumptions):
    os.makedirs(EVIDENCE, exist_ok=True)
    ev = {'property_id': prop_id, 'tier': tier, 'seed': seed, 'level': 'proof', 'coverage': coverage,
          'assumptions': assumptions, 'wall_s': round(wall_s, 2), 'violations': violations}
    path = os.path.join(EVIDENCE, f'{prop_id}.json')
    with open(path, 'w') as f:
        json.dump(ev, f, indent=1, default=str)
    return path


def write_replay(prop_id, payload):
    os.makedirs(REPLAY, exist_ok=True)
    blob = json.dumps(payload, indent=1, default=str, sort_keys=True)
    h = hashlib.sha1(blob.encode()).hexdigest()[:10]
    path = os.path.join(REPLAY, f'{prop_id}-{h}.json')
    with open(path, 'w') as f:
        f.write(blob)
    return path
