"""T3 driver for Prediction.v (property C19): the real StarterModel (test_start_application / test_start_processes) and
the real Starter of supvisors/commander.py on real Context / ApplicationStatus / ProcessStatus objects.

Set-up: the World of drv_sequencer (svenv.make_supvisors(): real options / mapper / Context / StateModes, real Starter,
Stopper, FiniteStateMachine, the real SupervisorListener.force_process_state bound to a small object, recording fake
rpc_handler). On top of it, by data: identifiers rules (explicit lists, '@' / '#' pending rules as the parser leaves
them), disabled programs, earlier process events (so that processes are running elsewhere, have exited expectedly or
not, are FATAL ...), instance states, optionally a stop of another application in progress in the real Stopper.

One case:
  1. build the context; deep snapshot of everything Supvisors could report (every info dictionary, every ProcessStatus
     attribute, rules, application states and sequences, instance loads, Starter / Stopper jobs, state-modes flags, the
     log of every rpc_handler call, supervisor_data.update_extra_args calls, failure_handler calls);
  2. k predictions (1..5) through the real StarterModel; 3. snapshot again;
  4. REBUILD the identical context (checked: same snapshot), issue the real start (Starter.start_application, or the
     loop of rpcinterface.start_process) and feed it with "every process starts normally": STARTING, RUNNING, plus
     EXITED (expected) when wait_exit, delivered first-in first-out like StarterModel.event_list; record the start
     requests.
Purity, repeatability and prediction = real are evaluated in Coq from these recordings (Prediction.v::spec_violations);
`mismatches` compares them with the model (value machine in both modes + heap layer).
"""
import hashlib
import json
import os

import svenv
import drv_sequencer as ds
from drv_sequencer import ident, num, aname, pname, anum, PSTATES, CODE
from common import C, app, coq, some
from propcheck import Suite

N_INST = 6
NORES = 'No resource available'


def digest(x):
    return int(hashlib.sha1(repr(x).encode()).hexdigest()[:10], 16)


_PATCHED = False


def world():
    """ the World of drv_sequencer, with a rpc_handler that records EVERY call """
    global _PATCHED
    w = ds.world()
    if not _PATCHED:
        def recording_getattr(self, name):
            if name.startswith('__'):
                raise AttributeError(name)

            def other(*args, **kwargs):
                self.outs.append(('other', name))
                return None
            return other
        ds.Recorder.__getattr__ = recording_getattr
        _PATCHED = True
    return w


# ---------------------------------------------------------------- building the situation
def build(w, inp):
    from supvisors.commander import StarterModel
    from supvisors.ttypes import SupvisorsInstanceStates, DistributionRules
    cf = inp['cf']
    w.reset(cf)
    supv = w.supv
    ctx = supv.context
    for a, p, ids in inp.get('idents', []):
        process = ctx.applications[aname(a)].processes[pname(p)]
        process.rules.identifiers = ['*'] if ids == '*' else [ident(i) for i in ids]
    for a, p, sign in inp.get('signs', []):
        application = ctx.applications[aname(a)]
        process = application.processes[pname(p)]
        group = application.process_groups[process.program_name]
        if sign == '@':
            process.rules.at_identifiers, process.rules.identifiers = ['*'], []
            group.at_identifiers = ['*']
        else:
            process.rules.hash_identifiers, process.rules.identifiers = ['*'], []
            group.hash_identifiers = ['*']
    for a, p, i in inp.get('disabled', []):
        ctx.applications[aname(a)].processes[pname(p)].update_disability(ident(i), True)
    now = cf['now']
    for o in inp.get('prologue', []):
        now += 1
        svenv.CLOCK.now = now
        w.apply(('Event', o[0], o[1], o[2], o[3], o[4], now))
    for i, st in inp.get('inst_states', []):
        ctx.instances[ident(i)]._state = SupvisorsInstanceStates(st)
    # extra arguments left by earlier start_args requests on every other process: part of what Supvisors reports
    # (get_process_info) and of what the local Supervisor would run
    for application in ctx.applications.values():
        for k, process in enumerate(application.processes.values()):
            if k % 2 == 0:
                process._extra_args = '-x 5'
    w.rec.outs = []
    w.rec.oracle = []
    calls = {'extra_args': 0}

    def update_extra_args(namespec, args):
        calls['extra_args'] += 1
    supv.supervisor_data.update_extra_args = update_extra_args
    supv.failure_handler.reset_mock()
    w.calls = calls
    busy = inp.get('busy_stop')
    if busy:
        svenv.CLOCK.now = now + 1
        supv.stopper.stop_application(ctx.applications[aname(busy)])
    supv.starter_model = StarterModel(supv)
    svenv.CLOCK.now = now + 2
    for application in ctx.applications.values():
        assert application.rules.distribution == DistributionRules.ALL_INSTANCES
    return now + 2


# ---------------------------------------------------------------- deep snapshot
def enc_out(o):
    return digest(tuple(o))


def info_view(info):
    rest = sorted((k, repr(v)) for k, v in info.items() if k not in ('state', 'expected', 'disabled'))
    return (PSTATES[int(info['state'])], bool(info['expected']), bool(info['disabled']), digest(rest))


def rules_view(process):
    r = process.rules

    def nums(l):
        return [0 if x == '*' else (num(x) if x.startswith('10.0.0.') else 99) for x in (l or [])]
    other = digest((r.start_sequence, r.stop_sequence, r.required, r.wait_exit, r.expected_load,
                    int(r.starting_failure_strategy.value), int(r.running_failure_strategy.value)))
    return nums(r.identifiers) + [-1] + nums(r.at_identifiers) + [-1] + nums(r.hash_identifiers) + [-1, other]


def snapshot(w):
    """ (apps, loads, jobs, reqs, rules) : everything Supvisors reports, canonical """
    supv = w.supv
    ctx = supv.context
    apps = []
    rules = []
    for application in ctx.applications.values():
        procs = []
        for process in application.processes.values():
            infos = [(num(i), info_view(info)) for i, info in process.info_map.items()]
            rest = digest((process.forced_reason, process.expected_exit, process.last_event_mtime, process.extra_args,
                           process.program_name, process.process_index, process.namespec,
                           sorted(vars(process).keys())))
            procs.append((anum(process.process_name), PSTATES[int(process.state)],
                          None if process.forced_state is None else PSTATES[int(process.forced_state)],
                          sorted(num(x) for x in process.running_identifiers), infos, rest))
            rules.append((anum(application.application_name), anum(process.process_name), rules_view(process)))
        arest = digest((application.major_failure, application.minor_failure,
                        [(k, [p.process_name for p in v]) for k, v in application.start_sequence.items()],
                        [(k, [p.process_name for p in v]) for k, v in application.stop_sequence.items()],
                        str(application.rules), application.never_started()))
        apps.append((anum(application.application_name), int(application.state.value), arest, procs))
    loads = [(num(i), int(status.get_load())) for i, status in ctx.instances.items()]
    st = supv.stopper
    jobs = (w.enc_cmdr(supv.starter) + [-7] + w.enc_cmdr(st) + [-7]
            + w.enc_list(lambda kv: [anum(kv[0]), int(kv[1][0].value)], st.application_start_requests.items())
            + w.enc_list(lambda kv: [anum(kv[0]), len(kv[1])], st.process_start_requests.items())
            + [1 if supv.state_modes.starting_jobs else 0, 1 if supv.state_modes.stopping_jobs else 0,
               int(supv.fsm.state.value)])
    reqs = [enc_out(o) for o in w.rec.outs] + [-7, w.calls['extra_args'], len(supv.failure_handler.mock_calls)]
    return {'apps': apps, 'loads': loads, 'jobs': jobs, 'reqs': reqs, 'rules': rules}


def model_context(w, snap):
    """ the live context in the terms of Prediction.v::cdesc (read AFTER the predictions for the candidates, so that
    pending '@' / '#' rules are seen as Starter.store_application leaves them; nothing else may differ: checked by
    the purity evaluation) """
    supv = w.supv
    ctx = supv.context
    machine = {m: k + 1 for k, m in enumerate(supv.mapper.nodes)}
    rules = {}
    for application in ctx.applications.values():
        for process in application.processes.values():
            r = process.rules
            rules[(anum(application.application_name), anum(process.process_name))] = (
                int(r.start_sequence), bool(r.required), bool(r.wait_exit), int(r.expected_load),
                int(r.starting_failure_strategy.value), [num(x) for x in process.possible_identifiers()])
    insts = [(num(i), int(status.state.value), machine.get(status.supvisors_id.local_view.machine_id))
             for i, status in ctx.instances.items()]
    nodes = [(machine[m], [num(x) for x in ids]) for m, ids in supv.mapper.nodes.items()]
    return {'rules': rules, 'insts': insts, 'nodes': nodes}


# ---------------------------------------------------------------- the requests
def predict(w, inp):
    from supvisors.ttypes import StartingStrategies
    supv = w.supv
    application = supv.context.applications[aname(inp['target'])]
    req = inp['req']
    try:
        if req[0] == 'app':
            res = supv.starter_model.test_start_application(StartingStrategies(req[1]), application)
        else:
            procs = [application.processes[pname(p)] for p in req[2]]
            res = supv.starter_model.test_start_processes(StartingStrategies(req[1]), procs)
    except Exception as exc:  # an exception IS an observable
        return ('crash', svenv.crash_kind(exc))
    out = []
    for r in res:
        if r['forced_reason'] not in ('', NORES):
            return ('crash', 'OtherError')
        out.append((anum(r['process_name']), r['state'], r['forced_reason'] == NORES,
                    sorted(num(x) for x in r['running_identifiers'])))
    return ('ok', out)


def real_start(w, inp, now):
    """ the real start from the same situation + normal events, FIFO """
    from supvisors.ttypes import StartingStrategies
    supv = w.supv
    application = supv.context.applications[aname(inp['target'])]
    req = inp['req']
    wait_exit = {anum(p.process_name): bool(p.rules.wait_exit) for p in application.processes.values()}
    places = []
    queue = []
    seen = [len(w.rec.outs)]

    def collect():
        for o in w.rec.outs[seen[0]:]:
            if o[0] == 'start':
                _, i, a, p = o
                places.append((p, i))
                queue.append((i, a, p, 'STARTING'))
                queue.append((i, a, p, 'RUNNING'))
                if wait_exit.get(p):
                    queue.append((i, a, p, 'EXITED'))
        seen[0] = len(w.rec.outs)
    try:
        if req[0] == 'app':
            supv.starter.start_application(StartingStrategies(req[1]), application)
        else:
            # rpcinterface.start_process: for process in processes: starter.start_process(strategy, process, extra_args)
            for p in req[2]:
                supv.starter.start_process(StartingStrategies(req[1]), application.processes[pname(p)], '')
        collect()
        guard = 0
        while queue and guard < 400:
            guard += 1
            i, a, p, st = queue.pop(0)
            now += 1
            svenv.CLOCK.now = now
            w.apply(('Event', i, a, p, st, True, now))
            collect()
    except Exception as exc:
        return ('crash', svenv.crash_kind(exc))
    return ('ok', places)


def run_case(inp):
    w = world()
    build(w, inp)
    before = snapshot(w)
    payloads = [predict(w, inp) for _ in range(inp['k'])]
    after = snapshot(w)
    mc = model_context(w, after)
    now = build(w, inp)
    again = snapshot(w)
    if again != before:
        raise RuntimeError('the harness does not rebuild the same situation')
    real = real_start(w, inp, now)
    return {'before': before, 'after': after, 'model': mc, 'payloads': payloads, 'real': real}


# ---------------------------------------------------------------- generation
STATES_PRIOR = ['never', 'never', 'never', 'stopped', 'exited_ok', 'exited_bad', 'fatal']


def gen_case(rng, hostile=False):
    n_apps = rng.randint(1, 3)
    n_inst_used = rng.choice([2, 2, 3, 4, 6])
    pool = sorted(rng.sample(range(1, N_INST + 1), n_inst_used))
    apps = []
    idents, signs, disabled, prologue = [], [], [], []
    heavy = rng.random() < 0.5
    for a in range(1, n_apps + 1):
        n_procs = rng.randint(1, 6 if a == 1 else 3)
        sfs_app = rng.randint(0, 2)
        procs = []
        for p in range(1, n_procs + 1):
            insts = sorted(rng.sample(pool, rng.randint(1, min(4, len(pool)))))
            start = rng.choice([0, 1, 1, 2, 2, 3])
            rules = {'start': start, 'stop': rng.choice([0, 1, 2]), 'required': rng.random() < 0.5,
                     'wait_exit': rng.random() < 0.25, 'sfs': sfs_app if rng.random() < 0.7 else rng.randint(0, 2)}
            if heavy:
                load = 120 if rng.random() < 0.04 else rng.choice([0, 10, 20, 30, 40, 60])
            else:
                load = rng.choice([0, 0, 0, 10, 30]) if rng.random() < 0.5 else 0
            procs.append({'name': p, 'rules': rules, 'startsecs': rng.choice([0, 1, 5]),
                          'stopwaitsecs': rng.choice([0, 1, 5]), 'insts': insts, 'load': load,
                          'behaviour': 'normal', 'stop_behaviour': 'normal'})
            r = rng.random()
            if r < 0.15:
                idents.append([a, p, sorted(rng.sample(range(1, N_INST + 1), rng.randint(1, 3)))])
            elif r < 0.17:
                signs.append([a, p, '@' if rng.random() < 0.6 else '#'])
            if rng.random() < 0.08:
                disabled.append([a, p, rng.choice(insts)])
        apps.append({'name': a, 'managed': rng.random() < 0.95, 'start': rng.choice([0, 1, 1, 2]),
                     'stop': rng.choice([0, 1, 2]), 'strategy': rng.randint(0, 5), 'procs': procs})
    target = 1
    kind = rng.random()
    strategy = rng.randint(0, 5)
    tprocs = apps[0]['procs']
    if kind < 0.55:
        req = ['app', strategy]
    elif kind < 0.85:
        req = ['procs', strategy, [rng.choice(tprocs)['name']]]
    else:
        req = ['procs', strategy, [pc['name'] for pc in tprocs]]       # 'group:*'
    # earlier life of the processes
    for ac in apps:
        for pc in ac['procs']:
            a, p = ac['name'], pc['name']
            i = rng.choice(pc['insts'])
            in_plan = a == target and (req[0] == 'app' and pc['rules']['start'] > 0
                                       or req[0] == 'procs' and p in req[2])
            if in_plan and not (hostile and rng.random() < 0.3):
                prior = rng.choice(STATES_PRIOR)
            else:
                prior = rng.choice(['running', 'running', 'starting', 'never', 'exited_ok', 'stopping', 'backoff'])
                if a == target and req[0] == 'app' and not hostile:
                    # the application must be STOPPED for a prediction to be accepted
                    prior = rng.choice(['never', 'stopped', 'exited_ok', 'exited_bad', 'fatal'])
            seq = {'never': [], 'stopped': [('STARTING', True), ('RUNNING', True), ('STOPPING', True), ('STOPPED', True)],
                   'exited_ok': [('STARTING', True), ('RUNNING', True), ('EXITED', True)],
                   'exited_bad': [('STARTING', True), ('RUNNING', True), ('EXITED', False)],
                   'fatal': [('STARTING', True), ('BACKOFF', True), ('FATAL', False)],
                   'running': [('STARTING', True), ('RUNNING', True)], 'starting': [('STARTING', True)],
                   'backoff': [('STARTING', True), ('BACKOFF', True)],
                   'stopping': [('STARTING', True), ('RUNNING', True), ('STOPPING', True)]}[prior]
            for st, exp in seq:
                prologue.append([i, a, p, st, exp])
    inst_states = []
    for i in pool:
        if rng.random() < 0.08:
            inst_states.append([i, rng.choice([0, 1, 2, 4, 5])])
    busy = None
    if n_apps >= 2 and rng.random() < 0.25:
        busy = rng.randint(2, n_apps)
    cf = {'insts': [(i, 3, rng.randint(0, 30)) for i in range(1, N_INST + 1)], 'apps': apps, 'now': 1000}
    return {'cf': cf, 'idents': idents, 'signs': signs, 'disabled': disabled, 'prologue': prologue,
            'inst_states': inst_states, 'busy_stop': busy, 'target': target, 'req': req,
            'k': rng.choice([1, 1, 2, 2, 3, 5])}


# ---------------------------------------------------------------- emission
def st(s):
    return C(s)


def emit_infos(infos):
    return [(i, (st(s), e, d, r)) for i, (s, e, d, r) in infos]


def emit_apps(snap):
    apps = []
    for a, state, arest, procs in snap['apps']:
        ops = [app('mkOP', n, st(s), some(st(f)) if f is not None else None, list(run), emit_infos(infos), rest)
               for n, s, f, run, infos, rest in procs]
        apps.append((a, state, arest, ops))
    return coq(apps)


def emit_rules(snap):
    return coq([(a, p, list(r)) for a, p, r in snap['rules']])


def emit_prules(mc):
    return [app('mkPRl', a, n, seq, required, wait_exit, load, sfs, list(cands))
            for (a, n), (seq, required, wait_exit, load, sfs, cands) in mc['rules'].items()]


def emit_request(req):
    if req[0] == 'app':
        return app('RApp', req[1])
    return app('RProcs', req[1], list(req[2]))


def emit_payload(p):
    if p[0] == 'crash':
        return app('@Crash payload', C(p[1]))
    return app('@Ok payload', [(n, st(s), f, list(ids)) for n, s, f, ids in p[1]])


def emit_real(r):
    if r[0] == 'crash':
        return app('@Crash (list (Z * Z))', C(r[1]))
    return app('@Ok (list (Z * Z))', [tuple(x) for x in r[1]])


class PredictionSuite(Suite):
    name = 'prediction'
    prelude = 'From Sup Require Import ProcStatus Prediction.\nOpen Scope Z_scope.'
    case_type = 'pcase'
    evals = {'mismatches': 'mismatches', 'spec_violations': 'spec_violations',
             'known:c19-prediction-ignores-predicted-load': 'known_own_load',
             'known:c19-prediction-stale-expected': 'known_stale_expected',
             'known:c19-prediction-group-order': 'known_group_order',
             'known:c19-prediction-resolves-live-rules': 'known_resolves_rules'}
    shard_size = 80
    quick_cases = 1100
    thorough_cases = 12000

    def generate(self, rng, tier):
        n = self.quick_cases if tier == 'quick' else self.thorough_cases
        return [gen_case(rng, hostile=(k % 6 == 5)) for k in range(n)]

    def corpus(self):
        path = os.path.join(os.path.dirname(__file__), 'corpus', 'prediction.json')
        if os.path.exists(path):
            with open(path) as f:
                return [self.from_description(d) for d in json.load(f)]
        return []

    def execute(self, inp):
        return run_case(inp)

    def emit(self, inp, ob):
        """ one Coq term; the parts of the two snapshots are bound once by `let` and the `after` snapshot refers to
        the same variable when its literal is identical (pure compression of the literal: a differing snapshot is
        emitted in full and compared by Coq) """
        before, after, mc = ob['before'], ob['after'], ob['model']
        parts = {'apps': (emit_apps, 'list (Z * Z * Z * list oproc)'), 'jobs': (lambda s: coq(list(s['jobs'])), 'list Z'),
                 'reqs': (lambda s: coq(list(s['reqs'])), 'list Z'), 'rules': (emit_rules, 'list (Z * Z * list Z)')}
        lets, names_after = [], {}
        for key, (fn, typ) in parts.items():
            tb, ta = fn(before), fn(after)
            lets.append(f'let {key}0 : {typ} := {tb} in')
            if ta == tb:
                names_after[key] = C(f'{key}0')
            else:
                lets.append(f'let {key}1 : {typ} := {ta} in')
                names_after[key] = C(f'{key}1')
        managed = [ac['name'] for ac in inp['cf']['apps'] if ac['managed']]
        insts = [(i, s, some(m) if m is not None else None) for i, s, m in mc['insts']]
        cd = app('mkCD', C('apps0'), managed, emit_prules(mc), insts, [(m, list(ids)) for m, ids in mc['nodes']],
                 C('jobs0'), C('reqs0'), C('rules0'))
        ov = app('mkOV', names_after['apps'], [tuple(x) for x in after['loads']], names_after['jobs'],
                 names_after['reqs'], names_after['rules'])
        body = coq(app('mkPC', cd, [tuple(x) for x in before['loads']], inp['target'], emit_request(inp['req']),
                       C(f"{inp['k']}%nat"), ov, [emit_payload(p) for p in ob['payloads']], emit_real(ob['real'])))
        return '(' + ' '.join(lets) + ' ' + body + ')'

    def describe(self, inp, ob):
        diff = [k for k in ('apps', 'loads', 'jobs', 'reqs', 'rules') if ob['before'][k] != ob['after'][k]]
        changed = []
        if 'apps' in diff:
            for (a, s0, r0, p0), (_, s1, r1, p1) in zip(ob['before']['apps'], ob['after']['apps']):
                for x, y in zip(p0, p1):
                    if x != y:
                        changed.append({'process': f'A{a}:p{x[0]}', 'before': repr(x[1:5]), 'after': repr(y[1:5])})
        return {'input': inp, 'changed_by_predictions': diff, 'changed_processes': changed[:6],
                'payloads': [list(p) for p in ob['payloads']], 'real_start_requests': list(ob['real']),
                'rules_before_after': [(x, y) for x, y in zip(ob['before']['rules'], ob['after']['rules']) if x != y][:4]}

    def from_description(self, desc):
        inp = dict(desc['input'] if 'input' in desc else desc)
        cf = dict(inp['cf'])
        cf['insts'] = [tuple(x) for x in cf['insts']]
        inp['cf'] = cf
        return inp

    def nontrivial(self, inp, ob):
        first = ob['payloads'][0]
        if first[0] != 'ok':
            return None
        placed = [(n, tuple(ids)) for n, s, f, ids in first[1] if ids]
        if not placed:
            return None
        cands = ob['model']['rules']
        if not any(len(cands[(inp['target'], n)][5]) >= 2 for n, _ in placed):
            return None
        return hash((inp['req'][0], inp['req'][1], tuple(placed), repr(ob['real']), inp['k']))

    def size_of(self, inp):
        return (sum(len(ac['procs']) for ac in inp['cf']['apps']) * 10 + len(inp['prologue']) + inp['k']
                + len(inp['idents']) + len(inp['signs']) + len(inp['disabled']) + len(inp['inst_states']))

    def shrink_candidates(self, inp):
        out = []

        def variant(**kw):
            c = json.loads(json.dumps(inp))
            c['cf']['insts'] = [tuple(x) for x in c['cf']['insts']]
            c.update(kw)
            return c
        if inp['k'] > 1:
            out.append(variant(k=1))
        if inp.get('busy_stop'):
            out.append(variant(busy_stop=None))
        apps = inp['cf']['apps']
        # drop a whole application (never the target)
        for ac in apps:
            if ac['name'] != inp['target']:
                c = variant()
                c['cf']['apps'] = [x for x in c['cf']['apps'] if x['name'] != ac['name']]
                a = ac['name']
                for key in ('idents', 'signs', 'disabled'):
                    c[key] = [x for x in c[key] if x[0] != a]
                c['prologue'] = [x for x in c['prologue'] if x[1] != a]
                if c.get('busy_stop') == a:
                    c['busy_stop'] = None
                out.append(c)
        # drop one process of an application
        for ac in apps:
            if len(ac['procs']) <= 1:
                continue
            for pc in ac['procs']:
                a, p = ac['name'], pc['name']
                if a == inp['target'] and inp['req'][0] == 'procs' and inp['req'][2] == [p]:
                    continue
                c = variant()
                for x in c['cf']['apps']:
                    if x['name'] == a:
                        x['procs'] = [y for y in x['procs'] if y['name'] != p]
                for key in ('idents', 'signs', 'disabled'):
                    c[key] = [x for x in c[key] if not (x[0] == a and x[1] == p)]
                c['prologue'] = [x for x in c['prologue'] if not (x[1] == a and x[2] == p)]
                if a == inp['target'] and c['req'][0] == 'procs':
                    c['req'] = [c['req'][0], c['req'][1], [q for q in c['req'][2] if q != p]]
                out.append(c)
        for key in ('idents', 'signs', 'disabled', 'inst_states'):
            for k in range(len(inp[key])):
                out.append(variant(**{key: inp[key][:k] + inp[key][k + 1:]}))
        # earlier life: drop all the events of one process
        seen = set()
        for x in inp['prologue']:
            if (x[1], x[2]) not in seen:
                seen.add((x[1], x[2]))
                out.append(variant(prologue=[y for y in inp['prologue'] if (y[1], y[2]) != (x[1], x[2])]))
        return out

    def distribution(self, inputs, observeds):
        kinds, ks, strat, groups, div, placed = {}, {}, {}, {}, 0, {}
        changed = {}
        crashes = 0
        for inp, ob in zip(inputs, observeds):
            req = inp['req']
            kind = 'application' if req[0] == 'app' else ('one process' if len(req[2]) == 1 else 'group:*')
            kinds[kind] = kinds.get(kind, 0) + 1
            ks[str(inp['k'])] = ks.get(str(inp['k']), 0) + 1
            strat[str(req[1])] = strat.get(str(req[1]), 0) + 1
            tapp = [ac for ac in inp['cf']['apps'] if ac['name'] == inp['target']][0]
            g = len({pc['rules']['start'] for pc in tapp['procs'] if pc['rules']['start'] > 0})
            groups[str(g)] = groups.get(str(g), 0) + 1
            first = ob['payloads'][0]
            if first[0] == 'ok':
                n = sum(1 for x in first[1] if x[3])
                placed[str(min(n, 4))] = placed.get(str(min(n, 4)), 0) + 1
                if ob['real'][0] == 'ok' and sorted((x[0], i) for x in first[1] for i in x[3]) != sorted(ob['real'][1]):
                    div += 1
            else:
                crashes += 1
            for k in ('apps', 'loads', 'jobs', 'reqs', 'rules'):
                if ob['before'][k] != ob['after'][k]:
                    changed[k] = changed.get(k, 0) + 1
        return {'request_kinds': kinds, 'repetitions': ks, 'strategies': strat, 'sequence_groups_of_target': groups,
                'processes_placed_by_prediction(4=4+)': placed, 'prediction_differs_from_real_start': div,
                'snapshot_components_changed': changed, 'prediction_exceptions': crashes,
                'busy_stopper': sum(1 for i in inputs if i.get('busy_stop')),
                'pending_sign_rules': sum(1 for i in inputs if i.get('signs'))}
