from drv_process import ProcessSuite


class Prop:
    ID = 'C11'
    GEN = ['proc']
    MODEL_TARGETS = ['model/ProcStatus.vo']
    TARGETS = ['props/C11.vo']
    PROPS_FILE = 'props/C11.v'
    SUITES = [ProcessSuite()]
    RULE = ('random histories of add_info/update_info/force_state/invalidate/remove/disability/tick over 1-5 '
            'instances (4 of 5 mostly-valid, 1 of 5 hostile), executed on the real ProcessStatus; a case is '
            'non-trivial when it reaches a conflict, a forced state or an instance loss; distinct by final '
            'observable and length')
    ASSUMPTIONS = ['time.monotonic is the harness logical clock', 'payload times are integers']
    TRUSTED = ['modelled (not verified): ProcessStatus status synthesis; description strings, extra_args, '
               'uptime and pid are not modelled']
