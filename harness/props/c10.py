from drv_sequencer import SequencerC10
from drv_node import NodeSuite


class Prop:
    ID = 'C10'
    GEN = ['proc', 'enums', 'seq', 'node']
    MODEL_TARGETS = ['model/Sequencer.vo', 'model/Node.vo', 'model/NodeSpec.vo']
    TARGETS = ['props/C10.vo']
    PROPS_FILE = 'props/C10.v'
    SUITES = [SequencerC10(),
              # the call site: which lost instances the FSM reports to the Starter / Stopper (JobsInvalidation output)
              NodeSuite(evals={'mismatches': 'mismatches'}, quick=(500, 60), thorough=(3000, 150))]
    RULE = ('closed-loop generated histories on the real Starter + Stopper (1-4 applications x 1-6 processes, start/stop sequences 0..4 at both levels, wait_exit / required / starting_failure_strategy random, startsecs / stopwaitsecs in {0,1,5,6,60}, expected loads making some placements impossible): scripted process behaviours (normal, slow, BACKOFF k times then FATAL or RUNNING, early exit expected / unexpected, never answering, stuck STARTING / STOPPING, immediate FATAL), each event dropped with probability 0 / 0.1 / 0.3, random interleaving with instance ticks, periodic checks, user requests (start/stop/restart application and process, start/stop applications, abort) and loss / return of instances (context part and commander part separated by an optional check); 1 case of 5 adds hostile events. A case is non-trivial when its rules hold at least two sequence groups and the history holds a forced state, an instance loss or a FATAL / EXITED event; distinct by the emitted request trace and length. node suite: model = implementation on single-instance control-plane histories, incl. the list of lost instances the FSM hands to starter/stopper.on_instances_invalidation')
    ASSUMPTIONS = ['DistributionRules.ALL_INSTANCES only (ApplicationStartJobs.before is the identity); placement '
                   '(get_supvisors_instance) and the iteration order of the Python set running_identifiers are oracle '
                   'inputs recorded from the real code, the theorems quantify over all oracle answers',
                   'no rules file: rules are set by data on the real ProcessRules / ApplicationRules; no status formula',
                   'the local instance is not the Master (the running-failure branch of fsm.on_process_state_event is '
                   'C06 matter); failure_handler is not involved',
                   'spec evaluator (Coq, on the observed trace only): a request is outstanding from its emission until the '
                   'property counts it done or given up (RUNNING / expected exit with wait_exit / failing report / forced '
                   'state published / host lost / abort); at every application-level request all outstanding requests '
                   'must carry the same sequence number (process and application level), sequence numbers may only '
                   'go the wrong way when a further plan was requested, stop groups are emitted in one step, stops only '
                   'go where the process is listed; requests made for one process by the user (start_process / '
                   'stop_process / restart_process) are outside the sequencing statements (one mark per request, '
                   'consumed by the next request for that process)',
                   'ordering theorems: per step for every state (SEQ-shape: extremal group / extremal application sequence, '
                   'only when nothing is current), per run for the emission facts, and along whole histories from the '
                   'initial state of any configuration under the NAMED boolean hypotheses checked on every configuration '
                   'of the run (guard_all): H_no_reentrant_next (a job pops no group while one of its groups is still '
                   'processed; never violated on generated histories), H_no_add_commands (start_process / stop_process '
                   'only for an application without job, i.e. no command added to an existing plan; ~11% of generated '
                   'histories leave it) and H_no_reentrant_delete (a job leaves current_jobs only with nothing planned and '
                   'no group in progress; ~2% leave it: the class of the known finding); without the last one '
                   'application_order / job_bound are refuted (known findings)']
    TRUSTED = ['modelled (not verified): commander.py Starter/Stopper/ApplicationJobs/ProcessCommand, the slice of '
               'Context.on_process_state_event / invalidate_failed, ProcessStatus synthesis (ProcStatus.v), '
               'ApplicationStatus.update (required-based); extra_args, load requests, distribution rules other than '
               'ALL_INSTANCES, StarterModel are not modelled']
