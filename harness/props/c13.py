from drv_node import NodeSuite
import props.c02 as base


class Prop:
    ID = 'C13'
    GEN = ['enums', 'node']
    MODEL_TARGETS = ['model/Node.vo', 'model/NodeSpec.vo', 'model/Cluster.vo', 'model/ClusterSpec.vo']
    TARGETS = ['props/C13.vo', 'props/C13cluster.vo', 'props/C12.vo']
    PROPS_FILE = 'props/C13.v'
    PROPS_FILES = ['props/C13.v', 'props/C13cluster.v']
    SUITES = [NodeSuite(evals={'mismatches': 'mismatches', 'spec_violations': 'spec_violations_c13'})]
    RULE = base.Prop.RULE
    ASSUMPTIONS = base.Prop.ASSUMPTIONS
    TRUSTED = base.Prop.TRUSTED
