from drv_node import NodeSuite
from drv_cluster import ClusterSuite
from drv_replication import ReceiverSuite
import props.c02 as base


class Prop:
    ID = 'C13'
    GEN = ['enums', 'node', 'proc']
    MODEL_TARGETS = ['model/Node.vo', 'model/NodeSpec.vo', 'model/Cluster.vo', 'model/ClusterSpec.vo', 'model/Replication.vo']
    TARGETS = ['props/C13.vo', 'props/C13cluster.vo', 'props/C12.vo']
    PROPS_FILE = 'props/C13.v'
    PROPS_FILES = ['props/C13.v', 'props/C13cluster.v']
    SUITES = [NodeSuite(evals={'mismatches': 'mismatches', 'spec_violations': 'spec_violations_c13'},
                        quick=(800, 60), thorough=(5000, 150)),
              # the handshake glue (real SupervisorProxy.check_instance / _is_authorized against the real remote
              # RPCInterface, slow handshakes included) is tied to Cluster.v here
              ClusterSuite(evals={'mismatches': 'cmismatches'}, quick=(60, 150), thorough=(400, 300)),
              # process-plane clause: events only from admitted peers (model/Replication.v, theorems in props/C12.v)
              ReceiverSuite()]
    RULE = base.Prop.RULE
    ASSUMPTIONS = base.Prop.ASSUMPTIONS
    TRUSTED = base.Prop.TRUSTED
