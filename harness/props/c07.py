from drv_node import NodeSuite
import props.c02 as base


class Prop:
    ID = 'C07'
    GEN = ['enums', 'node']
    MODEL_TARGETS = ['model/Node.vo', 'model/NodeSpec.vo']
    TARGETS = ['props/C07.vo']
    PROPS_FILE = 'props/C07.v'
    SUITES = [NodeSuite(evals={'mismatches': 'mismatches', 'spec_violations': 'spec_violations_c07t'})]
    RULE = base.Prop.RULE
    ASSUMPTIONS = base.Prop.ASSUMPTIONS
    TRUSTED = base.Prop.TRUSTED
