from drv_eligibility import EligibilitySuite


class Prop:
    ID = 'C04'
    GEN = ['proc', 'enums', 'seq']
    MODEL_TARGETS = ['model/Eligibility.vo']
    TARGETS = ['props/C04.vo']
    PROPS_FILE = 'props/C04.v'
    SUITES = [EligibilitySuite()]
    RULE = ('closed-loop runs of the real Starter (sub-classed only to observe) on 1-4 applications x 1-4 programs: '
            '6 instances of which 2-6 are seen RUNNING (the others STOPPED/CHECKING/CHECKED/FAILED/ISOLATED) on 1-3 nodes '
            '(several instances per node, node lists in handshake order), 0-2 stereotypes; per program: expected_load '
            '0-100, start_sequence 0-2 (0 = on demand), identifiers rule (\'*\' or a list of identifiers / nick '
            'identifiers / stereotypes / unknown names / repetitions), known on all or a subset of the instances, '
            'disabled on a subset, 7 % already running; per application: distribution ALL_INSTANCES / SINGLE_INSTANCE / '
            'SINGLE_NODE, identifiers rule, starting strategy (all six), start sequence (70 % of the runs: the same '
            'for all, so that the application jobs are popped together), managed or not; ballast load already '
            'running on RUNNING/CHECKED instances. Triggers: start_applications, start_application, start_process '
            '(immediate, or 2-6 deferred triggers in a random order followed by one next()), repeated during the run; '
            'the scripted world answers each request (STARTING/RUNNING, slow, FATAL, never, stuck STARTING, expected '
            'exit), interleaved with ticks and periodic checks. Every process_job / before / add_commands call is one '
            'recorded decision with the view at that moment. A run is non-trivial when a request was sent while '
            'another instance was RUNNING too or while requests were pending, or a \'No resource available\' was '
            'decided; distinct by the trace of decisions (application, program, distribution, strategy, outcome)')
    ASSUMPTIONS = ['instance states, machine ids, mapper.nodes, mapper.stereotypes are set by data on the real objects '
                   'and do not change during a run (no instance is lost or comes back, no program is enabled/disabled '
                   'during a run: the property quantifies over rules, configurations, loads and trigger orders)',
                   'the view given to the Coq spec is read independently of the code under test: instance load = sum of '
                   'expected_load over the processes whose info_map state on that instance is STARTING/RUNNING/BACKOFF '
                   '(not get_load()), node = local_view.machine_id of each instance (not mapper.nodes), pending '
                   'requests = the driver\'s log of send_start_process calls not yet answered by a process event or a '
                   'forced state (not get_load_requests()); "requested" is read literally: a command that has an '
                   'identifier but whose request is not sent yet is not a pending request',
                   'the applicable identifiers rule is chosen in Coq from the property text (program\'s rule for '
                   'ALL_INSTANCES, application\'s rule otherwise); hash (\'#\', \'@\') rules are not generated (C18)',
                   'reverse direction of \'No resource available\' (a FATAL only when nobody qualifies) is checked for '
                   'ALL_INSTANCES with the requests the code counts (the job\'s own) and, for the LOCAL strategy, the '
                   'requesting instance only; for non-distributed applications a \'No resource\' is always accepted '
                   '(the property only forbids sending)',
                   'known classes are decided per request in Coq (Eligibility.decision_verdict): '
                   'c04-cross-application-pending-load = everything holds but the node cap, and the cap holds once the '
                   'load placed by starts of OTHER applications that were pending at, or requested after, the trigger '
                   'of this job is left out; c04-single-instance-on-demand-load = SINGLE_INSTANCE, program outside the '
                   'start sequence, everything holds but the cap (still failing without that load); '
                   'c03-noresource-reentrancy = the request repeats or does not count an unanswered request of the same '
                   'application sent by a job the Starter dropped (re-entrant Commander.next)',
                   'theorems: start_target_eligible is proved for ALL_INSTANCES under H_own_requests_are_all (partial); '
                   'for SINGLE_INSTANCE / SINGLE_NODE eligibility is proved at assignment time (before / '
                   'on_command_added) for the job\'s own requests, not at emission time: the emission-time statement is '
                   'checked by the Coq spec evaluator on every generated run but not proved']
    TRUSTED = ['modelled (not verified): SupvisorsMapper.filter, ProcessStatus.possible_identifiers, '
               'ApplicationStatus.possible_identifiers / possible_node_identifiers / get_start_sequence_expected_load, '
               'ApplicationJobs.get_command / add_commands, ApplicationStartJobs.process_job; placement imported from '
               'Strategy.v (C14), sequencing cited from Sequencer.v (C03); not modelled: extra_args, wait_ticks, '
               'hash rules resolution, Starter-level bookkeeping (which job is popped when)']
