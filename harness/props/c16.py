from drv_node import NodeSuite
import props.c02 as base


class Prop:
    ID = 'C16'
    GEN = ['enums', 'node']
    MODEL_TARGETS = ['model/Node.vo', 'model/NodeSpec.vo']
    TARGETS = ['props/C16.vo']
    PROPS_FILE = 'props/C16.v'
    SUITES = [NodeSuite(evals={'mismatches': 'mismatches', 'spec_violations': 'spec_violations_c16k', 'known:set-state-livelock': 'known_c16_livelock'})]
    RULE = base.Prop.RULE
    ASSUMPTIONS = base.Prop.ASSUMPTIONS
    TRUSTED = base.Prop.TRUSTED
