from drv_node import NodeSuite
from drv_process import ProcessSuite
from drv_sequencer import SequencerC16
from drv_handler import InvalidationSuite
from drv_appmember import AppMemberSuite
import props.c02 as base


class Prop:
    ID = 'C16'
    GEN = ['enums', 'node', 'proc', 'seq']
    MODEL_TARGETS = ['model/Node.vo', 'model/NodeSpec.vo', 'model/ProcStatus.vo', 'model/Sequencer.vo', 'model/FailureHandler.vo',
                     'model/AppMember.vo']
    TARGETS = ['props/C16.vo', 'props/C16term.vo', 'props/C16app.vo', 'props/C11.vo', 'props/C12.vo']
    PROPS_FILE = 'props/C16.v'
    PROPS_FILES = ['props/C16.v', 'props/C16term.v', 'props/C16app.v']
    SUITES = [NodeSuite(evals={'mismatches': 'mismatches', 'spec_violations': 'spec_violations_c16k', 'known:set-state-livelock': 'known_c16_livelock'},
                        thorough=(3000, 150)),
              ProcessSuite(), SequencerC16(), InvalidationSuite(), AppMemberSuite()]
    RULE = base.Prop.RULE
    ASSUMPTIONS = base.Prop.ASSUMPTIONS
    TRUSTED = base.Prop.TRUSTED
