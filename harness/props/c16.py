from drv_node import NodeSuite
from drv_process import ProcessSuite
import props.c02 as base


class Prop:
    ID = 'C16'
    GEN = ['enums', 'node', 'proc']
    MODEL_TARGETS = ['model/Node.vo', 'model/NodeSpec.vo', 'model/ProcStatus.vo']
    TARGETS = ['props/C16.vo', 'props/C16term.vo', 'props/C11.vo', 'props/C12.vo']
    PROPS_FILE = 'props/C16.v'
    PROPS_FILES = ['props/C16.v', 'props/C16term.v']
    SUITES = [NodeSuite(evals={'mismatches': 'mismatches', 'spec_violations': 'spec_violations_c16k', 'known:set-state-livelock': 'known_c16_livelock'}),
              ProcessSuite()]
    RULE = base.Prop.RULE
    ASSUMPTIONS = base.Prop.ASSUMPTIONS
    TRUSTED = base.Prop.TRUSTED
