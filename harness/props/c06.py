from drv_handler import HandlerSuite, InvalidationSuite, FeedSuite, CrashFeedSuite
from drv_node import NodeSuite


class Prop:
    ID = 'C06'
    GEN = ['enums', 'node']
    MODEL_TARGETS = ['model/FailureHandler.vo', 'model/Node.vo', 'model/NodeSpec.vo']
    TARGETS = ['props/C06.vo', 'props/C06node.vo']
    PROPS_FILE = 'props/C06.v'
    PROPS_FILES = ['props/C06.v', 'props/C06node.v']
    SUITES = [HandlerSuite(), InvalidationSuite(), FeedSuite(), CrashFeedSuite(),
              NodeSuite(evals={'mismatches': 'mismatches', 'spec_violations': 'spec_violations_c06n',
                               'known:F9b-lost-at-reelection': 'known_c06_loss_at_reelection'},
                        quick=(500, 60), thorough=(3000, 150))]
    RULE = ('failurehandler: random sequences (<= 30 quick / <= 120 thorough operations) of add_job / add_default_job / '
            'trigger_jobs / abort on the real RunningFailureHandler over 1-3 real applications x 1-5 real processes '
            'with mixed running failure strategies and start sequences (bursts of default jobs = an instance lost, '
            'application stopped/running flips, starter/stopper job names scripted idle/busy; 1 case in 6 hostile: '
            'processes of an application absent from the context, unknown busy names); non-trivial = at least two '
            'different (effective) strategies hit one application between two triggers, distinct by final observation '
            'and length. invalidation: random starter/stopper pipes (0-2 current and 0-2 planned application jobs each, '
            '0-3 current and 0-3 planned commands) on the real Starter/Stopper.on_instances_invalidation; non-trivial = '
            'some lost process is left to its job and some is handed over. feed_loss / feed_crash: exhaustive tables '
            '(18 points: state x role x loss, 8 evaluations each; 96 points: strategy x Master x crashed x forced x '
            'Master in OPERATION/ELECTION) of who calls add_default_job and whether RESTART/SHUTDOWN is entered, on the '
            'real FiniteStateMachine')
    ASSUMPTIONS = ['the start sequence membership of a process and its application do not change while jobs are pending '
                   '(static context in the model)',
                   'application.stopped() is set by data (ApplicationStatus._state) and read back from the real object',
                   'Starter/Stopper are recording fakes for the handler suite: what stop_application / restart_application '
                   '/ restart_process then do belongs to C03/C09/C04',
                   'invalidation suite: Commander.next is disabled, pipes are built by hand with real command and job classes',
                   'feed suites: the FSM is forced into its state by data (state_modes, instance states, master identifier)']
    TRUSTED = ['modelled (not verified): RunningFailureHandler, the failed_processes filter of '
               'Commander/ApplicationJobs.on_instances_invalidation, the three _master_next of the working states and '
               'FiniteStateMachine.on_process_state_event as decision tables; not modelled here: what the Stopper/Starter do '
               'with the requests (RESTART_PROCESS ending on exactly one eligible instance is C04/C14 composed with C03), '
               'logging']
