from drv_conciliation import ConciliationSuite, DecisionSuite


class Prop:
    ID = 'C05'
    GEN = ['enums', 'proc']
    MODEL_TARGETS = ['model/Conciliation.vo']
    TARGETS = ['props/C05.vo']
    PROPS_FILE = 'props/C05.v'
    SUITES = [ConciliationSuite(), DecisionSuite()]
    RULE = ('conciliation: random process tables of 1-3 real applications (15% unmanaged) holding 1-4 simultaneous '
            'conflicts of 2-4 running copies (RUNNING/STARTING/BACKOFF, uptimes 0-300 with ties, other copies '
            'STOPPED/EXITED/FATAL) plus 0-3 non-conflicting processes, built with real ProcessStatus.add_info / '
            'update_info; the real Context.conflicting/conflicts and conciliate_conflicts with each of the six strategies '
            '(cycled); the real Stopper plans the stop commands (next() disabled); 1 case in 10 has copies being stopped '
            '(STOPPING but still listed), 1 in 8 hands an arbitrary process list to conciliate_conflicts (hostile: single '
            'or no running copy); non-trivial = a real conflict conciliated, distinct by strategy, planned stops, starts '
            'and number of conflicts. conciliation_decision: exhaustive 16-point table of OperationState._master_next / '
            'ConciliationState._master_next on the real classes')
    ASSUMPTIONS = ['payload times are integers, so uptimes are integers (info["uptime"] is read from the real objects)',
                   'running_identifiers is handed to the model in the order the real set iterates (min/max tie-breaking)',
                   'Stopper.next() is disabled: sending the stop requests and the deferred start after the stops is C09/C03',
                   'starter and failure handler are recording fakes (RUNNING_FAILURE then follows C06)',
                   'H_c05 (what C11 guarantees when no listed copy is STOPPING) is evaluated on every regular case '
                   'without a STOPPING copy and must hold',
                   'decision suite: in_progress()/conflicting() are stubbed, conciliate_conflicts is recorded']
    TRUSTED = ['modelled (not verified): Context.conflicting/conflicts, the six conciliation strategies, the command '
               'creation of Stopper.stop_process/restart_process, the two _master_next decisions; the "most recently '
               'started copy" is the copy of minimal uptime as refreshed by the last event or tick of each instance '
               '(staleness of uptimes is not modelled); not modelled: logging']
