from drv_stats import FloatSuite, HostStatsSuite, ProcStatsSuite


class Prop:
    ID = 'C20'
    GEN = []
    MODEL_TARGETS = ['model/Stats.vo']
    TARGETS = ['props/C20.vo']
    PROPS_FILE = 'props/C20.v'
    SUITES = [HostStatsSuite(), ProcStatsSuite(), FloatSuite()]
    RULE = ('statshost: streams of host samples for 1-3 identifiers (monotone float CPU counters with idle often '
            'frozen, integer I/O counters up to 2^64 that wrap, interfaces/devices/partitions appearing and '
            'vanishing, repeated and backward timestamps; 1 case in 5 hostile: NaN/inf, CPU count changes, '
            'depth <= 0, period <= 0/NaN/empty) pushed into the real HostStatisticsCompiler; non-trivial = at '
            'least 2 points produced, distinct by final shape and length. statsproc: streams of process samples '
            'over 1-3 namespecs x 1-2 identifiers with stops (pid 0) and restarts under a new pid pushed into the '
            'real ProcStatisticsCompiler; non-trivial = at least 2 points or 3 distinct (namespec, identifier, '
            'pid). statsfloat: cpu_statistics, int->float, the I/O rate expression and cpu_process_statistics '
            'on hostile numbers (every case counts).')
    ASSUMPTIONS = ['samples are well-typed payloads: float timestamps / CPU jiffies / memory, int I/O counters, '
                   'every expected key present (what statscollector produces)',
                   'bounded: 1 <= stats_histo (options enforce [10;1500]); io_rates_sane: 1 <= period '
                   '(options enforce [1;3600]); aligned host times/mem/cpu: no sample has fewer CPU entries than '
                   'the first one of its identifier (F24 otherwise)',
                   'period_gate is stated on the rounded float difference now - ref_now, as the code computes it']
    KNOWN = ['known:F24-cpu-count-shrinks (statshost): a sample with fewer CPU entries than the first one of its '
             'identifier raises IndexError and leaves times one point longer',
             'known:F25b-proc-cpu-over-100 (statsfloat): cpu_process_statistics (called by no class) keeps the '
             'shape 100.0 * x / y and returns 100 + ulp when process work == host work']
    TRUSTED = ['modelled (not verified): the arithmetic of CPython floats is PrimFloat (IEEE-754 binary64, '
               'round-to-nearest-even); int->float conversion is the model function z2f, tied by the statsfloat '
               'suite; ZeroDivisionError and OverflowError are both the crash kind OtherError',
               'cpu_in_range_fixed / io_rates_sane are proved in coq/proofs/StatsFloat.v with Flocq 4.1.0 and '
               'depend on the axioms listed by Print Assumptions (Coq FloatAxioms specs of the primitive '
               'operations + the classical real-number axioms of the standard library)',
               'logger calls, the now_monotonic/identifier/target_period fields of the result payloads, get_stats '
               'and ProcStatisticsInstance.copy are not modelled']
