from drv_prediction import PredictionSuite


class Prop:
    ID = 'C19'
    GEN = ['proc', 'enums']
    MODEL_TARGETS = ['model/Prediction.vo']
    TARGETS = ['props/C19.vo']
    PROPS_FILE = 'props/C19.v'
    SUITES = [PredictionSuite()]
    RULE = ('situations built on the real Context (1-3 applications x 1-6 processes over 2-6 of the 6 instances): start '
            'sequences 0..3, wait_exit / required / starting_failure_strategy random, expected loads up to 120 (half of '
            'the cases heavily loaded), identifiers rules ("*", explicit lists, pending "@" / "#"), programs disabled on '
            'some instances, an earlier life per process (never started, stopped, exited expectedly or not, FATAL; '
            'processes outside the request also RUNNING / STARTING / BACKOFF / STOPPING), some instances not RUNNING, '
            'optionally a stop of another application in progress in the real Stopper; request = test_start_application, '
            'test_start_processes of one process or of the whole application ("group:*"), all six strategies, repeated '
            '1-5 times; then the real start from the rebuilt identical situation with normal events. 1 case of 6 is '
            'hostile (the target application may be running). A case is non-trivial when the prediction places at least '
            'one process that has at least two candidate instances; distinct by request kind, strategy, predicted and '
            'real placements, repetitions')
    ASSUMPTIONS = ['DistributionRules.ALL_INSTANCES only; one application per request (what the XML-RPCs allow)',
                   'process.possible_identifiers() is an input of the model (read on the live process after the '
                   'predictions, i.e. after Starter.store_application resolved pending sign rules); the resolution '
                   'itself is an oracle of the heap layer (C18 models it)',
                   'placement = the real strategies through Strategy.v (C14) in the evaluators, an arbitrary function '
                   'in the theorems',
                   'normal events = STARTING, RUNNING, plus EXITED(expected) when wait_exit, delivered first-in '
                   'first-out like StarterModel.event_list; no tick, no periodic check during the real start',
                   'the deep snapshot covers: every info dictionary (all items), every ProcessStatus attribute, rules, '
                   'application state / failures / sequences / rules / never_started, instance loads, Starter and '
                   'Stopper planned + current jobs and deferred requests, state-modes job flags, fsm state, every '
                   'rpc_handler call, supervisor_data.update_extra_args calls, failure_handler calls',
                   'prediction_pure holds for heaps where every live location is below the allocation pointer '
                   '(heap_wf, a modelling invariant checked on every generated case)',
                   'rules are set by data on the real ProcessRules / ApplicationRules (no rules file)']
    TRUSTED = ['modelled (not verified): commander.py ProcessStartCommandModel / ApplicationStartJobsModel / '
               'StarterModel, the start side of Starter / ApplicationStartJobs / ProcessStartCommand for one '
               'application, the loop of rpcinterface.start_process; not modelled: time-outs (no tick occurs), '
               'wait_ticks, extra_args, distribution rules other than ALL_INSTANCES, the re-entrant Commander.next of '
               "'No resource available' in the real start (it only deletes a job whose plan is empty: no placement "
               'depends on it)']
