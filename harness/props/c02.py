from drv_node import NodeSuite


class Prop:
    ID = 'C02'
    GEN = ['enums', 'node']
    MODEL_TARGETS = ['model/Node.vo']
    TARGETS = ['props/C02.vo']
    PROPS_FILE = 'props/C02.v'
    SUITES = [NodeSuite()]
    RULE = ('random event histories (local ticks, peer ticks, STATE publications with arbitrary payload, handshake '
            'notifications, failures, restart/shutdown/end_sync requests, process crashes) on one real instance with '
            '6 declared instances and random synchro options; 1 of 4 histories hostile (bad origins, stale '
            'timestamps, unknown masters); non-trivial = visits >= 3 FSM states or loses/isolates an instance')
    ASSUMPTIONS = ['process plane abstracted to an oracle (starter busy, stopper busy, conflicting) per evaluation']
    TRUSTED = ['modelled (not verified): statemachine.py state classes, statemodes.py, context.py handshake and '
               'invalidation, instancestatus.py; Starter/Stopper/RunningFailureHandler stubbed in this suite']
