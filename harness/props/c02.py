from drv_node import NodeSuite


class Prop:
    ID = 'C02'
    GEN = ['enums', 'node']
    MODEL_TARGETS = ['model/Node.vo', 'model/NodeSpec.vo']
    TARGETS = ['props/C02.vo']
    PROPS_FILE = 'props/C02.v'
    SUITES = [NodeSuite(evals={'mismatches': 'mismatches', 'spec_violations': 'spec_violations_c02u',
                               'known:shutdown-without-master': 'known_c02_shutdown',
                               'known:user-sync-master-not-running': 'known_c02_user'})]
    RULE = ('adaptive random event histories (local ticks, peer ticks, STATE publications, handshake notifications, '
            'failures, restart/shutdown/end_sync requests, process crashes) on one real instance with 6 declared '
            'instances and random synchro options; the generator follows the real state so that handshakes complete '
            'and coherent peer publications drive the FSM through every state; 1 of 4 histories ends with a hostile '
            'suffix (bad origins, stale timestamps, unknown masters); non-trivial = visits >= 3 FSM states or '
            'loses/isolates an instance')
    ASSUMPTIONS = ['process plane abstracted to an oracle (starter busy, stopper busy, conflicting) per evaluation',
                   'options are consistent with SupvisorsOptions.check_options (TIMEOUT forces CONTINUE, CORE needs a '
                   'core list)']
    TRUSTED = ['modelled (not verified): statemachine.py state classes, statemodes.py, context.py handshake and '
               'invalidation, instancestatus.py, listener read_publication/read_notification dispatch; '
               'Starter/Stopper/RunningFailureHandler stubbed in this suite']
