from drv_strategy import StrategySuite, DistributeSuite, IdentifySuite


class Prop:
    ID = 'C14'
    GEN = ['enums']
    MODEL_TARGETS = ['model/Strategy.vo']
    TARGETS = ['props/C14.vo']
    PROPS_FILE = 'props/C14.v'
    SUITES = [StrategySuite(), DistributeSuite(), IdentifySuite()]
    RULE = ('strategy suite: random layouts of 6 instances on 1-4 nodes (several instances per node, node lists as '
            'identify() appends them, 1 in 8 with a re-identified instance, 1 in 10 hostile), loads 0-100 with ties, '
            '0-3 pending requests, candidate subsets/permutations/repetitions, all six strategies, run on the real '
            'get_supvisors_instance/get_node; non-trivial = at least two valid candidates with different '
            '(instance load, node load) keys, distinct by strategy, keys, candidate order and answer. '
            'distribute suite: real ApplicationStartJobs.before()/add_commands on applications of 1-5 processes, '
            'three distribution rules x six strategies, programs known/disabled on subsets of the instances; '
            'non-trivial = an assignment was made among >= 2 possible identifiers. '
            'identify suite: 1-9 handshakes (re-identifications, refused identifications, changed machine ids) on the '
            'real Context.on_identification_event/SupvisorsMapper.identify, then one placement; non-trivial = an '
            'instance identified at least twice')
    ASSUMPTIONS = ['instance state, machine id, mapper.nodes, local identifier are set by data on real objects; '
                   'instance loads come from real RUNNING ProcessStatus objects through get_load()',
                   'application.possible_identifiers()/possible_node_identifiers()/get_start_sequence_expected_load() '
                   'are inputs of the model (read from the real application), they belong to C04']
    TRUSTED = ['modelled (not verified): strategy.py starting strategies, ApplicationStartJobs placement part; '
               'not modelled: wait_ticks computation in update_identifier, logging']
