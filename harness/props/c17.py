from drv_rpc import RpcGateSuite


class Prop:
    ID = 'C17'
    GEN = ['enums', 'rpc']
    MODEL_TARGETS = ['model/RpcGate.vo']
    TARGETS = ['props/C17.vo']
    PROPS_FILE = 'props/C17.v'
    SUITES = [RpcGateSuite()]
    RULE = ('exhaustive tabulation, re-measured at every run: every public method of the real RPCInterface (found by '
            'reflection; an unclassified method breaks the check) x the 9 Supvisors states x {Master, non-Master, no '
            'Master} x the parameter domain of the method (full product of valid / unknown / unmanaged / wrong-state '
            'application, known / unknown / group / bare / non-string namespec, identifier / nick / one-instance stereotype / two-instance stereotype / '
            'unknown / empty / stopped instance, known / unknown program, numprocs, log level, regex; valid and '
            'unknown-string strategy crossed with the names, the int / wrong-type strategies and wait=False with '
            'otherwise valid parameters; USER option on/off for end_sync; jobs in progress for restart_sequence; '
            'statistics collector present/absent), each cell on a fresh instance brought to the state by a real event '
            'history; every cell is a distinct point of the matrix, hence non-trivial')
    ASSUMPTIONS = ['starter, stopper, starter_model, failure_handler, rpc_handler, supervisor_updater, supervisor_data, '
                   'server_options and stats_collector are recording fakes; after a request both sequencers report jobs '
                   'in progress (the ABNORMAL_TERMINATION / NOT_RUNNING-after-request paths are not exercised)',
                   'fixture: applications appS (Managed, STOPPED), appR (Managed, RUNNING), appU (not Managed, RUNNING); '
                   'instances 10.0.0.1 (local) and 10.0.0.2 (peer); rules come from a two-line fake parser',
                   'get_local_process_info / get_all_local_process_info are served by a fake Supervisor RPC interface '
                   'that raises BAD_NAME like supervisor does',
                   'points of the (state, Master role) grid that no event history holds still are obtained by assigning '
                   'state_modes.master_identifier (OFF and SYNCHRONIZATION with a Master, ELECTION without) and, for '
                   'end_sync past SYNCHRONIZATION without USER, options.synchro_options; they are listed in the evidence',
                   '"from DISTRIBUTION on" is read as DISTRIBUTION..SHUTTING_DOWN (FINAL excluded, as the code and '
                   'docs/dashboard.rst do); end_sync without the USER option is refused with NOT_APPLICABLE (docstring), '
                   'accepted as a clean refusal']
    TRUSTED = ['modelled (not verified): RPCInterface state checks, parameter resolution order, the first effect of each '
               'served call; result values, deferred onwait callables and Starter/Stopper internals are not modelled',
               'hand-written tables method_class_of / documented_gates (from docs/xml_rpc.rst, the docstrings and the '
               'property statement) and check_of (from the code); the driver re-checks docstring <-> class on every run']
