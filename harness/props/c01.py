from drv_node import NodeSuite
from drv_cluster import ClusterSuite
import props.c02 as base


class Prop:
    ID = 'C01'
    GEN = ['enums', 'node']
    MODEL_TARGETS = ['model/Node.vo', 'model/NodeSpec.vo', 'model/Cluster.vo', 'model/ClusterSpec.vo']
    TARGETS = ['props/C01.vo']
    PROPS_FILE = 'props/C01.v'
    SUITES = [NodeSuite(evals={'mismatches': 'mismatches', 'spec_violations': 'spec_violations_c01'},
                        quick=(800, 60), thorough=(5000, 150)),
              ClusterSuite(evals={'mismatches': 'cmismatches', 'spec_violations': 'spec_violations_c01c'},
                           quick=(40, 150), thorough=(400, 300), quiet_rounds=14, convergent_cfg=True)]
    RULE = base.Prop.RULE
    ASSUMPTIONS = base.Prop.ASSUMPTIONS
    TRUSTED = base.Prop.TRUSTED
