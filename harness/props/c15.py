from drv_application import AppFormulaSuite, AppStateT2Suite, AppVectorSuite


class Prop:
    ID = 'C15'
    GEN = ['proc', 'enums']
    MODEL_TARGETS = ['model/AppStatus.vo']
    TARGETS = ['props/C15.vo']
    PROPS_FILE = 'props/C15.v'
    SUITES = [AppStateT2Suite(), AppVectorSuite(), AppFormulaSuite()]
    RULE = ('one case = one application built from real ProcessStatus objects (1-2 instances, states set through '
            'add_info/update_info/force_state), a managed flag, per-process required flag and start sequence, and '
            'optionally a formula string passed to the real status_formula setter; update() is called once. '
            'appstate_t2: all lists of displayed states of length <= 3 (plain and forced), every case counted. '
            'appstatus_vectors: non-trivial when the application is not STOPPED or reports a failure; distinct by '
            'the multiset of (displayed state, expected_exit, required), managed flag and start-sequence content. '
            'appstatus_formulas (3/7 well-formed, 2/7 ill-formed, 2/7 hostile; the corpus harness/corpus/c15_formulas.json '
            '= former witnesses of the fixed F14 classes runs first): non-trivial when '
            'the setter stored the formula (evaluate() is reached); distinct by formula string and process states')
    ASSUMPTIONS = ['ast.parse and re (compile + match) are oracles: their results are inputs of the model',
                   'formula nesting depth <= 64 in generated cases: Python recursion limit is not modelled '
                   '(a formula nested about 1000 levels deep still raises RecursionError out of update(); theorems carry '
                   'H_depth = depth_ok),',
                   'process.expected_exit is a bool (checked by the driver on every case)',
                   'the spec judges only cases whose start sequence is up to date (context.py calls '
                   'update_sequences after every change of the process map)']
    TRUSTED = ['modelled (not verified): ApplicationStatus.update/update_state/update_status_required/'
               'update_status_formula/evaluate/update_sequences(start part), ApplicationRules.status_formula setter; '
               'the translation of the real ast to the Coq expr (harness/drv_application.py::translate) and the '
               'audit of dynamic executions (wrapped builtins + sys.addaudithook); regex run time (ReDoS) and log '
               'text are not modelled']
