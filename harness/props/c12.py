from drv_replication import ReceiverSuite, ClusterSuite
from drv_node import NodeSuite


class Prop:
    ID = 'C12'
    GEN = ['proc', 'enums', 'node']
    MODEL_TARGETS = ['model/Replication.vo', 'model/Node.vo', 'model/NodeSpec.vo']
    TARGETS = ['props/C12.vo']
    PROPS_FILE = 'props/C12.v'
    SUITES = [ReceiverSuite(), ClusterSuite(),
              # what triggers the reload of a peer's process table: loss / stealth-restart detection and re-handshake
              NodeSuite(evals={'mismatches': 'mismatches'}, quick=(500, 60), thorough=(3000, 150))]
    RULE = ('receiver: random process-plane message histories (ALL_INFO, PROCESS, forced PROCESS, PROCESS_ADDED/'
            'REMOVED/DISABILITY, TICK, AUTHORIZATION, INSTANCE_FAILURE, invalidate_failed, activate_checked) from '
            '2-5 active instances (plus a silent and an unknown one) about 1-6 processes, 3 of 4 mostly-valid and '
            '1 of 4 hostile, through the real listener/FSM/Context; non-trivial = some process loaded, some message '
            'refused, and an admission or a loss occurred; distinct by final observable and length. '
            'cluster: random schedules (process changes, deliveries, drops, ticks, check_instance, notifications, '
            'activation, failures, invalidations) over 2-4 real nodes with 1-4 processes, 2 of 3 avoiding handshake '
            'windows and 1 of 3 unconstrained; non-trivial = at least two admitted views, processes loaded, at '
            'least one process change delivered; distinct by final observation and length. node suite: control-plane '
            'histories of one real instance (loss and stealth-restart detection, re-handshake), model = implementation')
    ASSUMPTIONS = ['time.monotonic is the harness logical clock (one clock for all nodes of a case)',
                   'publications i->j are FIFO (one proxy thread per peer, synchronous XML-RPC); notifications of a '
                   'node are FIFO (one local proxy thread); no order between the two',
                   'get_all_local_process_info returns the Supervisor states at the time of the call (atomic in the '
                   "remote main loop)",
                   'process set of each Supervisor fixed during a cluster schedule (no add/remove at cluster level)',
                   'no Supervisor restart inside a cluster schedule (instance loss = Fail + invalidate_failed)']
    TRUSTED = ['modelled (not verified): Context process plane, listener dispatch, SupervisorProxy.publish / '
               'check_instance / proxy server queues; thread scheduling and the XML-RPC transport are replaced by '
               'the scheduler of the harness; forced events, PROCESS_ADDED/REMOVED/DISABILITY only at receiver level',
               'the Master FSM state used by Context.invalidate (STOPPED vs ISOLATED) is an input of the harness']
