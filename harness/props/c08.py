from drv_cluster import ClusterSuite
from drv_node import NodeSuite


class Prop:
    ID = 'C08'
    GEN = ['enums', 'node']
    MODEL_TARGETS = ['model/Node.vo', 'model/NodeSpec.vo', 'model/Cluster.vo', 'model/ClusterSpec.vo']
    TARGETS = ['props/C08.vo']
    PROPS_FILE = 'props/C08.v'
    SUITES = [ClusterSuite(evals={'mismatches': 'cmismatches', 'spec_violations': 'spec_violations_c08',
                                  'known:handshake-window-state-lost': 'known_c08_stale_view'},
                           quick=(60, 150), thorough=(400, 300), quiet_rounds=14, convergent_cfg=True),
              NodeSuite(evals={'mismatches': 'mismatches'}, quick=(400, 60), thorough=(3000, 150))]
    RULE = ('cluster suite: 2-4 real instances (real Context/StateModes/FSM/listener dispatch/proxy server+proxy '
            'filters/handshake against the real RPCInterface) under random schedules of ticks, deliveries, handshakes, '
            'notifications, crashes, restarts (also faster than detection), cuts and heals; then disturbances stop '
            '(links healed) and 14 quiet rounds follow; the Coq spec checks on the last observed state that every live '
            'instance is in OPERATION/CONCILIATION in the state of its live, self-acknowledged Master (when isolation '
            'among live instances is clean). node suite: model = implementation on single-instance histories. '
            'non-trivial = at least 4 distinct FSM states visited and a fault or a Master change')
    ASSUMPTIONS = ['synchronisation condition satisfiable: TIMEOUT selected (forces failure strategy CONTINUE)',
                   'process plane idle in the quiet rounds (oracle: no job in progress, no conflict)',
                   'handshake reads are atomic schedule points; the proxy filter is evaluated after the step']
    TRUSTED = ['modelled (not verified): internal_com glue (publish filter, check_instance, handle_exception), '
               'one FIFO per ordered pair + one local notification FIFO per instance; XML-RPC transport, threads and '
               'real time are not exhibited']
