from drv_options import OptionsSuite
from drv_rules import RulesSuite


class Prop:
    ID = 'C18'
    GEN = ['rules', 'options']
    MODEL_TARGETS = ['model/Rules.vo', 'model/Options.vo']
    TARGETS = ['props/C18.vo']
    PROPS_FILE = 'props/C18.v'
    SUITES = [RulesSuite(), OptionsSuite()]
    RULE = ('rules: generated XML rules documents (1-3 files; aliases, models with reference chains and cycles, '
            'applications and programs by name and by overlapping patterns, sign identifiers, in- and out-of-domain '
            'values; 3 of 4 XSD-valid and unambiguous, run through lxml+XSD and again through ElementTree, 1 of 4 '
            'hostile: duplicates, malformed values, invalid regexes, ElementTree only) parsed by the real Parser and '
            'queried for application names and homogeneous program groups, then HomogeneousGroup.resolve_rules twice; '
            'a case is non-trivial when the document has a pattern or a model reference and at least one query is '
            'resolved to non-default rules; distinct by the whole observation. '
            'options: 1-3 option dictionaries built in a row by the real SupvisorsOptions (boundary values of every '
            'range, malformed values, nan/inf, empty lists); non-trivial when some dictionary sets two options or '
            'more; distinct by observation')
    ASSUMPTIONS = ['application / program names contain no double quote (the XPath predicate of '
                   'Parser.get_application_element is built by string formatting)',
                   'option values are strings (as supervisor reads them from the configuration file)',
                   'the regex engine, the XML parsers and the XSD validator are oracles: match lengths and parsed '
                   'texts are inputs of the model',
                   'the texts are lexed by the driver with the Python functions the code applies (int, strtobool, '
                   'Enum lookup, supervisor.datatypes.integer/boolean, float)']
    TRUSTED = ['modelled (not verified): Parser lookup / load_*, ProcessRules and ApplicationRules '
               'check_dependencies, HomogeneousGroup add_process / resolve_rules, SupvisorsMapper.filter, '
               'SupvisorsOptions converters and check_options; not modelled: operational_status (C15), '
               'check_autorestart, file-system options (rules_files, css_files, software_icon, disabilities_file), '
               'logger options',
               'CPython 3.12 list.sort on at most 3 floats is modelled by hand (count_run + binary insertion)']
