"""T3 driver for Eligibility.v (property C04): the real Starter of supvisors/commander.py started on several applications
concurrently, in closed loop with a scripted "Supervisor world"; every call of ApplicationStartJobs.process_job /
before / add_commands is recorded with the requester's view AT THAT MOMENT.

Set-up (everything not listed is the real code; the sequencer world of drv_sequencer.py is reused):
  * drv_sequencer.World: svenv.make_supvisors() with the real Context / mapper / FiniteStateMachine (OFF), a listener
    object carrying the REAL SupervisorListener.force_process_state, a recording fake rpc_handler;
  * `supv.starter` is the real Starter sub-classed ONLY to observe: RecStarter.command_class / job_class are
    sub-classes of ProcessStartCommand / ApplicationStartJobs whose start / process_job / before / add_commands /
    fail_command take a snapshot (pure reads) and then call the real method;
  * instance states, machine ids, mapper.nodes, mapper.stereotypes are set by data (as in drv_strategy.py);
  * process tables are loaded through the real Context.load_processes, rules are set by data on the real
    ProcessRules / ApplicationRules; already-running processes are brought to RUNNING by real process events;
  * the view given to Coq is read independently of the methods under test: an instance load is the sum of
    rules.expected_load over every ProcessStatus whose info_map entry for that instance is in a Supervisor running
    state (NOT get_load()); "requests already sent and not yet answered" come from the driver's own log of
    send_start_process calls (NOT get_load_requests()).
"""
import json
import os
import random

import svenv
from common import C, app, coq, some
from propcheck import Suite
import drv_sequencer as seq
from drv_sequencer import ident, num, aname, pname, anum, event_payload, CODE, PSTATES
from drv_strategy import machine, machine_num, emit_layout, emit_result, optz

N_INST = 6
RUNNING_STATE = 3
CHECKED_STATE = 2
BALLAST_APP = 9
RUNNING_CODES = (10, 20, 30)       # supervisor RUNNING_STATES: STARTING, RUNNING, BACKOFF
STOPPED_CODES = (0, 100, 200, 1000)
NO_RESOURCE = 'No resource available'


# ---------------------------------------------------------------- names of an identifiers rule <-> Z codes
def name_of(code):
    if code == 0:
        return '*'
    if 1 <= code <= N_INST:
        return ident(code)
    if 11 <= code <= 10 + N_INST:
        return f'10.0.0.{code - 10}'          # nick identifier of the test fixture
    if 21 <= code <= 29:
        return f'st{code - 20}'
    return f'ghost{code}'


def code_of(name):
    if name == '*':
        return 0
    if name.startswith('st'):
        return 20 + int(name[2:])
    if name.startswith('ghost'):
        return int(name[5:])
    if ':' in name:
        return num(name)
    return 10 + int(name.split('.')[-1])


def load_info(a, p, now, startsecs, disabled):
    info = seq.load_payload(a, p, now, startsecs, 2)
    info['disabled'] = disabled
    return info


class Frame:
    """ one call of process_job """

    def __init__(self, snapshot, job):
        self.snapshot = snapshot
        self.job = job
        self.sends = []
        self.forced = []
        self.crash = None


class EWorld(seq.World):
    def __init__(self):
        super().__init__()
        from supvisors.commander import Starter, ProcessStartCommand, ApplicationStartJobs
        world = self

        class RecCommand(ProcessStartCommand):
            def start(self):
                world.on_send(self)
                super().start()

        class RecJobs(ApplicationStartJobs):
            def process_job(self, command):
                frame = world.enter_job(self, command)
                try:
                    return super().process_job(command)
                except Exception as exc:
                    frame.crash = svenv.crash_kind(exc)
                    raise
                finally:
                    world.leave_job(frame)

            def before(self):
                world.on_before(self, lambda: ApplicationStartJobs.before(self))

            def add_commands(self, jobs):
                world.on_add(self, jobs, lambda: ApplicationStartJobs.add_commands(self, jobs))

            def fail_command(self, process, identifier, event_time, reason):
                world.on_fail(process, identifier, reason, self.failure_state)
                super().fail_command(process, identifier, event_time, reason)

        class RecStarter(Starter):
            command_class = RecCommand
            job_class = RecJobs

        self.Starter = RecStarter
        self.names = {}
        self.clear_log()

    # ------------------------------------------------------------ run log
    def clear_log(self):
        self.clock = 0
        self.frames = []
        self.decisions = []
        self.befores = []
        self.adds = []
        self.anomaly = False
        self.requests = []       # every start request of the run: dict a, p, i, load, emit, ack
        self.latest = {}         # (a, p) -> its latest request
        self.pending = {}        # (a, p) -> request
        self.job_t0 = {}         # id(job) -> clock at before()
        self.sent_in_frames = 0
        self.last_crash = None

    def tick(self):
        self.clock += 1
        return self.clock

    # ------------------------------------------------------------ set-up by data
    def reset_world(self, cf):
        from supvisors.ttypes import (SupvisorsInstanceStates, StartingStrategies, StartingFailureStrategies,
                                      DistributionRules)
        supv = self.supv
        ctx = supv.context
        ctx.applications.clear()
        svenv.CLOCK.now = cf['now']
        mapper = supv.mapper
        for i, state, node, counter in cf['insts']:
            status = ctx.instances[ident(i)]
            status._state = SupvisorsInstanceStates.RUNNING      # while the tables are loaded
            status.processes = {}
            status.times.remote_sequence_counter = 0
            status.update_tick(counter, float(cf['now']), float(cf['now'] + 1000000))
            mapper.instances[ident(i)].local_view.machine_id = machine(node)
        mapper.nodes = {machine(k): [ident(i) for i in ids] for k, ids in cf['nodes']}
        mapper.stereotypes = {name_of(k): [ident(i) for i in ids] for k, ids in cf['stereotypes']}
        mapper.local_identifier = ident(1)
        ballast = {'name': BALLAST_APP, 'managed': False, 'start': 0, 'strategy': 0, 'dist': 0, 'rule': [0],
                   'procs': [{'name': i, 'load': load, 'seq': 0, 'rule': [0], 'known': [i], 'disabled': [],
                              'startsecs': 1, 'behaviour': 'normal', 'required': False, 'sfs': 2,
                              'wait_exit': False, 'running_on': i} for i, load in cf['ballast']]}
        apps = cf['apps'] + ([ballast] if cf['ballast'] else [])
        for i, _, _, _ in cf['insts']:
            infos = [load_info(ac['name'], pc['name'], cf['now'], pc['startsecs'], i in pc['disabled'])
                     for ac in apps for pc in ac['procs'] if i in pc['known']]
            if infos:
                ctx.load_processes(ctx.instances[ident(i)], infos, check_state=False)
        for ac in apps:
            application = ctx.applications.get(aname(ac['name']))
            if application is None:
                continue
            application.rules.managed = ac['managed']
            application.rules.start_sequence = ac['start']
            application.rules.starting_strategy = StartingStrategies(ac['strategy'])
            application.rules.distribution = DistributionRules(ac['dist'])
            application.rules.identifiers = [name_of(x) for x in ac['rule']]
            for pc in ac['procs']:
                process = application.processes.get(pname(pc['name']))
                if process is None:
                    continue
                process.rules.start_sequence = pc['seq']
                process.rules.required = pc['required']
                process.rules.wait_exit = pc['wait_exit']
                process.rules.starting_failure_strategy = StartingFailureStrategies(pc['sfs'])
                process.rules.expected_load = pc['load']
                process.rules.identifiers = [name_of(x) for x in pc['rule']]
            application.update_sequences()
            application.update()
        supv.starter = self.Starter(supv)
        supv.stopper = self.Stopper(supv)
        supv.state_modes.local_state_modes.starting_jobs = False
        supv.state_modes.local_state_modes.stopping_jobs = False
        # processes that already run when the history starts (real events, nothing is planned yet)
        for ac in apps:
            for pc in ac['procs']:
                i = pc.get('running_on')
                if i is not None:
                    for st in ('STARTING', 'RUNNING'):
                        supv.fsm.on_process_state_event(ctx.instances[ident(i)],
                                                        event_payload(i, ac['name'], pc['name'], st, True, cf['now']))
        for i, state, _, _ in cf['insts']:
            ctx.instances[ident(i)]._state = SupvisorsInstanceStates(state)
        self.lost = ([], set())
        self.rec.outs = []
        self.rec.oracle = []
        self.clear_log()

    # ------------------------------------------------------------ snapshots (pure reads)
    def all_processes(self):
        for application in self.supv.context.applications.values():
            for process in application.processes.values():
                yield process

    def inst_load(self, identifier):
        total = 0
        for process in self.all_processes():
            info = process.info_map.get(identifier)
            if info is not None and int(info['state']) in RUNNING_CODES:
                total += int(process.rules.expected_load)
        return total

    def snap_layout(self):
        supv = self.supv
        insts = []
        for identifier, status in supv.context.instances.items():
            view = supv.mapper.instances[identifier].local_view
            node = machine_num(view.machine_id) if view is not None else None
            insts.append((num(identifier), int(status.state.value), node, self.inst_load(identifier)))
        nodes = [(machine_num(m), [num(x) for x in ids]) for m, ids in supv.mapper.nodes.items()]
        return {'insts': insts, 'nodes': nodes}

    def snap_mapper(self):
        mapper = self.supv.mapper
        return {'instances': [num(x) for x in mapper.instances.keys()],
                'nicks': [(code_of(k), num(v)) for k, v in mapper._nick_identifiers.items()],
                'stereotypes': [(code_of(k), [num(x) for x in v]) for k, v in mapper.stereotypes.items()]}

    @staticmethod
    def snap_cmd(cmd):
        proc = cmd.process
        return (anum(proc.process_name), int(proc.rules.expected_load), int(proc.state) in STOPPED_CODES,
                num(cmd.identifier) if cmd.identifier else None, sorted(num(x) for x in proc.info_map),
                sorted(num(x) for x, info in proc.info_map.items() if info['disabled']))

    def snap_jobs(self, job):
        flat = [cmd for cmds in job.planned_jobs.values() for cmd in cmds]
        return {'current': [self.snap_cmd(c) for c in job.current_jobs], 'planned': [self.snap_cmd(c) for c in flat],
                'identifiers': [num(x) for x in job.identifiers]}

    def snap_rule(self, rules):
        return [code_of(x) for x in rules.identifiers]

    def live(self, req):
        """ the request is unanswered, or its process is seen running on the requested instance """
        if req['ack'] is None:
            return True
        process = self.supv.context.applications[aname(req['a'])].processes[pname(req['p'])]
        info = process.info_map.get(ident(req['i']))
        return info is not None and int(info['state']) in RUNNING_CODES

    def tracked(self, job):
        return any(j is job for j in self.supv.starter.current_jobs.values())

    def orphans(self, job):
        """ unanswered requests of the application of `job` that were sent by ANOTHER ApplicationStartJobs object:
        two jobs of one application are alive together only when the Starter dropped one of them while it was
        processing a group (re-entrant Commander.next); one of the two is not in starter.current_jobs """
        a = anum(job.application_name)
        out = [r for r in self.pending.values() if r['a'] == a and r['job'] is not job]
        if out and self.tracked(job) and all(self.tracked(r['job']) for r in out):
            self.anomaly = True      # cannot happen: current_jobs holds one job per application
        return out

    def is_on_demand(self, a, p):
        application = self.supv.context.applications[aname(a)]
        return (not application.rules.managed) or int(application.processes[pname(p)].rules.start_sequence) == 0

    def ondemand_load(self, a, p):
        return [(r['i'], r['load']) for r in self.latest.values()
                if r['a'] == a and r['p'] != p and self.is_on_demand(a, r['p']) and self.live(r)]

    def foreign(self, job):
        a = anum(job.application_name)
        t0 = self.job_t0.get(id(job), 0)
        out = []
        for req in self.latest.values():
            if req['a'] == a or not self.live(req):
                continue
            if req['emit'] >= t0 or req['ack'] is None or req['ack'] > t0:
                out.append((req['i'], req['load']))
        return out

    # ------------------------------------------------------------ hooks
    def enter_job(self, job, command):
        process = command.process
        a, p = anum(process.application_name), anum(process.process_name)
        snap = {'dist': int(job.distribution.value), 'strategy': int(command.strategy.value),
                'local': num(self.supv.mapper.local_identifier), 'layout': self.snap_layout(),
                'mapper': self.snap_mapper(), 'prule': self.snap_rule(process.rules),
                'arule': self.snap_rule(job.application.rules), 'cmd': self.snap_cmd(command),
                'jobs': self.snap_jobs(job), 'all_reqs': [(r['i'], r['load']) for r in self.pending.values()],
                'pending': (a, p) in self.pending,
                'on_demand': (not job.application.rules.managed) or int(process.rules.start_sequence) == 0,
                'foreign': self.foreign(job), 'app': a}
        orphans = self.orphans(job)
        snap['orphans'] = [(r['i'], r['load']) for r in orphans]
        snap['pending_orphan'] = any(r['p'] == p for r in orphans)
        snap['ondemand'] = self.ondemand_load(a, p)
        if snap['dist'] == 0 and snap['cmd'][3] is not None:
            self.anomaly = True      # hypothesis of the theorems: a command of a distributed job has no identifier yet
        frame = Frame(snap, job)
        self.frames.append(frame)
        return frame

    def leave_job(self, frame):
        if not self.frames or self.frames[-1] is not frame:
            self.anomaly = True
        else:
            self.frames.pop()
        if len(frame.sends) == 1 and not frame.forced:
            obs = ('ok', ('sent', frame.sends[0]))
        elif not frame.sends and len(frame.forced) == 1 and frame.forced[0] == ('FATAL', NO_RESOURCE, None):
            obs = ('ok', ('noresource',))
        elif not frame.sends and not frame.forced:
            obs = ('crash', frame.crash) if frame.crash else ('ok', ('skipped',))
        else:
            self.anomaly = True
            obs = ('ok', ('skipped',))
        self.decisions.append(dict(frame.snapshot, obs=obs))

    def on_send(self, command):
        process = command.process
        a, p = anum(process.application_name), anum(process.process_name)
        target = num(command.identifier)
        if not self.frames:
            self.anomaly = True
        else:
            self.frames[-1].sends.append(target)
            self.sent_in_frames += 1
        req = {'a': a, 'p': p, 'i': target, 'load': int(process.rules.expected_load), 'emit': self.tick(), 'ack': None,
               'job': self.frames[-1].job if self.frames else None}
        self.requests.append(req)
        self.latest[(a, p)] = req       # a later request for the same process supersedes the earlier one
        self.pending[(a, p)] = req

    def on_fail(self, process, identifier, reason, state):
        a, p = anum(process.application_name), anum(process.process_name)
        if reason == NO_RESOURCE:
            if not self.frames:
                self.anomaly = True
            else:
                self.frames[-1].forced.append((PSTATES[int(state)], reason, num(identifier) if identifier else None))
        self.answered(a, p)

    def answered(self, a, p):
        req = self.pending.pop((a, p), None)
        if req is not None:
            req['ack'] = self.tick()

    def on_before(self, job, real):
        self.job_t0[id(job)] = self.tick()
        if int(job.distribution.value) == 0:
            real()
            return
        application = job.application
        flat = [cmd for cmds in job.planned_jobs.values() for cmd in cmds]
        snap = {'dist': int(job.distribution.value), 'strategy': int(job.starting_strategy.value),
                'local': num(self.supv.mapper.local_identifier), 'layout': self.snap_layout(),
                'mapper': self.snap_mapper(), 'arule': self.snap_rule(application.rules),
                'managed': bool(application.rules.managed),
                'procs': [(int(pr.rules.expected_load), int(pr.rules.start_sequence),
                           sorted(num(x) for x in pr.info_map),
                           sorted(num(x) for x, info in pr.info_map.items() if info['disabled']))
                          for pr in application.processes.values()],
                'jobs': self.snap_jobs(job)}
        try:
            real()
            obs = ('ok', ([num(x) for x in job.identifiers], [num(c.identifier) if c.identifier else None for c in flat]))
        except Exception as exc:
            self.befores.append(dict(snap, obs=('crash', svenv.crash_kind(exc))))
            raise
        self.befores.append(dict(snap, obs=obs))

    def on_add(self, job, jobs, real):
        cmds = [cmd for cmds in jobs.values() for cmd in cmds]
        if len(cmds) != 1:
            self.anomaly = True
            real()
            return
        cmd = cmds[0]
        snap = {'dist': int(job.distribution.value), 'strategy': int(job.starting_strategy.value),
                'local': num(self.supv.mapper.local_identifier), 'layout': self.snap_layout(),
                'jobs': self.snap_jobs(job), 'cmd': self.snap_cmd(cmd)}
        try:
            real()
            flat = [c for cs in job.planned_jobs.values() for c in cs]
            obs = ('ok', (any(c is cmd for c in flat), num(cmd.identifier) if cmd.identifier else None))
        except Exception as exc:
            self.adds.append(dict(snap, obs=('crash', svenv.crash_kind(exc))))
            raise
        self.adds.append(dict(snap, obs=obs))

    # ------------------------------------------------------------ operations
    def apply(self, o):
        from supvisors.ttypes import StartingStrategies
        supv = self.supv
        ctx = supv.context
        kind = o[0]
        if kind == 'StartAppD':
            supv.starter.start_application(StartingStrategies(o[1]), ctx.applications[aname(o[2])], trigger=False)
        elif kind == 'StartProcD':
            supv.starter.start_process(StartingStrategies(o[1]), ctx.applications[aname(o[2])].processes[pname(o[3])],
                                       trigger=False)
        elif kind == 'Next':
            supv.starter.next()
        elif kind == 'Disable':
            # real disability event of the program on one instance (XML-RPC disable/enable on that Supervisor)
            _, i, a, p, flag = o
            supv.fsm.on_process_disability_event(ctx.instances[ident(i)],
                                                 {'group': aname(a), 'name': pname(p), 'disabled': bool(flag)})
        else:
            if kind == 'Event':
                # the request is answered as soon as the event is delivered (the process information is updated
                # before the Starter is told)
                req = self.pending.get((o[2], o[3]))
                if req is not None and req['i'] == o[1]:
                    self.answered(o[2], o[3])
            super().apply(o)

    def run_one(self, o, now):
        """ returns ('ok', starts) or ('crash', kind); starts = [(i, a, p)] emitted during the operation """
        self.rec.outs = []
        self.rec.oracle = []
        svenv.CLOCK.now = now
        before = self.sent_in_frames
        try:
            self.apply(o)
        except Exception as exc:
            while self.frames:          # frames are closed by their finally clauses; defensive
                self.frames.pop()
            self.last_crash = svenv.crash_kind(exc)
            return ('crash', self.last_crash)
        starts = [x[1:] for x in self.rec.outs if x[0] == 'start']
        if len(starts) != self.sent_in_frames - before:
            self.anomaly = True
        for x in self.rec.outs:
            if x[0] == 'forced' and x[4] == -1 and x[3] != 'FATAL':
                self.anomaly = True
        return ('ok', starts)

    def result(self):
        return {'decisions': list(self.decisions), 'befores': list(self.befores), 'adds': list(self.adds),
                'anomaly': bool(self.anomaly), 'crash': self.last_crash}


_WORLD = None


def world():
    global _WORLD
    if _WORLD is None:
        _WORLD = EWorld()
    return _WORLD


# ---------------------------------------------------------------- generation
LOADS = [0, 5, 10, 10, 15, 20, 20, 25, 30, 30, 40, 50, 60]
BEHAVIOURS = ['normal'] * 9 + ['slow', 'fatal_now', 'never', 'stuck_starting']


def gen_rule(rng, stereotypes):
    r = rng.random()
    if r < 0.5:
        return [0]
    names = []
    for _ in range(rng.randint(2, 6)):
        k = rng.random()
        if k < 0.65:
            names.append(rng.randint(1, N_INST))
        elif k < 0.75:
            names.append(10 + rng.randint(1, N_INST))
        elif k < 0.9 and stereotypes:
            names.append(rng.choice(stereotypes)[0])
        elif k < 0.95:
            names.append(rng.randint(91, 93))
        else:
            names.append(0)
    return names


def gen_config(rng):
    n_nodes = rng.choice([1, 2, 2, 3])
    n_running = rng.choice([2, 3, 4, 4, 5, 5, 6, 6])
    running = {1} | set(rng.sample(range(2, N_INST + 1), n_running - 1))
    insts = []
    for i in range(1, N_INST + 1):
        state = RUNNING_STATE if i in running else rng.choice([0, 1, 2, 4, 5])
        insts.append((i, state, rng.randint(1, n_nodes), rng.randint(0, 20)))
    order = list(range(1, N_INST + 1))
    rng.shuffle(order)
    nodes = {}
    for i in order:
        nodes.setdefault(insts[i - 1][2], []).append(i)
    stereotypes = [(20 + k, sorted(rng.sample(range(1, N_INST + 1), rng.randint(1, 3))))
                   for k in range(1, rng.randint(0, 2) + 1)]
    scale = rng.choice([0, 0, 20, 40, 60])
    ballast = [(i, rng.choice([10, 20, 30, 40, 50, 60]) if rng.random() < 0.8 else rng.randint(1, 100))
               for i, st, _, _ in insts if st in (RUNNING_STATE, CHECKED_STATE) and rng.random() * 100 < scale]
    apps = []
    same_prio = rng.random() < 0.7
    for a in range(1, rng.randint(1, 4) + 1):
        procs = []
        dist = rng.choice([0, 0, 0, 1, 1, 2, 2])
        # a non-distributed application needs one instance (node) fit for ALL its programs: mostly friendly set-ups
        friendly = dist != 0 and rng.random() < 0.75
        for p in range(1, rng.randint(1, 4) + 1):
            if friendly or rng.random() < 0.75:
                known = list(range(1, N_INST + 1))
            else:
                known = sorted(rng.sample(range(1, N_INST + 1), rng.randint(2, N_INST)))
            disabled = sorted(i for i in known if rng.random() < 0.25) if rng.random() < (0.05 if friendly else 0.2) else []
            seq_no = rng.choice([0, 1, 1, 1, 2])
            run_cands = [i for i in known if i in running]
            procs.append({'name': p, 'load': rng.choice(LOADS[:8] if friendly else LOADS) if rng.random() < 0.9 else rng.randint(0, 100),
                          'seq': seq_no, 'rule': gen_rule(rng, stereotypes), 'known': known, 'disabled': disabled,
                          'startsecs': rng.choice([0, 1, 5]), 'behaviour': rng.choice(BEHAVIOURS),
                          'required': seq_no > 0 and rng.random() < 0.3, 'sfs': rng.randint(0, 2),
                          'wait_exit': rng.random() < 0.1,
                          'running_on': rng.choice(run_cands) if run_cands and rng.random() < 0.07 else None})
        if dist != 0 and rng.random() < 0.6:
            # an on-demand sibling, disabled on SOME instances only: the program added to the job in progress
            disabled = sorted(rng.sample(range(1, N_INST + 1), rng.randint(1, 4)))
            procs.append({'name': len(procs) + 1, 'load': rng.choice([0, 5, 10, 10, 20]), 'seq': 0, 'rule': [0],
                          'known': list(range(1, N_INST + 1)), 'disabled': disabled if dist == 2 else [],
                          'startsecs': 1, 'behaviour': 'normal', 'required': False, 'sfs': 2, 'wait_exit': False,
                          'running_on': None})
        apps.append({'name': a, 'managed': rng.random() < 0.93, 'start': 1 if same_prio else rng.choice([1, 1, 2]),
                     'strategy': rng.randint(0, 5), 'dist': dist,
                     'rule': [0] if friendly and rng.random() < 0.6 else gen_rule(rng, stereotypes), 'procs': procs})
    return {'now': 1000, 'insts': insts, 'nodes': list(nodes.items()), 'stereotypes': stereotypes,
            'ballast': ballast, 'apps': apps}


class Sim:
    """ scripted Supervisor world reacting to the start requests of the real Starter """

    def __init__(self, rng, cf, max_ops):
        self.rng = rng
        self.cf = cf
        self.max_ops = max_ops
        self.w = world()
        self.w.reset_world(cf)
        self.now = cf['now']
        self.counters = {i: c for i, _, _, c in cf['insts']}
        self.alive = [i for i, st, _, _ in cf['insts'] if st == RUNNING_STATE]
        self.queue = []
        self.step = 0
        self.ops = []
        self.crashed = False
        self.proc_cf = {(ac['name'], pc['name']): pc for ac in cf['apps'] for pc in ac['procs']}

    def do(self, o):
        self.now += self.rng.choice([0, 1, 1, 2])
        res = self.w.run_one(o, self.now)
        self.ops.append((o, self.now))
        if res[0] == 'crash':
            self.crashed = True
            return
        for i, a, p in res[1]:
            self.on_start(i, a, p)

    def push(self, delay, i, a, p, st, expected=True):
        self.queue.append([self.step + delay, i, a, p, st, expected])

    def on_start(self, i, a, p):
        rng = self.rng
        b = self.proc_cf[(a, p)]['behaviour']
        d = rng.randint(0, 3)
        if b == 'never':
            return
        if b == 'fatal_now':
            self.push(d, i, a, p, 'FATAL', False)
            return
        self.push(d, i, a, p, 'STARTING')
        if b == 'stuck_starting':
            return
        d += rng.randint(1, 3) if b != 'slow' else rng.randint(6, 12)
        self.push(d, i, a, p, 'RUNNING')
        if self.proc_cf[(a, p)]['wait_exit'] and rng.random() < 0.7:
            self.push(d + rng.randint(1, 3), i, a, p, 'EXITED', True)

    def rand_proc(self):
        ac = self.rng.choice(self.cf['apps'])
        return ac['name'], self.rng.choice(ac['procs'])['name']

    def trigger(self, deferred):
        rng = self.rng
        a, p = self.rand_proc()
        strat = rng.randint(0, 5)
        if rng.random() < 0.5:
            return ('StartAppD' if deferred else 'StartApp', strat, a)
        return ('StartProcD' if deferred else 'StartProc', strat, a, p)

    def sibling_start(self):
        """ a non-distributed application whose job is in progress with its instances chosen: start ANOTHER program
        of that application (-> add_commands -> on_command_added); half of the time the program is first disabled
        (real disability event) on one of the chosen instances. Only a program that is stopped and has no command
        anywhere is touched, so that no pre-assigned command is invalidated by the disability. """
        rng = self.rng
        starter = self.w.supv.starter
        busy = set()
        for j in list(starter.current_jobs.values()) + [j for m in starter.planned_jobs.values() for j in m.values()]:
            for c in j.current_jobs + [c for cs in j.planned_jobs.values() for c in cs]:
                busy.add((anum(c.process.application_name), anum(c.process.process_name)))
        cands = []
        for job in starter.current_jobs.values():
            if int(job.distribution.value) == 0 or not job.identifiers:
                continue
            a = anum(job.application_name)
            for process in job.application.processes.values():
                p = anum(process.process_name)
                if (a, p) not in busy and (a, p) not in self.w.pending and int(process.state) in STOPPED_CODES:
                    cands.append((job, a, p, process))
        if not cands:
            return False
        job, a, p, process = rng.choice(cands)
        if rng.random() < 0.5:
            chosen = [num(x) for x in job.identifiers if x in process.info_map and not process.info_map[x]['disabled']]
            others = [x for x in process.info_map if not process.info_map[x]['disabled'] and num(x) not in chosen]
            if chosen and (others or len(chosen) > 1):     # never disabled on every instance
                self.do(('Disable', rng.choice(chosen), a, p, True))
        if not self.crashed:
            self.do(('StartProc', rng.randint(0, 5), a, p))
        return True

    def tick_round(self):
        ticks = []
        for i in self.alive:
            if self.rng.random() < 0.9:
                self.counters[i] += 1
                ticks.append((i, self.counters[i]))
        if ticks:
            self.do(('Ticks', ticks, self.now))
        if not self.crashed and self.rng.random() < 0.9:
            self.do(('Check',))

    def run(self):
        rng = self.rng
        mode = rng.random()
        if mode < 0.4:
            self.do(('StartApps',))
        elif mode < 0.8:
            # concurrent triggers in a random order, started together
            for _ in range(rng.randint(2, 6)):
                if not self.crashed:
                    self.do(self.trigger(True))
            if not self.crashed:
                self.do(('Next',))
        else:
            self.do(self.trigger(False))
        while len(self.ops) < self.max_ops and not self.crashed:
            self.step += 1
            due = [e for e in self.queue if e[0] <= self.step]
            r = rng.random()
            if due and r < 0.5:
                # events of one process are delivered in order; processes are interleaved at random
                firsts, seen = [], set()
                for e in self.queue:
                    if (e[1], e[2], e[3]) not in seen:
                        seen.add((e[1], e[2], e[3]))
                        if e[0] <= self.step:
                            firsts.append(e)
                e = (firsts[0] if rng.random() < 0.7 else rng.choice(firsts)) if firsts else due[0]
                self.queue.remove(e)
                _, i, a, p, st, expected = e
                self.do(('Event', i, a, p, st, expected, self.now))
            elif r < 0.68:
                self.tick_round()
            elif r < 0.80:
                if not self.sibling_start():
                    self.do(self.trigger(False))
            elif r < 0.92:
                self.do(self.trigger(False))
            elif r < 0.96:
                self.do(('StartApps',))
            else:
                for _ in range(rng.randint(2, 3)):
                    if not self.crashed:
                        self.do(self.trigger(True))
                if not self.crashed:
                    self.do(('Next',))
        return self.ops


def replay_ops(cf, ops):
    w = world()
    w.reset_world(cf)
    done = []
    for o, now in ops:
        res = w.run_one(o, now)
        done.append((o, now))
        if res[0] == 'crash':
            break
    return done


# ---------------------------------------------------------------- emission
def emit_cmd(v):
    p, load, stopped, target, known, disabled = v
    return app('mkCmd', p, load, stopped, optz(target), list(known), list(disabled))


def emit_jobs(j):
    return app('mkJobs', [emit_cmd(v) for v in j['current']], [emit_cmd(v) for v in j['planned']],
               list(j['identifiers']))


def emit_mapper(m):
    return app('mkMapper', list(m['instances']), [tuple(x) for x in m['nicks']],
               [(k, list(v)) for k, v in m['stereotypes']])


def emit_outcome(o):
    if o[0] == 'sent':
        return app('Sent', o[1])
    return C('NoResource') if o[0] == 'noresource' else C('Skipped')


def emit_decision(d):
    return app('mkDecision', d['dist'], d['strategy'], d['local'], emit_layout(d['layout']), emit_mapper(d['mapper']),
               list(d['prule']), list(d['arule']), emit_cmd(d['cmd']), emit_jobs(d['jobs']),
               [tuple(x) for x in d['all_reqs']], d['pending'], d['on_demand'], [tuple(x) for x in d['foreign']],
               [tuple(x) for x in d['orphans']], d['pending_orphan'], [tuple(x) for x in d['ondemand']],
               emit_result(d['obs'], emit_outcome))


def emit_before(b):
    procs = [app('mkAProc', load, sq, list(known), list(disabled)) for load, sq, known, disabled in b['procs']]
    return app('mkBCase', b['dist'], b['strategy'], b['local'], emit_layout(b['layout']), emit_mapper(b['mapper']),
               list(b['arule']), b['managed'], procs, emit_jobs(b['jobs']),
               emit_result(b['obs'], lambda v: (list(v[0]), [optz(t) for t in v[1]])))


def emit_add(a):
    return app('mkACase', a['dist'], a['strategy'], a['local'], emit_layout(a['layout']), emit_jobs(a['jobs']),
               emit_cmd(a['cmd']), emit_result(a['obs'], lambda v: (v[0], optz(v[1]))))


# ---------------------------------------------------------------- python-side classification (statistics only)
def py_node_totals(d):
    """ counting helper, never an oracle: (target, node load, node requests, load) of a 'sent' decision """
    if d['obs'][0] != 'ok' or d['obs'][1][0] != 'sent':
        return None
    t = d['obs'][1][1]
    info = {i: (st, nd, ld) for i, st, nd, ld in d['layout']['insts']}
    nd = info[t][1]
    nload = sum(ld for _, (_, n2, ld) in info.items() if n2 == nd)
    nreq = sum(ld for i, ld in d['all_reqs'] if info[i][1] == nd)
    return t, nload, nreq, d['cmd'][1]


# ---------------------------------------------------------------- corpus: the two known findings (witnesses)
def base_insts(running):
    return [(i, RUNNING_STATE if i in running else 0, 1 if i % 2 else 2, 0) for i in range(1, N_INST + 1)]


def proc_cf(name, load, sq, **kw):
    pc = {'name': name, 'load': load, 'seq': sq, 'rule': [0], 'known': list(range(1, N_INST + 1)), 'disabled': [],
          'startsecs': 1, 'behaviour': 'normal', 'required': False, 'sfs': 2, 'wait_exit': False, 'running_on': None}
    pc.update(kw)
    return pc


def witness_a():
    """ seeded/c04_cap_replay.py replay A: SINGLE_INSTANCE application, only instance 1 RUNNING on a node already
    loaded at 60; the on-demand process 'tool' (start_sequence 0, load 50) is started: the instance was validated
    for the start-sequence load (10) only -> the start request makes the node carry 110 """
    cf = {'now': 1000, 'insts': base_insts({1}), 'nodes': [(1, [1, 3, 5]), (2, [2, 4, 6])], 'stereotypes': [],
          'ballast': [(1, 60)],
          'apps': [{'name': 1, 'managed': True, 'start': 1, 'strategy': 0, 'dist': 1, 'rule': [0],
                    'procs': [proc_cf(1, 50, 0), proc_cf(2, 10, 1)]}]}
    return {'cf': cf, 'ops': [(('StartProc', 0, 1, 1), 1000)]}


def witness_b():
    """ replay B: two ALL_INSTANCES applications of the same start sequence, one process of load 60 each, only
    instance 1 RUNNING: the second job ignores the pending request of the first -> 120 requested on one node """
    cf = {'now': 1000, 'insts': base_insts({1}), 'nodes': [(1, [1, 3, 5]), (2, [2, 4, 6])], 'stereotypes': [],
          'ballast': [],
          'apps': [{'name': 1, 'managed': True, 'start': 1, 'strategy': 0, 'dist': 0, 'rule': [0],
                    'procs': [proc_cf(1, 60, 1)]},
                   {'name': 2, 'managed': True, 'start': 1, 'strategy': 0, 'dist': 0, 'rule': [0],
                    'procs': [proc_cf(1, 60, 1)]}]}
    return {'cf': cf, 'ops': [(('StartProcD', 0, 1, 1), 1000), (('StartProcD', 0, 2, 1), 1000), (('Next',), 1000)]}


def witness_b2():
    """ replay B2: the same through Starter.start_applications (automatic start in DISTRIBUTION) """
    w = witness_b()
    return {'cf': w['cf'], 'ops': [(('StartApps',), 1000)]}


def witness_c():
    """ finding c04-non-distributed-no-recheck: SINGLE_INSTANCE application {p1 seq 1 load 40, p2 seq 2 load 40}
    validated at before() on instance 1 (node at 10: 10 + 80 <= 100). While its first group starts, another
    application gets a process of load 20 started on instance 3 of the same node. When the second group is reached the
    node carries 10 + 40 + 20 = 70 and the request for p2 (40) is sent without any check: 110 """
    cf = {'now': 1000, 'insts': base_insts({1, 3}), 'nodes': [(1, [1, 3, 5]), (2, [2, 4, 6])], 'stereotypes': [],
          'ballast': [(1, 10)],
          'apps': [{'name': 1, 'managed': True, 'start': 1, 'strategy': 0, 'dist': 1, 'rule': [0],
                    'procs': [proc_cf(1, 40, 1), proc_cf(2, 40, 2)]},
                   {'name': 2, 'managed': True, 'start': 1, 'strategy': 0, 'dist': 0, 'rule': [0],
                    'procs': [proc_cf(1, 20, 1, rule=[3])]}]}
    return {'cf': cf, 'ops': [(('StartAppD', 0, 1), 1000), (('Next',), 1000),
                              (('StartProcD', 0, 2, 1), 1000), (('Next',), 1000),
                              (('Event', 3, 2, 1, 'STARTING', True, 1001), 1001),
                              (('Event', 3, 2, 1, 'RUNNING', True, 1002), 1002),
                              (('Event', 1, 1, 1, 'STARTING', True, 1003), 1003),
                              (('Event', 1, 1, 1, 'RUNNING', True, 1004), 1004)]}


def witness_a_sibling():
    """ variant of A: the on-demand program is requested first in the same SINGLE_INSTANCE job; the instance was
    validated for the start-sequence load (20) on a node at 70, the job carries 18 + 20: the request of the
    start-sequence program makes the node carry 108 """
    cf = {'now': 1000, 'insts': base_insts({1}), 'nodes': [(1, [1, 3, 5]), (2, [2, 4, 6])], 'stereotypes': [],
          'ballast': [(1, 70)],
          'apps': [{'name': 1, 'managed': True, 'start': 1, 'strategy': 0, 'dist': 1, 'rule': [0],
                    'procs': [proc_cf(1, 20, 1), proc_cf(2, 18, 0)]}]}
    return {'cf': cf, 'ops': [(('StartProcD', 0, 1, 2), 1000), (('StartProcD', 0, 1, 1), 1000), (('Next',), 1000),
                              (('Event', 1, 1, 2, 'STARTING', True, 1001), 1001),
                              (('Event', 1, 1, 2, 'RUNNING', True, 1002), 1002)]}


def witness_reentrancy():
    """ known finding c03-noresource-reentrancy seen through C04: group {p1: no resource, p2}; the forced FATAL of p1
    re-enters Commander.next, which drops the job; p2 is requested by the dropped job; a later start_process(p2)
    (p2 still stopped) requests it a second time """
    cf = {'now': 1000, 'insts': base_insts({1}), 'nodes': [(1, [1, 3, 5]), (2, [2, 4, 6])], 'stereotypes': [],
          'ballast': [(1, 50)],
          'apps': [{'name': 1, 'managed': True, 'start': 1, 'strategy': 0, 'dist': 0, 'rule': [0],
                    'procs': [proc_cf(1, 100, 1), proc_cf(2, 10, 1)]}]}
    return {'cf': cf, 'ops': [(('StartApps',), 1000), (('StartProc', 0, 1, 2), 1001)]}


def probe_lost_target():
    """ NOT in the corpus (instance states do not change during the generated runs): candidate finding outside C04's
    quantifier. SINGLE_INSTANCE application {p1: seq 1, p2: seq 2}, rule [2, 1]: instance 2 is chosen by before();
    it is lost after p1 was requested; p2, planned with the pre-assigned identifier, is then requested on instance 2
    although the requester does not see it RUNNING any more. Returns the recorded decisions. """
    w = world()
    cf = {'now': 1000, 'insts': base_insts({1, 2}), 'nodes': [(1, [1, 3, 5]), (2, [2, 4, 6])], 'stereotypes': [],
          'ballast': [],
          'apps': [{'name': 1, 'managed': True, 'start': 1, 'strategy': 0, 'dist': 1, 'rule': [2, 1],
                    'procs': [proc_cf(1, 10, 1), proc_cf(2, 10, 2)]}]}
    w.reset_world(cf)
    for o in [('StartApp', 0, 1), ('CtxInvalidate', [2]), ('CmdInvalidate',), ('Check',)]:
        w.run_one(o, 1001)
    return [(d['cmd'][:4], d['obs'], [x[:2] for x in d['layout']['insts']]) for d in w.decisions]


def witness_added_disabled(dist):
    """ a program added to a non-distributed job in progress must not be placed where it is disabled.
    Instances 1 and 3 RUNNING on node 1; application {main: seq 1, tool: on demand}, CONFIG strategy.
    SINGLE_NODE (dist 2): tool is disabled on 1 from the start; start_application chooses node 1 (identifiers 1, 3, 5),
    main is requested on 1; start_process(tool) while main is pending -> on_command_added must give 3, not 1.
    SINGLE_INSTANCE (dist 1): instance 1 is chosen for the job; tool gets disabled on 1 (disability event) while main
    is pending; start_process(tool) -> no target ('No resource available'), never a request on 1. """
    cf = {'now': 1000, 'insts': base_insts({1, 3}), 'nodes': [(1, [1, 3, 5]), (2, [2, 4, 6])], 'stereotypes': [],
          'ballast': [],
          'apps': [{'name': 1, 'managed': True, 'start': 1, 'strategy': 0, 'dist': dist, 'rule': [0],
                    'procs': [proc_cf(1, 10, 1, behaviour='never'),
                              proc_cf(2, 10, 0, disabled=[1] if dist == 2 else [])]}]}
    ops = [(('StartApp', 0, 1), 1000)]
    if dist == 1:
        ops.append((('Disable', 1, 1, 2, True), 1001))
    ops += [(('StartProc', 0, 1, 2), 1002), (('Event', 1, 1, 1, 'STARTING', True, 1003), 1003),
            (('Event', 1, 1, 1, 'RUNNING', True, 1004), 1004)]
    return {'cf': cf, 'ops': ops}


# ---------------------------------------------------------------- the suite
class EligibilitySuite(Suite):
    name = 'eligibility'
    prelude = 'From Sup Require Import Eligibility.\nOpen Scope Z_scope.'
    case_type = 'rcase'
    evals = {'mismatches': 'mismatches', 'spec_violations': 'spec_violations',
             'known:c04-single-instance-on-demand-load': 'known_single_instance_on_demand',
             'known:c04-cross-application-pending-load': 'known_cross_application',
             'known:c03-noresource-reentrancy': 'known_noresource_reentrancy',
             'known:c04-non-distributed-no-recheck': 'known_nondistributed_no_recheck'}
    shard_size = 50
    quick_cases = 600
    thorough_cases = 12000

    def generate(self, rng, tier):
        n, max_ops = (self.quick_cases, 30) if tier == 'quick' else (self.thorough_cases, 60)
        return [{'cf': gen_config(rng), 'seed': rng.randrange(1 << 30), 'max_ops': rng.randint(4, max_ops)}
                for _ in range(n)]

    def corpus(self):
        out = [witness_a(), witness_b(), witness_b2(), witness_a_sibling(), witness_c(), witness_reentrancy(),
               witness_added_disabled(2), witness_added_disabled(1)]
        path = os.path.join(os.path.dirname(__file__), 'corpus', 'eligibility.json')
        if os.path.exists(path):
            with open(path) as f:
                out += [self.from_description(d) for d in json.load(f)]
        return out

    def execute(self, inp):
        if 'ops' in inp:
            ops = replay_ops(inp['cf'], inp['ops'])
        else:
            ops = Sim(random.Random(inp['seed']), inp['cf'], inp['max_ops']).run()
            inp['ops'] = list(ops)     # later executions replay the concrete operations
        res = world().result()
        res['ops'] = list(ops)
        return res

    def emit(self, inp, obs):
        return app('mkRCase', [emit_decision(d) for d in obs['decisions']], [emit_before(b) for b in obs['befores']],
                   [emit_add(a) for a in obs['adds']], obs['anomaly'])

    def describe(self, inp, obs):
        return {'cf': inp['cf'], 'ops': [[list(o), now] for o, now in obs['ops']],
                'observed': {'decisions': [{'app': d['app'], 'proc': d['cmd'][0], 'dist': d['dist'],
                                            'strategy': d['strategy'], 'load': d['cmd'][1], 'obs': d['obs'],
                                            'insts': d['layout']['insts'], 'all_reqs': d['all_reqs'],
                                            'foreign': d['foreign'], 'orphans': d['orphans'], 'ondemand': d['ondemand'],
                                            'pending': d['pending']} for d in obs['decisions']],
                             'befores': len(obs['befores']), 'adds': [a['obs'] for a in obs['adds']],
                             'anomaly': obs['anomaly'], 'crash': obs['crash']}}

    def from_description(self, desc):
        cf = dict(desc['cf'])
        cf['insts'] = [tuple(x) for x in cf['insts']]
        cf['nodes'] = [(k, list(v)) for k, v in cf['nodes']]
        cf['stereotypes'] = [(k, list(v)) for k, v in cf['stereotypes']]
        cf['ballast'] = [tuple(x) for x in cf['ballast']]
        ops = []
        for o, now in desc['ops']:
            o = tuple(o)
            if o[0] == 'Ticks':
                o = ('Ticks', [tuple(x) for x in o[1]], o[2])
            ops.append((o, now))
        return {'cf': cf, 'ops': ops}

    def nontrivial(self, inp, obs):
        """ at least one start request was sent while another instance also qualified or while requests were pending,
        or a 'No resource available' was decided; distinct by the decision trace """
        keys = []
        for d in obs['decisions']:
            if d['obs'][0] != 'ok':
                continue
            o = d['obs'][1]
            if o[0] == 'noresource' or (o[0] == 'sent' and (d['all_reqs'] or sum(1 for x in d['layout']['insts']
                                                                                 if x[1] == RUNNING_STATE) >= 2)):
                keys.append((d['app'], d['cmd'][0], d['dist'], d['strategy'], o))
        return hash(tuple(keys)) if keys else None

    def shrink_candidates(self, inp):
        ops = inp.get('ops')
        cands = []
        if ops and len(ops) > 1:
            n = len(ops)
            if n > 4:
                cands.append({'cf': inp['cf'], 'ops': ops[:n // 2]})
            for k in range(n):
                cands.append({'cf': inp['cf'], 'ops': ops[:k] + ops[k + 1:]})
        cf = inp['cf']
        if ops:
            for k in range(len(cf['apps'])):
                if len(cf['apps']) > 1:
                    name = cf['apps'][k]['name']
                    if not any(len(o) > 2 and o[0].startswith('Start') and o[2] == name for o, _ in ops):
                        cands.append({'cf': dict(cf, apps=cf['apps'][:k] + cf['apps'][k + 1:]), 'ops': ops})
            for k in range(len(cf['ballast'])):
                cands.append({'cf': dict(cf, ballast=cf['ballast'][:k] + cf['ballast'][k + 1:]), 'ops': ops})
        return cands[:40]

    def size_of(self, inp):
        return len(inp.get('ops') or []) * 10 + len(inp['cf']['apps']) + len(inp['cf']['ballast'])

    def distribution(self, inputs, observeds):
        d = {'runs': len(inputs), 'decisions': 0, 'outcome': {}, 'dist': {}, 'strategy': {}, 'befores': 0, 'adds': 0,
             'adds_refused': 0, 'running_instances': {}, 'nodes': {}, 'sent_with_pending_requests': 0,
             'sent_node_total_over_100': 0, 'sent_rule': {'wildcard': 0, 'list': 0}, 'ops': {}, 'crashed_runs': 0,
             'on_demand_decisions': 0, 'decisions_with_foreign_load': 0, 'adds_in_chosen_job': 0,
             'adds_disabled_on_chosen': 0, 'adds_placed': 0}
        for inp, obs in zip(inputs, observeds):
            nrun = sum(1 for x in inp['cf']['insts'] if x[1] == RUNNING_STATE)
            d['running_instances'][str(nrun)] = d['running_instances'].get(str(nrun), 0) + 1
            nn = len(inp['cf']['nodes'])
            d['nodes'][str(nn)] = d['nodes'].get(str(nn), 0) + 1
            d['befores'] += len(obs['befores'])
            d['adds'] += len(obs['adds'])
            d['adds_refused'] += sum(1 for a in obs['adds'] if a['obs'][0] == 'ok' and not a['obs'][1][0])
            for a in obs['adds']:
                if a['obs'][0] == 'ok' and a['obs'][1][0] and a['dist'] != 0 and a['jobs']['identifiers']:
                    d['adds_in_chosen_job'] += 1
                    dis = set(a['cmd'][5]) & set(a['jobs']['identifiers'])
                    d['adds_disabled_on_chosen'] += bool(dis)
                    d['adds_placed'] += a['obs'][1][1] is not None
            d['crashed_runs'] += obs['crash'] is not None
            for o, _ in obs['ops']:
                d['ops'][o[0]] = d['ops'].get(o[0], 0) + 1
            for dc in obs['decisions']:
                d['decisions'] += 1
                key = dc['obs'][1] if dc['obs'][0] == 'crash' else dc['obs'][1][0]
                d['outcome'][key] = d['outcome'].get(key, 0) + 1
                d['dist'][str(dc['dist'])] = d['dist'].get(str(dc['dist']), 0) + 1
                d['strategy'][str(dc['strategy'])] = d['strategy'].get(str(dc['strategy']), 0) + 1
                d['on_demand_decisions'] += bool(dc['on_demand'])
                d['decisions_with_foreign_load'] += bool(dc['foreign'])
                tot = py_node_totals(dc)
                if tot:
                    d['sent_with_pending_requests'] += bool(dc['all_reqs'])
                    d['sent_node_total_over_100'] += tot[1] + tot[2] + tot[3] > 100
                    rule = dc['prule'] if dc['dist'] == 0 else dc['arule']
                    d['sent_rule']['wildcard' if 0 in rule else 'list'] += 1
        return d
