"""T3 driver for Node.v: event histories on the real Context / SupvisorsStateModes / FiniteStateMachine /
SupervisorListener.read_publication+read_notification of one instance (process plane stubbed by an oracle)."""
import json
import types

import svenv
from common import C, app, coq, some
from propcheck import Suite

ISTATES = ['ISTOPPED', 'CHECKING', 'CHECKED', 'IRUNNING', 'FAILED', 'ISOLATED']
INAMES = ['STOPPED', 'CHECKING', 'CHECKED', 'RUNNING', 'FAILED', 'ISOLATED']
SSTATES = ['OFF', 'SYNCHRONIZATION', 'ELECTION', 'DISTRIBUTION', 'OPERATION', 'CONCILIATION', 'RESTARTING',
           'SHUTTING_DOWN', 'FINAL']
FSTRATS = ['CONTINUE', 'RESYNC', 'SHUTDOWN']
RFSTRATS = ['CONTINUE', 'RESTART_PROCESS', 'STOP_APPLICATION', 'RESTART_APPLICATION', 'SHUTDOWN', 'RESTART']
AUTHS = ['A_UNKNOWN', 'A_AUTHORIZED', 'A_NOT_AUTHORIZED', 'A_INCONSISTENT']
N_ORC = 8


def ident(i):
    return f'10.0.0.{i}:25000'


def idx(identifier):
    """ index of an identifier string; '' -> 0 """
    if not identifier:
        return 0
    return int(identifier.split(':')[0].split('.')[-1])


class Recorder:
    def __init__(self):
        self.outs = []
        self.orcs = []
        self.k = 0
        self.picks = {}

    def cur(self):
        return self.orcs[min(self.k, len(self.orcs) - 1)] if self.orcs else (False, False, False)


def relocalize(supv, k):
    """ make instance k the local one of this (independent) Supvisors object """
    from supvisors.ttypes import SupvisorsInstanceStates
    old = supv.mapper.local_identifier
    if old == ident(k):
        return
    sm = supv.state_modes
    sm.instance_state_modes[old].instance_states = {}
    supv.mapper.local_identifier = ident(k)
    sm.local_state_modes.instance_states = {identifier: SupvisorsInstanceStates.STOPPED
                                            for identifier in supv.mapper.instances}


def build_node(cfg, local=1, now=1000):
    """ real objects for one case. cfg: dict of options """
    from supvisors.commander import Starter, Stopper
    from supvisors.statemachine import FiniteStateMachine
    from supvisors.ttypes import SynchronizationOptions, SupvisorsFailureStrategies
    import supvisors.statemachine as smod
    supv = svenv.make_supvisors()
    relocalize(supv, local)
    o = supv.options
    o.inactivity_ticks = cfg['inactivity']
    o.auto_fence = cfg['auto_fence']
    o.synchro_options = [SynchronizationOptions[n] for n in ('STRICT', 'LIST', 'TIMEOUT', 'CORE', 'USER')
                         if cfg[n.lower()]]
    o.synchro_timeout = cfg['synchro_timeout']
    o.supvisors_failure_strategy = SupvisorsFailureStrategies[cfg['fstrategy']]
    supv.mapper._core_identifiers = [ident(i) for i in cfg['core_ids']]
    assert supv.mapper.core_identifiers == [ident(i) for i in cfg['core_ids']]
    rec = Recorder()
    rh = supv.rpc_handler = types.SimpleNamespace()
    rh.send_check_instance = lambda j: rec.outs.append(('CheckInstance', idx(j)))
    rh.send_state_event = lambda p: rec.outs.append(
        ('Publish', p['fsm_statecode'], bool(p['degraded_mode']), idx(p['master_identifier']),
         [(idx(k), INAMES.index(v)) for k, v in p['instance_states'].items()]))
    rh.send_restart = lambda j: rec.outs.append(('SendRestart',))
    rh.send_shutdown = lambda j: rec.outs.append(('SendShutdown',))
    rh.send_restart_all = lambda m: rec.outs.append(('RestartAll', idx(m)))
    rh.send_shutdown_all = lambda m: rec.outs.append(('ShutdownAll', idx(m)))
    st = supv.starter
    sp = supv.stopper
    fh = supv.failure_handler
    st.in_progress = lambda: rec.cur()[0]
    sp.in_progress = lambda: rec.cur()[1]
    st.start_applications = lambda *a, **k: rec.outs.append(('AutoStart',))
    sp.stop_applications = lambda *a, **k: rec.outs.append(('AutoStopAll',))
    st.abort = lambda: rec.outs.append(('AbortJobs',))
    sp.abort = lambda: None
    fh.abort = lambda: None
    st.check = lambda: None
    sp.check = lambda: None
    fh.trigger_jobs = lambda: None

    def add_default_job(process):
        if not rec.outs or rec.outs[-1] != ('FailureJob',):
            rec.outs.append(('FailureJob',))
    fh.add_default_job = add_default_job
    def starter_invalidation(lost, procs):
        """ the in-place filtering contract of Commander.on_instances_invalidation: the processes whose start was
        pending on a lost instance are REMOVED from the set given by the caller (the very set that _master_next
        iterates afterwards). Abstraction: when the oracle of the evaluation in progress says the Starter is busy,
        every lost process had its start pending there (the Starter takes care of all of them). A caller that
        hands a copy over keeps its lost processes and feeds the failure handler: observable as FailureJob. """
        rec.outs.append(('JobsInvalidation', [idx(x) for x in lost]))
        if rec.cur()[0]:
            procs.clear()
    st.on_instances_invalidation = starter_invalidation
    sp.on_instances_invalidation = lambda lost, procs: None
    st.on_event = lambda *a: None
    sp.on_event = lambda *a: None
    ctx = supv.context
    ctx.conflicting = lambda: rec.cur()[2]
    ctx.conflicts = lambda: []
    smod.conciliate_conflicts = lambda *a, **k: rec.outs.append(('Conciliate',))
    sm = supv.state_modes
    first = [True]
    supv._verif_rec = rec
    # one oracle per evaluation of instance.next(): _check_instances is its first statement in every state class
    if not getattr(smod._SupvisorsBaseState, '_verif_wrapped', False):
        orig_check = smod._SupvisorsBaseState._check_instances

        def _check_instances(self):
            r = getattr(self.supvisors, '_verif_rec', None)
            if r is not None:
                if r.first[0]:
                    r.first[0] = False
                else:
                    r.k += 1
                    if r.k > 40:
                        raise RecursionError('set_state loop does not terminate')
            return orig_check(self)
        smod._SupvisorsBaseState._check_instances = _check_instances
        smod._SupvisorsBaseState._verif_wrapped = True
    real_accept = sm.accept_master

    def accept_master():
        real_accept()
        rec.picks[rec.k] = idx(sm.master_identifier)
    sm.accept_master = accept_master
    svenv.CLOCK.now = now
    supv.fsm = FiniteStateMachine(supv)
    supv.parser = None
    rec.first = first
    return supv, rec


class NodeRunner:
    """ applies events one by one on the real objects of one instance """

    def __init__(self, suite, cfg):
        if not suite._clock:
            svenv.install_clock()
            suite._clock = True
        self.supv, self.rec = build_node(cfg)
        self.lst = types.SimpleNamespace(supvisors=self.supv, fsm=self.supv.fsm, logger=self.supv.logger)
        self.init = NodeSuite.snapshot_init(self.supv, cfg)

    def apply(self, e):
        from supvisors.listener import SupervisorListener
        from supvisors.ttypes import PublicationHeaders, NotificationHeaders, RunningFailureStrategies
        supv, rec, lst = self.supv, self.rec, self.lst
        ctx, fsm = supv.context, supv.fsm
        rec.outs = []
        rec.k = 0
        rec.picks = {}
        rec.first[0] = True
        kind = e[0]
        res = None
        try:
            if kind == 'LocalTick':
                _, cnt, now, orcs = e
                rec.orcs = orcs
                svenv.CLOCK.now = now
                p = {'when': now + 1e6, 'when_monotonic': now, 'sequence_counter': cnt}
                ctx.on_local_tick_event(p)
                fsm.on_timer_event(p)
            elif kind == 'PeerTick':
                _, og, cnt, now = e
                svenv.CLOCK.now = now
                res = NodeSuite.resolve(supv, og)
                msg = json.dumps([[og[0], og[1], [og[2], og[3]]],
                                  [PublicationHeaders.TICK.value,
                                   {'when': now + 1e6, 'when_monotonic': now - 3, 'sequence_counter': cnt}]])
                SupervisorListener.read_publication(lst, msg)
            elif kind == 'PeerState':
                _, og, st, dg, m, insts, now, orcs = e
                rec.orcs = orcs
                svenv.CLOCK.now = now
                res = NodeSuite.resolve(supv, og)
                payload = {'fsm_statecode': SSTATES.index(st), 'degraded_mode': dg, 'discovery_mode': False,
                           'master_identifier': ident(m) if m else '', 'starting_jobs': False,
                           'stopping_jobs': False,
                           'instance_states': {ident(k): INAMES[ISTATES.index(x)] for k, x in insts}}
                msg = json.dumps([[og[0], og[1], [og[2], og[3]]], [PublicationHeaders.STATE.value, payload]])
                SupervisorListener.read_publication(lst, msg)
            elif kind == 'Ident':
                payload = e[1]
                if payload is None:
                    data = None
                else:
                    data = {'identifier': ident(payload[0]), 'now_monotonic': payload[1]}
                    # keep mapper.identify out of the picture (network data only)
                    supv.mapper.identify = lambda ev: None
                msg = json.dumps([[ident(1), ident(1), ['10.0.0.1', 25000]],
                                  [NotificationHeaders.IDENTIFICATION.value, data]])
                SupervisorListener.read_notification(lst, msg)
            elif kind == 'Auth':
                _, og, a, ts, now = e
                svenv.CLOCK.now = now
                res = NodeSuite.resolve(supv, og)
                code = {'A_UNKNOWN': 0, 'A_AUTHORIZED': 1, 'A_NOT_AUTHORIZED': 2, 'A_INCONSISTENT': 3}[a]
                msg = json.dumps([[og[0], og[1], [og[2], og[3]]],
                                  [NotificationHeaders.AUTHORIZATION.value,
                                   {'authorization': code, 'now_monotonic': ts}]])
                SupervisorListener.read_notification(lst, msg)
            elif kind == 'AllInfo':
                _, og, info, now = e
                svenv.CLOCK.now = now
                res = NodeSuite.resolve(supv, og)
                data = None
                if info is not None:
                    data = []
                    if info and res[0]:
                        from drv_process import full_payload
                        pl = full_payload('RUNNING', True, now, False)
                        pl['group'] = 'app'
                        pl['name'] = f'only_on_{res[0]}'
                        pl['program_name'] = pl['name']
                        data = [pl]
                msg = json.dumps([[og[0], og[1], [og[2], og[3]]],
                                  [NotificationHeaders.ALL_INFO.value, data]])
                SupervisorListener.read_notification(lst, msg)
            elif kind == 'InstFailure':
                _, og, now = e
                svenv.CLOCK.now = now
                res = NodeSuite.resolve(supv, og)
                msg = json.dumps([[og[0], og[1], [og[2], og[3]]],
                                  [NotificationHeaders.INSTANCE_FAILURE.value, None]])
                SupervisorListener.read_notification(lst, msg)
            elif kind == 'ProcCrash':
                _, strat, forced, now, orcs = e
                rec.orcs = orcs
                svenv.CLOCK.now = now
                fake = types.SimpleNamespace(crashed=lambda: True, forced_state=(200 if forced else None),
                                             rules=types.SimpleNamespace(
                                                 running_failure_strategy=RunningFailureStrategies[strat]))
                real = ctx.on_process_state_event
                ctx.on_process_state_event = lambda status, event: fake
                try:
                    fsm.on_process_state_event(ctx.local_status, {})
                finally:
                    ctx.on_process_state_event = real
            elif kind == 'ReqRestart':
                _, now, orcs = e
                rec.orcs = orcs
                svenv.CLOCK.now = now
                fsm.on_restart()
            elif kind == 'ReqShutdown':
                _, now, orcs = e
                rec.orcs = orcs
                svenv.CLOCK.now = now
                fsm.on_shutdown()
            elif kind == 'ReqEndSync':
                _, m, now, orcs = e
                rec.orcs = orcs
                svenv.CLOCK.now = now
                fsm.on_end_sync(ident(m) if m else '')
            else:
                raise RuntimeError(kind)
        except Exception as exc:
            return 'crash', svenv.crash_kind(exc), dict(rec.picks), res
        return 'ok', NodeSuite.observe(supv, rec.outs), dict(rec.picks), res


class NodeSuite(Suite):
    name = 'node'
    prelude = 'From Sup Require Import Node NodeSpec.\nOpen Scope Z_scope.'
    case_type = 'vcase'
    evals = {'mismatches': 'mismatches'}
    shard_size = 100

    def __init__(self, evals=None, quick=(1200, 60), thorough=(6000, 150)):
        self._clock = False
        if evals:
            self.evals = dict(evals)
        # a case carries two observables (ncase, views): `mismatches` compares both, the other evaluators are
        # stated on the first one
        self.evals = {k: ('mismatches_v' if v == 'mismatches' else f'(fun cs => {v} (map fst cs))')
                      for k, v in self.evals.items()}
        self.quick, self.thorough = quick, thorough

    # ------------------------------------------------------------ generation
    def gen_cfg(self, rng):
        syn = {k: rng.random() < p for k, p in (('strict', .25), ('list', .3), ('timeout', .45), ('core', .3), ('user', .3))}
        if not any(syn.values()):
            syn['timeout'] = True
        core = sorted(rng.sample(range(1, 7), rng.choice([0, 1, 2, 3]))) if rng.random() < 0.6 else []
        if syn['core'] and not core:
            syn['core'] = False      # options.check_options drops CORE when core_identifiers is empty
            if not any(syn.values()):
                syn['timeout'] = True
        # options.check_options: TIMEOUT forces supvisors_failure_strategy to CONTINUE
        fstrategy = 'CONTINUE' if syn['timeout'] else rng.choice(FSTRATS)
        return {'inactivity': rng.choice([2, 2, 3, 5]), 'auto_fence': rng.random() < 0.5,
                'synchro_timeout': rng.choice([15, 20, 40]), 'fstrategy': fstrategy,
                'core_ids': core, **syn}

    def gen_orcs(self, rng, busy_p):
        base = (rng.random() < busy_p, rng.random() < busy_p / 2, rng.random() < 0.3)
        return [base if rng.random() < 0.85 else
                (rng.random() < busy_p, rng.random() < busy_p / 2, rng.random() < 0.3) for _ in range(N_ORC)]

    def gen_origin(self, rng, j, hostile):
        """ (identifier, nick, ip, port) """
        r = rng.random()
        if not hostile or r < 0.85:
            return (ident(j), ident(j), f'10.0.0.{j}', 25000)
        if r < 0.89:
            return (ident(j), ident(j), f'10.0.0.{j}', 25001)
        if r < 0.93:
            return (ident(j), ident(j), '10.0.0.77', 25000)
        if r < 0.96:
            return ('10.0.0.9:25000', 'unknown', '10.0.0.9', 25000)
        other = rng.randint(1, 6)
        return (ident(j), ident(other), f'10.0.0.{j}', 25000)

    def gen_history(self, rng, max_ev, hostile):
        """ adaptive generation: the real objects are advanced while generating so that the choice of the next
        event can depend on the actual state (handshakes that complete, coherent peer publications, faults at
        deep states). A hostile history is a friendly prefix followed by arbitrary events. """
        cfg = self.gen_cfg(rng)
        # slave bias (1 history in 4): the local instance (lowest nick identifier, hence the natural winner of every
        # election) is not a core instance while a peer is: that peer wins, the local instance lives as a slave
        slave_master = rng.randint(2, 6) if rng.random() < 0.25 else 0
        if slave_master:
            cfg['core_ids'] = sorted({slave_master} | ({rng.randint(2, 6)} if rng.random() < 0.3 else set()))
        run = NodeRunner(self, cfg)
        supv = run.supv
        ctx, sm = supv.context, supv.state_modes
        n_ev = rng.randint(5, max_ev)
        hostile_from = rng.randint(3, n_ev) if hostile else n_ev + 1
        now, cnt = 1000, 0
        peers = rng.sample(range(2, 7), rng.randint(1, 5))
        if slave_master and slave_master not in peers:
            peers.append(slave_master)
        alive = set(peers)
        pcnt = {j: rng.randint(0, 30) for j in range(1, 7)}
        pstate = {j: 'OFF' for j in range(1, 7)}     # what each peer would publish as its own FSM state
        busy_p = rng.choice([0.0, 0.0, 0.2, 0.5])
        # loss focus (1 history in 2), aimed at the in-place filtering contract between _common_next and
        # _master_next: the handshakes more often reveal a process running only on the peer; once the local instance is
        # the Master in a working state, a peer hosting such a process more often falls silent; and the Starter is more
        # often busy at the local ticks that follow (the evaluation that acknowledges the loss)
        focus = rng.random() < 0.5
        evs = []
        # late joiner mode: the peers already form a working cluster with an established Master among them
        established = min(peers) if rng.random() < 0.3 else 0
        if slave_master:
            established = min(set(cfg['core_ids']) & set(peers))
        # follower mode (2 late joiners in 3): the peers are well-behaved (settled, identical views, all declaring the
        # established Master), so that the local instance gets through ELECTION as a slave and follows its Master
        follower = bool(established) and (bool(slave_master) or rng.random() < 0.66)
        if established:
            st0 = rng.choice(['OPERATION', 'CONCILIATION', 'DISTRIBUTION', 'OPERATION', 'OPERATION', 'SHUTTING_DOWN',
                              'RESTARTING', 'ELECTION'])
            for j in peers:
                pstate[j] = st0

        def ist(j):
            return ctx.instances[ident(j)].state.name

        def hosts(ids):
            """ the instances among ids on which, in the real context, some process is running """
            return [h for h in sorted(ids) if ctx.instances[ident(h)].running_processes()]

        def tick_orcs():
            """ oracles of a local tick: in a loss-focused history, Starter mostly busy while a silent peer still
            hosts a process """
            if focus and hosts(set(peers) - alive):
                return self.gen_orcs(rng, max(busy_p, 0.7))
            return self.gen_orcs(rng, busy_p)

        def rpc_gate(e):
            """ the XML-RPC layer only lets these requests through in their documented states / with checked
            parameters (rpcinterface.end_sync, restart, shutdown): emulate the gate, return None when refused """
            fsm_code = sm.state.value
            if e[0] == 'ReqEndSync':
                m = e[1]
                if fsm_code != 1 or not cfg['user'] or sm.master_identifier:
                    return None
                if m and (ident(m) not in ctx.instances or ist(m) != 'RUNNING'):
                    return None
                return e
            if e[0] in ('ReqRestart', 'ReqShutdown'):
                return e if fsm_code in (3, 4, 5, 6, 7) else None
            return e

        def coherent_state(j, now):
            """ a publication a well-behaved peer j would send: same view of instances as the local one
            (unstable states settled), the local choice of Master (or the rule's choice), a state that follows """
            view = []
            for k in range(1, 7):
                s = ist(k)
                s = {'CHECKED': 'RUNNING', 'CHECKING': 'STOPPED', 'FAILED': 'STOPPED'}.get(s, s) \
                    if follower or rng.random() < 0.85 else s
                view.append((k, ISTATES[INAMES.index(s)]))
            m = idx(sm.master_identifier)
            if established and established in alive and (follower or rng.random() < 0.9):
                m = established
                view = [(k, 'IRUNNING' if (k in alive or k == 1) and s in ('IRUNNING', 'ISTOPPED') and
                         (k == 1 or k in peers) and (k != 1 or s == 'IRUNNING') else s) for k, s in view]
            elif not m and rng.random() < 0.7:
                running = [k for k, s in view if s == 'IRUNNING']
                core = [k for k in cfg['core_ids'] if k in running]
                m = min(core or running or [0])
            local = sm.state.name
            if established and m == established:
                # the working cluster goes on: its Master wanders between OPERATION and CONCILIATION
                if j == m and rng.random() < 0.3:
                    pstate[j] = {'ELECTION': rng.choice(['DISTRIBUTION', 'SHUTTING_DOWN', 'ELECTION']),
                                 'RESTARTING': rng.choice(['RESTARTING', 'FINAL']),
                                 'SHUTTING_DOWN': rng.choice(['SHUTTING_DOWN', 'FINAL']),
                                 'FINAL': 'FINAL'}.get(pstate[j], rng.choice(['OPERATION', 'CONCILIATION', 'OPERATION',
                                                                              'SHUTTING_DOWN']))
                elif j != m:
                    pstate[j] = pstate[m]
            elif j == m:
                nxt = {'OFF': 'SYNCHRONIZATION', 'SYNCHRONIZATION': 'ELECTION', 'ELECTION': 'DISTRIBUTION',
                       'DISTRIBUTION': 'OPERATION', 'OPERATION': rng.choice(['OPERATION', 'OPERATION', 'CONCILIATION']),
                       'CONCILIATION': 'OPERATION'}
                if rng.random() < 0.6:
                    pstate[j] = nxt.get(pstate[j], pstate[j])
            else:
                pstate[j] = local if rng.random() < 0.7 else pstate[j]
            return ('PeerState', self.gen_origin(rng, j, False), pstate[j], False, m, view, now,
                    self.gen_orcs(rng, busy_p))

        while len(evs) < n_ev:
            k = len(evs)
            if k >= hostile_from:
                e = self.gen_hostile_event(rng, peers, pcnt, now, cnt, busy_p)
                if e[0] == 'LocalTick':
                    now, cnt = e[2], e[1]
            else:
                r = rng.random()
                if focus and sm.is_master() and sm.state.value in (3, 4, 5) and rng.random() < 0.3:
                    hs = hosts(alive)
                    if hs:
                        alive.discard(rng.choice(hs))     # a peer hosting a process falls silent under a working Master
                        continue
                j = rng.choice(sorted(alive) + [1]) if alive else rng.choice(peers + [1])
                forced = None
                if follower and established in alive and ist(established) == 'RUNNING' and not sm.is_master() \
                        and sm.state.value in (2, 3, 4, 5) and rng.random() < 0.35:
                    # the established Master publishes its state & modes: the slave can follow it
                    now += rng.randint(0, 1)
                    if sm.state.value in (4, 5) and rng.random() < 0.5:
                        # ... and wanders between OPERATION and CONCILIATION (conflicts found / solved)
                        pstate[established] = 'CONCILIATION' if sm.state.value == 4 else 'OPERATION'
                    forced = coherent_state(established, now)
                if forced is not None:
                    e = forced
                elif j == 1 and ist(1) == 'CHECKING':
                    now += rng.randint(0, 1)
                    r2 = rng.random()
                    if r2 < 0.15:
                        e = ('AllInfo', self.gen_origin(rng, 1, False), rng.random() < 0.5, now)
                    else:
                        a = rng.choices(AUTHS, weights=[1, 20, 0, 0])[0]
                        e = ('Auth', self.gen_origin(rng, 1, False), a, now + 1, now)
                elif j == 1 or r < 0.25:
                    now += 5
                    e = ('LocalTick', cnt, now, tick_orcs())   # the first TICK carries counter 0
                    cnt += 1
                elif r < 0.32 and alive and rng.random() < 0.3:
                    alive.discard(j)            # j falls silent (crash / partition)
                    continue
                elif r < 0.34 and len(alive) < len(peers):
                    back = rng.choice(sorted(set(peers) - alive))
                    alive.add(back)             # restart / heal
                    if rng.random() < 0.5:
                        pcnt[back] = 0
                        pstate[back] = 'OFF'
                    continue
                elif ist(j) == 'STOPPED' or r < 0.5:
                    now += rng.randint(0, 1)
                    pcnt[j] += 1
                    e = ('PeerTick', self.gen_origin(rng, j, False), pcnt[j], now)
                elif ist(j) == 'CHECKING':
                    now += rng.randint(0, 1)
                    r2 = rng.random()
                    if r2 < (0.6 if focus else 0.15):
                        e = ('AllInfo', self.gen_origin(rng, j, False), rng.random() < (0.85 if focus else 0.5), now)
                    elif r2 < 0.25:
                        e = ('Ident', (j, now + 1))
                    else:
                        a = rng.choices(AUTHS, weights=[1, 12, 1, 1])[0]
                        e = ('Auth', self.gen_origin(rng, j, False), a, now + 1, now)
                elif r < 0.93:
                    now += rng.randint(0, 1)
                    e = coherent_state(j, now)
                elif r < 0.95:
                    e = ('InstFailure', self.gen_origin(rng, j, False), now) \
                        if ist(j) in ('CHECKED', 'RUNNING', 'CHECKING') else ('PeerTick', self.gen_origin(rng, j, False), pcnt[j], now)
                elif r < 0.97:
                    e = ('ProcCrash', rng.choice(RFSTRATS), rng.random() < 0.3, now, self.gen_orcs(rng, busy_p))
                elif r < 0.985:
                    if sm.master_identifier:
                        e = (rng.choice(['ReqRestart', 'ReqShutdown']), now, self.gen_orcs(rng, busy_p))
                    else:
                        e = ('ReqEndSync', rng.choice([0, 1, j]), now, self.gen_orcs(rng, busy_p))
                else:
                    e = ('ReqEndSync', rng.choice([0, 1, j]), now, self.gen_orcs(rng, busy_p))
            e = rpc_gate(e)
            if e is None:
                # refused by the XML-RPC gate: replaced by a local tick so that the history still advances
                now += 5
                e = ('LocalTick', cnt, now, tick_orcs())
                cnt += 1
            evs.append(e)
            tag, _, _, _ = run.apply(e)
            if tag == 'crash':
                break
        return (cfg, evs)

    def gen_hostile_event(self, rng, peers, pcnt, now, cnt, busy_p):
        r = rng.random()
        j = rng.choice(peers)
        if r < 0.2:
            return ('LocalTick', cnt + 1, now + 5, self.gen_orcs(rng, busy_p))
        if r < 0.4:
            pcnt[j] = max(pcnt[j] + rng.choice([1, 1, 2, -5]), 0)
            return ('PeerTick', self.gen_origin(rng, j, True), pcnt[j], now)
        if r < 0.55:
            a = rng.choice(AUTHS)
            who = j if rng.random() < 0.9 else 1
            return ('Auth', self.gen_origin(rng, who, True), a, now + rng.choice([1, -500, 0]), now)
        if r < 0.78:
            who = rng.choice(peers + [1])
            st = rng.choice(SSTATES)
            m = rng.choice([0, 1, 1] + peers + [9])
            insts = [(k, rng.choices(ISTATES, weights=[3, 1, 1, 6, 1, 1])[0]) for k in range(1, 7)]
            if rng.random() < 0.2:
                insts = insts[:rng.randint(0, 5)]
            return ('PeerState', self.gen_origin(rng, who, True), st, rng.random() < 0.1, m, insts, now,
                    self.gen_orcs(rng, busy_p))
        if r < 0.84:
            return ('AllInfo', self.gen_origin(rng, j, True), None if rng.random() < 0.3 else (rng.random() < 0.5), now)
        if r < 0.88:
            return ('Ident', None) if rng.random() < 0.2 else ('Ident', (j if rng.random() < 0.9 else 9, now + 1))
        if r < 0.92:
            return ('InstFailure', self.gen_origin(rng, j, True), now)
        if r < 0.95:
            return ('ProcCrash', rng.choice(RFSTRATS), rng.random() < 0.3, now, self.gen_orcs(rng, busy_p))
        if r < 0.97:
            return ('ReqRestart', now, self.gen_orcs(rng, busy_p))
        if r < 0.99:
            return ('ReqShutdown', now, self.gen_orcs(rng, busy_p))
        return ('ReqEndSync', rng.choice([0, 1, j, 9]), now, self.gen_orcs(rng, busy_p))

    def generate(self, rng, tier):
        n, max_ev = self.quick if tier == 'quick' else self.thorough
        return [self.gen_history(rng, max_ev, hostile=(k % 4 == 3)) for k in range(n)]

    def corpus(self):
        import os
        path = os.path.join(os.path.dirname(__file__), 'corpus', 'node.json')
        if os.path.exists(path):
            with open(path) as f:
                return [self.from_description(c) for c in json.load(f)]
        return []

    # ------------------------------------------------------------ execution
    def execute(self, inp):
        cfg, evs = inp
        run = NodeRunner(self, cfg)
        out, oracles, resolutions, views = [], [], [], []
        for e in evs:
            tag, val, picks, res = run.apply(e)
            out.append((tag, val))
            oracles.append(picks)
            resolutions.append(res)
            if tag == 'crash':
                break
            views.append(self.views(run.supv))
        return {'init': run.init, 'obs': out, 'picks': oracles, 'res': resolutions, 'views': views}

    @staticmethod
    def views(supv):
        return [(idx(k), sm.state.value, bool(sm.degraded_mode), idx(sm.master_identifier),
                 [(idx(x), v.value) for x, v in sm.instance_states.items()])
                for k, sm in supv.state_modes.instance_state_modes.items()]

    @staticmethod
    def resolve(supv, og):
        """ front end of Context.is_valid computed with the real mapper: (resolved index or 0, addr ok) """
        ids = supv.mapper.filter([og[0], og[1]])
        if len(ids) != 1:
            return (0, False)
        sid = supv.mapper.instances[ids[0]]
        return (idx(ids[0]), bool(sid.is_valid((og[2], og[3]))))

    @staticmethod
    def snapshot_init(supv, cfg):
        nicks = sorted((sid.nick_identifier, idx(k)) for k, sid in supv.mapper.instances.items())
        return {'me': idx(supv.mapper.local_identifier),
                'initial': [idx(x) for x in supv.mapper.initial_identifiers],
                'nick': [(j, r) for r, (_, j) in enumerate(nicks)],
                'insts': [idx(k) for k in supv.context.instances],
                'views': [idx(k) for k in supv.state_modes.instance_state_modes],
                'start_date': int(supv.context.start_date)}

    @staticmethod
    def observe(supv, outs):
        sm = supv.state_modes.local_state_modes
        insts = [(idx(k), st.state.value, int(st.times.remote_sequence_counter), int(st.times.local_sequence_counter),
                  int(st.checking_time))
                 for k, st in supv.context.instances.items()]
        ms = supv.state_modes.master_state
        return (sm.state.value, bool(sm.degraded_mode), idx(sm.master_identifier),
                [(idx(k), v.value) for k, v in sm.instance_states.items()], ms.value if ms is not None else -1, insts,
                sorted(idx(x) for x in supv.state_modes.stable_identifiers), list(outs))

    # ------------------------------------------------------------ emission
    @staticmethod
    def emit_orcs(orcs, picks):
        return [app('mkOr', sb, tb, cf, picks.get(k, 0)) for k, (sb, tb, cf) in enumerate(orcs)]

    @staticmethod
    def emit_origin(res):
        r, ok = res
        return app('mkOrigin', some(r) if r else None, ok)

    def emit_event(self, e, picks, res):
        kind = e[0]
        if kind == 'LocalTick':
            return app('LocalTick', e[1], e[2], self.emit_orcs(e[3], picks))
        if kind == 'PeerTick':
            return app('PeerTick', self.emit_origin(res), e[2], e[3])
        if kind == 'PeerState':
            _, og, st, dg, m, insts, now, orcs = e
            return app('PeerState', self.emit_origin(res), C(st), dg, m, [(k, C(s)) for k, s in insts], now,
                       self.emit_orcs(orcs, picks))
        if kind == 'Ident':
            return app('Ident', None if e[1] is None else some((e[1][0], e[1][1])))
        if kind == 'Auth':
            return app('Auth', self.emit_origin(res), C(e[2]), e[3], e[4])
        if kind == 'AllInfo':
            info = e[2]
            return app('AllInfo', self.emit_origin(res), None if info is None else some(bool(info and res[0])), e[3])
        if kind == 'InstFailure':
            return app('InstFailure', self.emit_origin(res), e[2])
        if kind == 'ProcCrash':
            return app('ProcCrash', C('RF_' + e[1]), e[2], e[3], self.emit_orcs(e[4], picks))
        if kind == 'ReqRestart':
            return app('ReqRestart', e[1], self.emit_orcs(e[2], picks))
        if kind == 'ReqShutdown':
            return app('ReqShutdown', e[1], self.emit_orcs(e[2], picks))
        if kind == 'ReqEndSync':
            return app('ReqEndSync', e[1], e[2], self.emit_orcs(e[3], picks))
        raise RuntimeError(kind)

    @staticmethod
    def emit_output(o):
        if o[0] == 'Publish':
            return app('Publish', o[1], o[2], o[3], list(o[4]))
        if o[0] == 'JobsInvalidation':
            return app('JobsInvalidation', list(o[1]))
        return app(*o)

    def emit_node(self, cfg, init):
        opts = app('mkOpts', cfg['inactivity'], cfg['auto_fence'], cfg['strict'], cfg['list'], cfg['timeout'],
                   cfg['core'], cfg['user'], cfg['synchro_timeout'], C('FS_' + cfg['fstrategy']))
        ist0 = app('mkIst', C('ISTOPPED'), 0, 0, 0)
        own = app('mkSm', C('OFF'), False, 0, [(j, C('ISTOPPED')) for j in init['insts']])
        views = [(j, own if j == init['me'] else C('sm_fresh')) for j in init['views']]
        return app('mkNode', init['me'], opts, list(cfg['core_ids']), list(init['initial']),
                   [tuple(x) for x in init['nick']], [(j, ist0) for j in init['insts']], views,
                   [], False, init['start_date'], [])

    def emit(self, inp, observed):
        cfg, evs = inp
        node = self.emit_node(cfg, observed['init'])
        events = []
        for k, e in enumerate(evs[:len(observed['obs'])]):
            events.append(self.emit_event(e, observed['picks'][k], observed['res'][k]))
        obs = []
        for tag, val in observed['obs']:
            if tag == 'ok':
                f, d, m, insts, ms, ist, stable, outs = val
                obs.append(app('NOk', (f, d, m, list(insts), ms, list(ist), list(stable),
                                       [self.emit_output(o) for o in outs])))
            else:
                obs.append(app('NCrash', C(val)))
        views = [[(k, f, d, m, list(insts)) for k, f, d, m, insts in step] for step in observed['views']]
        return coq(((node, events, obs), views))

    def describe(self, inp, observed):
        cfg, evs = inp
        return {'cfg': cfg, 'events': [list(e) for e in evs], 'observed': observed['obs']}

    def from_description(self, desc):
        def tup(e):
            e = list(e)
            if e[0] in ('PeerTick', 'PeerState', 'Auth', 'AllInfo', 'InstFailure'):
                e[1] = tuple(e[1])
            if e[0] == 'PeerState':
                e[5] = [tuple(x) for x in e[5]]
            if e[0] == 'Ident' and e[1] is not None:
                e[1] = tuple(e[1])
            for k, x in enumerate(e):
                if isinstance(x, list) and x and isinstance(x[0], list) and len(x[0]) == 3 and isinstance(x[0][0], bool):
                    e[k] = [tuple(y) for y in x]
            return tuple(e)
        return (desc['cfg'], [tup(e) for e in desc['events']])

    def nontrivial(self, inp, observed):
        states = {v[0] for t, v in observed['obs'] if t == 'ok'}
        lost = any(t == 'ok' and any(i[1] in (4, 5) for i in v[5]) for t, v in observed['obs'])
        if len(states) >= 3 or lost:
            last = observed['obs'][-1]
            return repr((sorted(states), last[1][:4] if last[0] == 'ok' else last, len(inp[1])))
        return None

    def shrink_candidates(self, inp):
        cfg, evs = inp
        from propcheck import list_cuts
        return [(cfg, cut) for cut in list_cuts(list(evs))]

    def size_of(self, inp):
        return len(inp[1])

    def distribution(self, inputs, observeds):
        kinds, lens, crashes, maxstate = {}, {}, {}, {}
        for (cfg, evs), ob in zip(inputs, observeds):
            b = f'{(len(evs) // 20) * 20}+'
            lens[b] = lens.get(b, 0) + 1
            for e in evs:
                kinds[e[0]] = kinds.get(e[0], 0) + 1
            if ob['obs'] and ob['obs'][-1][0] == 'crash':
                crashes[ob['obs'][-1][1]] = crashes.get(ob['obs'][-1][1], 0) + 1
            ms = max([v[0] for t, v in ob['obs'] if t == 'ok'] or [0])
            maxstate[SSTATES[ms]] = maxstate.get(SSTATES[ms], 0) + 1
        return {'event_kinds': kinds, 'history_lengths': lens, 'crashes': crashes, 'furthest_fsm_state': maxstate}
