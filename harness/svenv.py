"""Build real Supvisors objects in-process, offline, the way supvisors/tests/conftest.py does (sockets patched),
without pytest. Also provides the logical clock that replaces time.monotonic / time.time."""
import os
import sys
from unittest.mock import Mock, patch

REPO = os.environ.get('VERIF_REPO', '/repo')
if REPO not in sys.path:
    sys.path.insert(0, REPO)

DICT_OPTIONS = {'software_name': 'Supvisors tests', 'event_link': 'none', 'event_port': '25200',
                'synchro_timeout': '20', 'inactivity_ticks': '2', 'core_identifiers': '',
                'disabilities_file': 'disabilities.json', 'auto_fence': 'on', 'rules_files': 'my_movies.xml',
                'starting_strategy': 'CONFIG', 'conciliation_strategy': 'USER', 'stats_enabled': 'true',
                'stats_periods': '5,15,60', 'stats_histo': '10', 'stats_irix_mode': 'False', 'logfile': 'AUTO',
                'logfile_maxbytes': '10000', 'logfile_backups': '12', 'loglevel': 'blather'}


class Clock:
    """ logical clock owned by the harness """
    def __init__(self, start=1000.0):
        self.now = start
        self.once = []     # one-shot values returned by the next calls of monotonic() (a request that started earlier)

    def monotonic(self):
        if self.once:
            return self.once.pop(0)
        return self.now

    def time(self):
        return self.now + 1.0e6


CLOCK = Clock()
_patches = []


def install_clock():
    import time
    p1 = patch.object(time, 'monotonic', CLOCK.monotonic)
    p2 = patch.object(time, 'time', CLOCK.time)
    p1.start()
    p2.start()
    _patches.extend([p1, p2])


def _gethostbyaddr(x):
    ident = x.split('.')[-1]
    return f'supv0{ident}.bzh', [f'cliche0{ident}', f'supv0{ident}'], [x]


def install_network_patches():
    ioctl_map = {'lo': ('127.0.0.1', '255.0.0.0'), 'eth0': ('10.0.0.1', '255.255.255.0')}
    ps = [patch('socket.gethostname', return_value='supv01.bzh'),
          patch('socket.getfqdn', return_value='supv01.bzh'),
          patch('socket.gethostbyaddr', side_effect=_gethostbyaddr),
          patch('socket.if_nameindex', return_value=[(1, 'lo'), (2, 'eth0')]),
          patch('uuid.getnode', return_value=1250999896491),
          patch('supvisors.internal_com.mapper.get_interface_info', side_effect=lambda x: ioctl_map[x])]
    for p in ps:
        p.start()
    _patches.extend(ps)


_installed = False


def setup():
    global _installed
    if not _installed:
        install_network_patches()
        _installed = True


class NullLogger:
    """ cheap stand-in for the Mock(spec=Logger) of the test fixtures (a Mock records every call: very slow) """
    level = 20
    handlers = []

    def _noop(self, *args, **kwargs):
        return None

    def __getattr__(self, name):
        return self._noop


NULL_LOGGER = NullLogger()


def make_supvisors(options=None):
    """ a MockedSupvisors (real options/mapper/context/state_modes, mocked starter/stopper/fsm...) """
    setup()
    from supvisors.tests.base import DummySupervisor, MockedSupvisors
    from supvisors.internal_com.mapper import LocalNetwork
    opts = dict(DICT_OPTIONS)
    opts.update(options or {})
    class FastSupvisors(MockedSupvisors):
        def __setattr__(self, name, value):
            if name == 'logger':
                value = NULL_LOGGER
            object.__setattr__(self, name, value)
    supv = FastSupvisors(DummySupervisor(), opts)
    for sup_id in supv.mapper.instances.values():
        sup_id.local_view = LocalNetwork(supv.logger)
        machine_id = '01:23:45:67:89:ab' if int(sup_id.ip_address.split('.')[-1]) % 2 else 'ab:cd:ef:01:23:45'
        sup_id.local_view.machine_id = machine_id
        eth0 = sup_id.local_view.addresses['eth0']
        eth0.ipv4_addresses[0] = sup_id.ip_address
        eth0.nic_info.ipv4_address = sup_id.ip_address
        supv.mapper.nodes.setdefault(machine_id, []).append(sup_id.identifier)
    return supv


def crash_kind(exc):
    """ map a Python exception to the model's crash enum """
    from supvisors.ttypes import InvalidTransition
    import re as _re
    if isinstance(exc, RecursionError):
        return 'OutOfFuel'       # the drivers' guard against a loop that does not terminate
    table = [(KeyError, 'KeyError'), (InvalidTransition, 'InvalidTransition'), (ValueError, 'ValueError'),
             (TypeError, 'TypeError'), (AttributeError, 'AttributeError'), (IndexError, 'IndexError'),
             (_re.error, 'ReError'), (AssertionError, 'AssertionError')]
    for cls, name in table:
        if isinstance(exc, cls):
            return name
    return 'OtherError'
