"""T3 driver for Rules.v: generated XML rules documents parsed by the real supvisors.sparser.Parser (lxml + XSD,
and xml.etree.ElementTree as the repo does when lxml is missing), queried for application and program names;
the resolved rules are loaded into real ApplicationRules / ProcessRules, the processes of each program are put
in a real HomogeneousGroup and resolve_rules() is run twice (instances known at first, then more instances).

What is recorded: the rule attributes (identifiers / at_identifiers / hash_identifiers, sequences, flags, loading,
strategies as enum values), exceptions as crash kinds. Strings travel as integers (injective per case)."""
import json
import os
import re
import shutil
import sys
import tempfile
from collections import OrderedDict
from xml.sax.saxutils import escape, quoteattr

import svenv
from common import C, app, coq
from propcheck import Suite

INSTANCES = [f'10.0.0.{i}:25000' for i in range(1, 7)]
RESERVED = {'': 0, '*': 1, '#': 2, '@': 3}

APP_NAMES = ['app', 'app_1', 'app_2', 'app-3', 'web', 'web_01', 'db', 'appx_0', 'app_10']
APP_PATTERNS = ['app', 'app_', r'app_\d+', 'a.*', '^web', r'web_\d+$', '', 'p{2}', '.+', r'[-_]\d', 'db|web']
PRG_NAMES = ['prg', 'prg_0', 'prg_1', 'prg_2', 'prg_3', 'other', 'xclock', 'prg_10', 'prg_x']
PRG_PATTERNS = ['prg', 'prg_', r'prg_\d+', r'prg_[01]', 'p.*', r'\d', 'other|xclock', '', r'prg_\d$', 'g_']
BAD_PATTERNS = ['(', '[a', '*', 'a{2,1}', 'x(?i)y']
MODEL_NAMES = ['m1', 'm2', 'm3', 'm4', 'm5']
ALIAS_NAMES = ['al1', 'al2', 'al3']
STEREOS = ['st1', 'st2']
SFS = ['ABORT', 'STOP', 'CONTINUE']
RFS = ['CONTINUE', 'RESTART_PROCESS', 'STOP_APPLICATION', 'RESTART_APPLICATION', 'SHUTDOWN', 'RESTART']
DISTRIB = ['ALL_INSTANCES', 'SINGLE_INSTANCE', 'SINGLE_NODE']
STRATS = ['CONFIG', 'LESS_LOADED', 'MOST_LOADED', 'LOCAL', 'LESS_LOADED_NODE', 'MOST_LOADED_NODE']

PROGRAM_TAGS = ['reference', 'identifiers', 'start_sequence', 'stop_sequence', 'required', 'wait_exit',
                'expected_loading', 'starting_failure_strategy', 'running_failure_strategy']
APP_TAGS = ['distribution', 'identifiers', 'start_sequence', 'stop_sequence', 'starting_strategy',
            'starting_failure_strategy', 'running_failure_strategy']

APP_INDEX_RE = re.compile(r'.*[-_](\d+)$')      # the convention of ApplicationRules.check_hash_identifiers


# ---------------------------------------------------------------- XML serialisation
def xml_fields(fields, indent):
    out = []
    for tag, text in fields:
        if text is None:
            out.append(f'{indent}<{tag}/>')
        else:
            out.append(f'{indent}<{tag}>{escape(text)}</{tag}>')
    return out


def xml_attrs(e):
    s = ''
    if e.get('name') is not None:
        s += f' name={quoteattr(e["name"])}'
    if e.get('pattern') is not None:
        s += f' pattern={quoteattr(e["pattern"])}'
    return s


def xml_root(items):
    out = ['<?xml version="1.0" encoding="UTF-8" standalone="no"?>', '<root>']
    for it in items:
        if it['k'] == 'alias':
            attr = f' name={quoteattr(it["name"])}' if it.get('name') is not None else ''
            if it.get('text') is None:
                out.append(f'  <alias{attr}/>')
            else:
                out.append(f'  <alias{attr}>{escape(it["text"])}</alias>')
        elif it['k'] == 'model':
            out.append(f'  <model{xml_attrs(it)}>')
            out += xml_fields(it['fields'], '    ')
            out.append('  </model>')
        else:
            out.append(f'  <application{xml_attrs(it)}>')
            fields = list(it['fields'])
            blocks = it.get('programs') or []
            # the <programs> blocks are interleaved after the fields at position 'ppos' (xs:all: any order)
            pos = min(it.get('ppos', len(fields)), len(fields))
            lines = xml_fields(fields[:pos], '    ')
            for block in blocks:
                lines.append('    <programs>')
                for prg in block:
                    lines.append(f'      <program{xml_attrs(prg)}>')
                    lines += xml_fields(prg['fields'], '        ')
                    lines.append('      </program>')
                lines.append('    </programs>')
            lines += xml_fields(fields[pos:], '    ')
            out += lines
            out.append('  </application>')
    out.append('</root>')
    return '\n'.join(out) + '\n'


# ---------------------------------------------------------------- lexing (what the model receives)
def lex_int(text):
    if not text:
        return C('PEmpty')
    try:
        return app('PInt', int(text))
    except (TypeError, ValueError):
        return C('PNotInt')


def lex_bool(text):
    from distutils.util import strtobool
    if not text:
        return C('BEmpty')
    try:
        return app('PBool', bool(strtobool(text)))
    except ValueError:
        return C('PNotBool')


def lex_enum(text, klass):
    if not text:
        return C('EEmpty')
    if text in klass.__members__:
        return app('PEnum', int(klass[text].value))
    return C('PUnknown')


class Strings:
    """ injective string -> Z map of one case """
    def __init__(self):
        self.ids = dict(RESERVED)

    def __call__(self, s):
        if s not in self.ids:
            self.ids[s] = len(self.ids)
        return self.ids[s]


def tokens(text):
    from supervisor.datatypes import list_of_strings
    return list_of_strings(text) if text else []


class RulesSuite(Suite):
    name = 'rules'
    prelude = 'From Sup Require Import Rules.\nOpen Scope Z_scope.'
    case_type = 'case'
    evals = {'mismatches': 'mismatches', 'spec_violations': 'spec_violations',
             'known:model-sign-kept': 'known_sign_kept',
             'known:hash-empty-ref': 'known_hash_empty',
             'known:hash-foreign-id': 'known_hash_foreign'}
    shard_size = 120

    def __init__(self):
        self.supv = None
        self.full_instances = None
        self.full_nicks = None
        self.tmp = None

    # ---------------- generation
    def gen_ident_text(self, rng, hostile, signs_ok):
        pool = INSTANCES + INSTANCES + [i.split(':')[0] for i in INSTANCES[:3]] + ALIAS_NAMES + STEREOS + ['nobody']
        n = rng.choice([1, 1, 2, 2, 3, 4])
        toks = [rng.choice(pool) for _ in range(n)]
        r = rng.random()
        if r < 0.10:
            toks.insert(rng.randint(0, len(toks)), '*')
        if signs_ok and rng.random() < 0.45:
            sign = rng.choice(['#', '#', '@', '@', '#@'])
            if rng.random() < 0.35:
                toks = []
            if rng.random() < 0.25:
                toks = ['nobody'] * rng.randint(1, 2) if rng.random() < 0.5 else toks
            for s in sign:
                toks.insert(rng.randint(0, len(toks)), s)
        if rng.random() < 0.15 and toks:
            toks.append(rng.choice(toks))          # duplicate
        if hostile and rng.random() < 0.2:
            toks.insert(rng.randint(0, len(toks)), '')
        sep = rng.choice([',', ', ', ' , '])
        text = sep.join(toks)
        if hostile and rng.random() < 0.1:
            text = rng.choice(['', ',', ' ', ' , ,'])
        return text

    def gen_value(self, rng, tag, hostile):
        if tag in ('start_sequence', 'stop_sequence'):
            if hostile:
                return rng.choice(['0', '3', '-1', '200', 'abc', '1.5', '1_0', '', None, ' 4', '+2', '-0', '999999'])
            return rng.choice(['0', '1', '2', '5', '12', '127', ' 7 ', '+3', '-1', '-5', '-128', '0', '3'])
        if tag == 'expected_loading':
            if hostile:
                return rng.choice(['0', '50', '101', '-1', 'x', '1e2', '', None, '100', '1000', ' 9 '])
            return rng.choice(['0', '1', '25', '50', '100', ' 20 ', '+7', '99'])
        if tag in ('required', 'wait_exit'):
            if hostile:
                return rng.choice(['true', 'yes', 'on', 'Y', 'TRUE', 't', 'no', 'off', 'maybe', '', None, '2', 'False'])
            return rng.choice(['true', 'false', 'true', 'false', '1', '0', ' true ', ' false '])
        if tag == 'starting_failure_strategy':
            return rng.choice(SFS + (['abort', 'UNKNOWN', ' ABORT ', '', None] if hostile else []))
        if tag == 'running_failure_strategy':
            return rng.choice(RFS + (['continue', 'RESTART_ALL', '', None] if hostile else []))
        if tag == 'distribution':
            return rng.choice(DISTRIB + (['SINGLE', 'single_node', ''] if hostile else []))
        if tag == 'starting_strategy':
            return rng.choice(STRATS + (['config', 'RANDOM', None] if hostile else []))
        raise RuntimeError(tag)

    def gen_fields(self, rng, tags, hostile, models, signs_ok, p_ident=0.45):
        fields = []
        for tag in tags:
            if tag == 'reference':
                if models and rng.random() < 0.6:
                    pool = models + ([rng.choice(MODEL_NAMES), '', None] if hostile else [])
                    fields.append([tag, rng.choice(pool)])
            elif tag == 'identifiers':
                if rng.random() < p_ident:
                    fields.append([tag, self.gen_ident_text(rng, hostile, signs_ok)])
            elif rng.random() < 0.4:
                fields.append([tag, self.gen_value(rng, tag, hostile)])
        rng.shuffle(fields)
        if hostile and fields and rng.random() < 0.25:
            # duplicated child (ElementTree only): findtext takes the first one
            tag = rng.choice(fields)[0]
            if tag not in ('reference', 'identifiers'):
                fields.insert(rng.randint(0, len(fields)), [tag, self.gen_value(rng, tag, hostile)])
        return fields

    def gen_doc(self, rng, hostile):
        n_roots = rng.choice([1, 1, 1, 2, 3])
        models = rng.sample(MODEL_NAMES, rng.randint(0, 4))
        roots = [[] for _ in range(n_roots)]
        # aliases
        for name in rng.sample(ALIAS_NAMES, rng.randint(0, 3)):
            pool = INSTANCES + ALIAS_NAMES + ['nobody', '*'] + (['#', '@', ''] if hostile else [])
            toks = [rng.choice(pool) for _ in range(rng.randint(1, 3))]
            text = rng.choice([',', ', ']).join(toks)
            if hostile and rng.random() < 0.15:
                text = rng.choice(['', None, ' '])
            alias = {'k': 'alias', 'name': name, 'text': text}
            if hostile and rng.random() < 0.1:
                alias['name'] = rng.choice([None, '#', '*', ALIAS_NAMES[0]])
            rng.choice(roots).append(alias)
        # models, chains and cycles: references are drawn among all model names
        for name in models:
            fields = self.gen_fields(rng, PROGRAM_TAGS, hostile, models, signs_ok=True, p_ident=0.4)
            m = {'k': 'model', 'name': name, 'pattern': None, 'fields': fields}
            if hostile and rng.random() < 0.1:
                m['name'] = rng.choice([None, '', models[0]])
            rng.choice(roots).append(m)
        # applications
        n_apps = rng.randint(1, 4)
        used_names, used_pats = set(), set()
        for _ in range(n_apps):
            a = {'k': 'app', 'name': None, 'pattern': None}
            r = rng.random()
            if r < 0.55 or (r < 0.65 and hostile):
                a['name'] = rng.choice(APP_NAMES)
            if r >= 0.55 or (hostile and rng.random() < 0.15):
                a['pattern'] = rng.choice(APP_PATTERNS + (BAD_PATTERNS if hostile and rng.random() < 0.5 else []))
            if not hostile:
                # unambiguous documents in the mostly-valid stream
                if a['name'] in used_names or a['pattern'] in used_pats:
                    continue
            used_names.add(a['name'])
            used_pats.add(a['pattern'])
            a['fields'] = self.gen_fields(rng, APP_TAGS, hostile, [], signs_ok=True, p_ident=0.35)
            blocks = []
            n_blocks = 1 if not hostile else rng.choice([0, 1, 1, 2])
            pn, pp = set(), set()
            for _ in range(n_blocks):
                block = []
                for _ in range(rng.randint(0, 5)):
                    p = {'name': None, 'pattern': None}
                    r = rng.random()
                    if r < 0.4 or (hostile and r < 0.5):
                        p['name'] = rng.choice(PRG_NAMES)
                    if r >= 0.4 or (hostile and rng.random() < 0.1):
                        p['pattern'] = rng.choice(PRG_PATTERNS
                                                  + (BAD_PATTERNS if hostile and rng.random() < 0.2 else []))
                    if not hostile and (p['name'] in pn or p['pattern'] in pp):
                        continue
                    pn.add(p['name'])
                    pp.add(p['pattern'])
                    p['fields'] = self.gen_fields(rng, PROGRAM_TAGS, hostile, models, signs_ok=True)
                    block.append(p)
                if rng.random() < 0.55 and not any(p['pattern'] in ('prg_', r'prg_\d+', 'prg') for p in block):
                    # the rule of a homogeneous program prg_0 .. prg_n, mostly with a sign
                    p = {'name': None, 'pattern': rng.choice(['prg_', r'prg_\d+', 'prg'])}
                    p['fields'] = self.gen_fields(rng, PROGRAM_TAGS, hostile, models, signs_ok=True, p_ident=0.85)
                    block.insert(rng.randint(0, len(block)), p)
                blocks.append(block)
            if not hostile and not blocks[0] and rng.random() < 0.5:
                blocks = []
            a['programs'] = blocks
            a['ppos'] = rng.randint(0, len(a['fields']))
            rng.choice(roots).append(a)
        for r in roots:
            rng.shuffle(r)
        return roots

    def gen_queries(self, rng, roots, hostile):
        apps = [it for r in roots for it in r if it['k'] == 'app']
        queries = []
        names = [a['name'] for a in apps if a['name']] + rng.sample(APP_NAMES, 3)
        for name in rng.sample(names, min(len(names), rng.randint(2, 4))):
            queries.append(['app', name, rng.choice(STRATS)])
        declared = [a['name'] for a in apps if a['name']]
        for a in apps:
            if a['pattern'] is not None:
                try:
                    declared += [n for n in APP_NAMES if re.search(a['pattern'], n)][:2]
                except re.error:
                    pass
        for _ in range(rng.randint(1, 3)):
            appname = rng.choice(declared) if declared and rng.random() < 0.85 else rng.choice(names)
            kind = rng.random()
            if kind < 0.7:
                # a homogeneous group prg_0 .. prg_{n-1}
                n = rng.randint(1, 7)
                start = rng.choice([0, 0, 1])
                procs = [[f'prg_{i}', i] for i in range(start, start + n)]
                if rng.random() < 0.2:
                    procs.append(['prg_x', start + n])      # a member that the patterns may not cover
                if rng.random() < 0.3:
                    rng.shuffle(procs)
                if hostile and rng.random() < 0.2:
                    procs = [[p, 0] for p, _ in procs]       # inconsistent indexes
            else:
                procs = [[rng.choice(PRG_NAMES), 0] for _ in range(rng.randint(1, 3))]
                seen = set()
                procs = [p for p in procs if not (p[0] in seen or seen.add(p[0]))]
            queries.append(['group', appname, procs, rng.choice(SFS), rng.choice(RFS)])
        return queries

    def gen_input(self, rng, hostile):
        roots = self.gen_doc(rng, hostile)
        n1 = rng.choice([1, 2, 3, 3, 4, 6])
        n2 = rng.randint(n1, 6)
        stereos = {}
        for s in STEREOS:
            if rng.random() < 0.6:
                stereos[s] = rng.sample(INSTANCES, rng.randint(0, 3))
        return {'backend': 'et' if hostile else 'lxml', 'roots': roots, 'n1': n1, 'n2': n2, 'stereos': stereos,
                'queries': self.gen_queries(rng, roots, hostile)}

    def generate(self, rng, tier):
        n = 700 if tier == 'quick' else 20000
        out = []
        for k in range(n):
            hostile = (k % 4 == 3)
            inp = self.gen_input(rng, hostile)
            out.append(inp)
            if not hostile and k % 2 == 0:
                # the same accepted document through the ElementTree back-end
                twin = json.loads(json.dumps(inp))
                twin['backend'] = 'et'
                out.append(twin)
        return out

    def corpus(self):
        path = os.path.join(os.path.dirname(__file__), 'corpus', 'rules.json')
        if os.path.exists(path):
            with open(path) as f:
                return json.load(f)
        return []

    # ---------------- execution on the real classes
    def setup(self):
        if self.supv is None:
            self.supv = svenv.make_supvisors()
            self.full_instances = OrderedDict(self.supv.mapper._instances)
            assert list(self.full_instances.keys()) == INSTANCES, list(self.full_instances.keys())
            self.full_nicks = dict(self.supv.mapper._nick_identifiers)
            self.tmp = tempfile.mkdtemp(prefix='c18rules-')

    def set_env(self, n, stereos):
        mapper = self.supv.mapper
        mapper._instances = OrderedDict(list(self.full_instances.items())[:n])
        mapper._nick_identifiers = {k: v for k, v in self.full_nicks.items() if v in mapper._instances}
        mapper.stereotypes = {k: [i for i in v if i in mapper._instances] for k, v in stereos.items()}

    def env_literal(self, sid, n, stereos):
        inst = INSTANCES[:n]
        nicks = [(sid(k), sid(v)) for k, v in self.full_nicks.items() if v in inst]
        st = [(sid(k), [sid(i) for i in v if i in inst]) for k, v in stereos.items()]
        return app('mkEnv', [sid(i) for i in inst], nicks, st)

    def make_parser(self, inp):
        from supvisors.sparser import Parser
        paths = []
        for k, items in enumerate(inp['roots']):
            path = os.path.join(self.tmp, f'rules_{k}.xml')
            with open(path, 'w', encoding='utf-8') as f:
                f.write(xml_root(items))
            paths.append(path)
        self.supv.options.rules_files = paths
        saved = sys.modules.get('lxml.etree', 'absent')
        if inp['backend'] == 'et':
            sys.modules['lxml.etree'] = None        # `from lxml.etree import …` raises ImportError
        try:
            parser = Parser(self.supv)
        finally:
            if inp['backend'] == 'et':
                if saved == 'absent':
                    del sys.modules['lxml.etree']
                else:
                    sys.modules['lxml.etree'] = saved
        mod = type(parser.roots[0]).__module__ if parser.roots else ''
        if parser.roots:
            assert ('lxml' in mod) == (inp['backend'] == 'lxml'), (mod, inp['backend'])
        return parser

    @staticmethod
    def triple(rules):
        return [list(rules.identifiers), list(rules.at_identifiers), list(rules.hash_identifiers)]

    def execute(self, inp):
        from supervisor.options import make_namespec
        from supvisors.application import ApplicationRules, HomogeneousGroup
        from supvisors.process import ProcessRules, ProcessStatus
        from supvisors.ttypes import StartingStrategies, StartingFailureStrategies, RunningFailureStrategies
        self.setup()
        self.set_env(inp['n1'], inp['stereos'])
        parser = self.make_parser(inp)     # a refused document is a driver error: the generator targets accepted ones
        out = []
        for q in inp['queries']:
            self.set_env(inp['n1'], inp['stereos'])
            if q[0] == 'app':
                rules = ApplicationRules(self.supv)
                rules.starting_strategy = StartingStrategies[q[2]]
                try:
                    parser.load_application_rules(q[1], rules)
                    out.append(['app', 'ok', [bool(rules.managed), int(rules.distribution.value), self.triple(rules),
                                              int(rules.start_sequence), int(rules.stop_sequence),
                                              int(rules.starting_strategy.value),
                                              int(rules.starting_failure_strategy.value),
                                              int(rules.running_failure_strategy.value)]])
                except Exception as exc:
                    out.append(['app', 'crash', svenv.crash_kind(exc)])
                continue
            _, appname, procs, sfs0, rfs0 = q
            loads, statuses = [], []
            # the real call path: Context.setdefault_process creates the rules of a new process from the application's
            # failure strategies, then lets the rules file supersede them
            from supvisors.application import ApplicationStatus
            from drv_strategy import proc_payload
            ctx = self.supv.context
            arules = ApplicationRules(self.supv)
            arules.starting_failure_strategy = StartingFailureStrategies[sfs0]
            arules.running_failure_strategy = RunningFailureStrategies[rfs0]
            ctx.applications.clear()
            ctx.applications[appname] = ApplicationStatus(appname, arules, self.supv)
            self.supv.parser = parser
            for pname, pindex in procs:
                try:
                    process = ctx.setdefault_process(self.supv.mapper.local_identifier,
                                                     proc_payload(appname, pname, 'STOPPED'))
                    rules = process.rules
                except Exception as exc:
                    loads.append(['crash', svenv.crash_kind(exc)])
                    continue
                loads.append(['ok', [self.triple(rules), int(rules.start_sequence), int(rules.stop_sequence),
                                     bool(rules.required), bool(rules.wait_exit), int(rules.expected_load),
                                     int(rules.starting_failure_strategy.value),
                                     int(rules.running_failure_strategy.value)]])
                status = ProcessStatus(appname, pname, rules, self.supv)
                status._program_name = 'prg'
                status._process_index = pindex
                statuses.append(status)
            res = [['ok', []], ['ok', []]]
            if all(l[0] == 'ok' for l in loads):
                group = HomogeneousGroup('prg', self.supv)
                for status in statuses:
                    group.add_process(status)
                for k, n in enumerate((inp['n1'], inp['n2'])):
                    self.set_env(n, inp['stereos'])
                    try:
                        group.resolve_rules()
                        res[k] = ['ok', [self.triple(s.rules) for s in statuses]]
                    except Exception as exc:
                        res[k] = ['crash', svenv.crash_kind(exc)]
            out.append(['group', loads, res[0], res[1]])
        return out

    # ---------------- emission
    def emit_fields(self, sid, fields):
        from supvisors.ttypes import (DistributionRules, StartingStrategies, StartingFailureStrategies,
                                      RunningFailureStrategies)
        out = []
        for tag, text in fields:
            if tag == 'reference':
                out.append(app('FRef', sid(text or '')))
            elif tag == 'identifiers':
                out.append(app('FIdents', [sid(t) for t in tokens(text)]))
            elif tag == 'start_sequence':
                out.append(app('FStart', lex_int(text)))
            elif tag == 'stop_sequence':
                out.append(app('FStop', lex_int(text)))
            elif tag == 'required':
                out.append(app('FRequired', lex_bool(text)))
            elif tag == 'wait_exit':
                out.append(app('FWaitExit', lex_bool(text)))
            elif tag == 'expected_loading':
                out.append(app('FLoading', lex_int(text)))
            elif tag == 'starting_failure_strategy':
                out.append(app('FSfs', lex_enum(text, StartingFailureStrategies)))
            elif tag == 'running_failure_strategy':
                out.append(app('FRfs', lex_enum(text, RunningFailureStrategies)))
            elif tag == 'distribution':
                out.append(app('FDistribution', lex_enum(text, DistributionRules)))
            elif tag == 'starting_strategy':
                out.append(app('FStrategy', lex_enum(text, StartingStrategies)))
            else:
                raise RuntimeError(tag)
        return out

    def emit_elt(self, sid, e):
        def opt(s):
            return None if s is None else app('Some', sid(s))
        return app('mkElt', opt(e.get('name')), opt(e.get('pattern')), self.emit_fields(sid, e['fields']))

    @staticmethod
    def emit_result(r, ok):
        return app('Ok', ok(r[1])) if r[0] == 'ok' else app('Crash', C(r[1]))

    def emit(self, inp, observed):
        from supvisors.ttypes import StartingStrategies, StartingFailureStrategies, RunningFailureStrategies
        self.setup()
        sid = Strings()
        for i in INSTANCES:
            sid(i)
        doc = []
        app_pats, prg_pats = [], []
        for items in inp['roots']:
            root = []
            for it in items:
                if it['k'] == 'alias':
                    name = None if it.get('name') is None else app('Some', sid(it['name']))
                    root.append(app('IAlias', name, [sid(t) for t in tokens(it.get('text'))]))
                elif it['k'] == 'model':
                    root.append(app('IModel', self.emit_elt(sid, it)))
                else:
                    progs = [p for block in (it.get('programs') or []) for p in block]
                    root.append(app('IApp', self.emit_elt(sid, it), [self.emit_elt(sid, p) for p in progs]))
                    if it.get('pattern') is not None:
                        app_pats.append(it['pattern'])
                    prg_pats += [p['pattern'] for p in progs if p.get('pattern') is not None]
            doc.append(root)
        app_names, prg_names = [], []
        queries = []
        for q in inp['queries']:
            if q[0] == 'app':
                mo = APP_INDEX_RE.match(q[1])
                idx = app('Some', int(mo.group(1))) if mo else None
                queries.append(app('QApp', sid(q[1]), idx, int(StartingStrategies[q[2]].value)))
                app_names.append(q[1])
            else:
                _, appname, procs, sfs0, rfs0 = q
                queries.append(app('QGroup', sid(appname), [(sid(p), i) for p, i in procs],
                                   int(StartingFailureStrategies[sfs0].value),
                                   int(RunningFailureStrategies[rfs0].value)))
                app_names.append(appname)
                prg_names += [p for p, _ in procs]
        oracle = []
        for pats, names in ((app_pats, app_names), (prg_pats, prg_names)):
            for pat in OrderedDict.fromkeys(pats):
                for name in OrderedDict.fromkeys(names):
                    try:
                        mo = re.search(f'({pat})', name)
                    except re.error:
                        oracle.append((sid(pat), sid(name), C('MErr')))
                        continue
                    if mo:
                        oracle.append((sid(pat), sid(name), app('MLen', len(mo.group()))))
        obs = []
        for o in observed:
            def tr(t):
                return tuple([sid(x) for x in part] for part in t)
            if o[0] == 'app':
                obs.append(app('OApp', self.emit_result(
                    o[1:], lambda v: (v[0], v[1], tr(v[2]), v[3], v[4], v[5], v[6], v[7]))))
            else:
                loads = [self.emit_result(l, lambda v: (tr(v[0]), v[1], v[2], v[3], v[4], v[5], v[6], v[7]))
                         for l in o[1]]
                r1 = self.emit_result(o[2], lambda v: [tr(t) for t in v])
                r2 = self.emit_result(o[3], lambda v: [tr(t) for t in v])
                obs.append(app('OGroup', loads, r1, r2))
        env1 = self.env_literal(sid, inp['n1'], inp['stereos'])
        env2 = self.env_literal(sid, inp['n2'], inp['stereos'])
        return coq(app('mkCase', doc, oracle, env1, env2, queries, obs))

    # ---------------- small batches (shrinking, replay) are spread over many small shards
    def evaluate(self, workdir, inputs, observeds=None):
        saved = self.shard_size
        if len(inputs) <= 160:
            self.shard_size = 10
        try:
            return super().evaluate(workdir, inputs, observeds)
        finally:
            self.shard_size = saved

    def shrink(self, workdir, inp, eval_name, max_rounds=30):
        return super().shrink(workdir, inp, eval_name, max_rounds=max_rounds)

    # ---------------- reporting
    def describe(self, inp, observed):
        return {'input': inp, 'observed': observed, 'xml': [xml_root(r) for r in inp['roots']]}

    def from_description(self, desc):
        return desc['input']

    def nontrivial(self, inp, observed):
        structured = any(it['k'] == 'app' and (it.get('pattern') is not None or any(
            p.get('pattern') is not None or any(f[0] == 'reference' for f in p['fields'])
            for block in (it.get('programs') or []) for p in block)) for r in inp['roots'] for it in r)
        default_triple = [['*'], [], []]
        moved = False
        for o in observed:
            if o[0] == 'app' and o[1] == 'ok' and o[2][0]:
                moved = True
            if o[0] == 'group':
                for l in o[1]:
                    if l[0] == 'ok' and (l[1][0] != default_triple or l[1][1] != 0):
                        moved = True
        if structured and moved:
            return json.dumps(observed, sort_keys=True)
        return None

    def shrink_candidates(self, inp):
        out = []

        def variant(mut):
            v = json.loads(json.dumps(inp))
            try:
                mut(v)
            except (IndexError, KeyError):
                return
            out.append(v)
        for k in range(len(inp['queries'])):
            if len(inp['queries']) > 1:
                variant(lambda v, k=k: v['queries'].pop(k))
            q = inp['queries'][k]
            if q[0] == 'group' and len(q[2]) > 1:
                for j in range(len(q[2])):
                    variant(lambda v, k=k, j=j: v['queries'][k][2].pop(j))
        for r, items in enumerate(inp['roots']):
            for i, it in enumerate(items):
                variant(lambda v, r=r, i=i: v['roots'][r].pop(i))
                for f in range(len(it.get('fields', []))):
                    variant(lambda v, r=r, i=i, f=f: v['roots'][r][i]['fields'].pop(f))
                for b, block in enumerate(it.get('programs') or []):
                    for p, prg in enumerate(block):
                        variant(lambda v, r=r, i=i, b=b, p=p: v['roots'][r][i]['programs'][b].pop(p))
                        for f in range(len(prg['fields'])):
                            variant(lambda v, r=r, i=i, b=b, p=p, f=f:
                                    v['roots'][r][i]['programs'][b][p]['fields'].pop(f))
        if inp['n2'] > inp['n1']:
            variant(lambda v: v.__setitem__('n2', v['n1']))
        if inp['stereos']:
            variant(lambda v: v.__setitem__('stereos', {}))
        return out

    def distribution(self, inputs, observeds):
        d = {'backend': {}, 'roots': {}, 'items': {'alias': 0, 'model': 0, 'app': 0}, 'app_patterns': 0,
             'program_elements': 0, 'program_patterns': 0, 'references': 0, 'queries': {'app': 0, 'group': 0},
             'managed_apps': 0, 'crashes': {}, 'loads_with_sign': 0, 'groups_resolved': 0,
             'resolutions_assigning': 0}
        for inp, obs in zip(inputs, observeds):
            d['backend'][inp['backend']] = d['backend'].get(inp['backend'], 0) + 1
            nr = str(len(inp['roots']))
            d['roots'][nr] = d['roots'].get(nr, 0) + 1
            for r in inp['roots']:
                for it in r:
                    d['items'][it['k']] += 1
                    if it['k'] == 'app':
                        d['app_patterns'] += it.get('pattern') is not None
                        for block in it.get('programs') or []:
                            for p in block:
                                d['program_elements'] += 1
                                d['program_patterns'] += p.get('pattern') is not None
                                d['references'] += any(f[0] == 'reference' for f in p['fields'])
            for o in obs:
                d['queries'][o[0]] += 1
                if o[0] == 'app':
                    if o[1] == 'crash':
                        d['crashes'][o[2]] = d['crashes'].get(o[2], 0) + 1
                    else:
                        d['managed_apps'] += bool(o[2][0])
                else:
                    for l in o[1]:
                        if l[0] == 'crash':
                            d['crashes'][l[1]] = d['crashes'].get(l[1], 0) + 1
                        elif l[1][0][1] or l[1][0][2]:
                            d['loads_with_sign'] += 1
                    for r in o[2:4]:
                        if r[0] == 'crash':
                            key = 'resolve:' + r[1]
                            d['crashes'][key] = d['crashes'].get(key, 0) + 1
                    if o[2][0] == 'ok' and o[2][1]:
                        d['groups_resolved'] += 1
                        before = [l[1][0] for l in o[1]]
                        d['resolutions_assigning'] += before != o[2][1]
        return d

    def __del__(self):
        if self.tmp:
            shutil.rmtree(self.tmp, ignore_errors=True)
