"""T3 drivers for Replication.v (C12, process-plane clause of C13).

Level 1 (`ReceiverSuite`): one REAL Context behind the REAL SupervisorListener.read_publication /
read_notification and the REAL FiniteStateMachine event entry points, fed with process-plane messages
(accepted and refused), compared per process with the model through the C11 observable.

Level 2 (`ClusterSuite`): 2-4 REAL Contexts (one Supvisors structure per node, each with its own local
identifier), the REAL RpcHandler / SupervisorProxyServer / SupervisorProxy.publish / check_instance code
(only the thread and the XML-RPC transport are replaced: queues are drained by the scheduler of the harness and
`send_remote_comm_event` hands the JSON text to the target node's listener), fake Supervisors = a dict of
process states per node. The harness plays the scheduler with the actions of `Replication.action`.
"""
import json
import types

import svenv
from common import C, app, coq
from propcheck import Suite, list_cuts
from drv_process import CODE, NAMES, full_payload as _full_payload, event_payload as _event_payload, ProcessSuite

INAMES = ['ISTOPPED', 'CHECKING', 'CHECKED', 'IRUNNING', 'IFAILED', 'ISOLATED']
RUNNING_LIKE = ('STARTING', 'RUNNING', 'BACKOFF')
PLAUSIBLE = {'STOPPED': ['STARTING'], 'STARTING': ['RUNNING', 'BACKOFF', 'STOPPING'],
             'RUNNING': ['STOPPING', 'EXITED'], 'BACKOFF': ['STARTING', 'FATAL'],
             'STOPPING': ['STOPPED'], 'EXITED': ['STARTING'], 'FATAL': ['STARTING'], 'UNKNOWN': ['STARTING']}


def ident(i):
    return f'10.0.0.{i}:25000'


def idx(identifier):
    return int(identifier.split(':')[0].split('.')[-1])


def group_of(k):
    return f'app{k % 2}'


def name_of(k):
    return f'p{k}'


def key_of(process_name):
    return int(process_name[1:])


def full_payload(k, st, expected, now_mono, disabled):
    p = _full_payload(st, expected, now_mono, disabled)
    p.update({'group': group_of(k), 'name': name_of(k), 'program_name': name_of(k)})
    return p


def event_payload(i, k, st, expected, now_mono):
    p = _event_payload(i, st, expected, now_mono)
    p.update({'group': group_of(k), 'name': name_of(k)})
    return p


# ---------------------------------------------------------------------------------------------------------
# one real node
# ---------------------------------------------------------------------------------------------------------
_POOL = {}
_CLOCK_INSTALLED = [False]


def _proxy_class():
    """ SupervisorProxyThread without the thread: the queue is drained by the harness scheduler """
    from supvisors.internal_com.supervisorproxy import SupervisorProxyThread, InternalEventHeaders
    from supvisors.ttypes import PublicationHeaders

    class HarnessProxy(SupervisorProxyThread):
        def __init__(self, status, supvisors):
            SupervisorProxyThread.__init__(self, status, supvisors)
            self.pubs = []       # PROCESS publications waiting in this proxy's queue
            self.ntfs = []       # notifications (local proxy only)
            self.requests = []   # deferred requests (CHECK_INSTANCE ...): run by the scheduler action SnapshotRead

        def start(self):
            pass

        def join(self, timeout=None):
            # what run() does when it leaves its loop
            self.supvisors.rpc_handler.proxy_server.on_proxy_closing(self.status.identifier)

        def push_message(self, message):
            kind, (source, body) = message[0], message[1]
            if kind == InternalEventHeaders.PUBLICATION:
                if body[0] == PublicationHeaders.PROCESS.value:
                    self.pubs.append(message)
                # TICK / STATE / statistics publications are not part of the process plane
            elif kind == InternalEventHeaders.NOTIFICATION:
                self.ntfs.append(message)
            else:
                self.requests.append(message)

        def _get_proxy(self):
            return self.supvisors._verif_node.cluster.server_proxy(idx(self.status.identifier))

        def send_remote_comm_event(self, event_type, event):
            # the XML-RPC sendRemoteCommEvent: Supervisor notifies a RemoteCommunicationEvent, handled
            # synchronously by SupervisorListener.on_remote_event in the target's main loop
            target = self.supvisors._verif_node.cluster.nodes[idx(self.status.identifier)]
            target.on_remote_event(event_type, json.dumps(event))

    return HarnessProxy


class RealNode:
    """ the real Context / StateModes / FSM / RpcHandler of one Supvisors instance """

    def __init__(self, me, cluster=None):
        from supvisors.context import Context
        from supvisors.statemodes import SupvisorsStateModes
        from supvisors.statemachine import FiniteStateMachine
        from supvisors.internal_com.rpchandler import RpcHandler
        if not _CLOCK_INSTALLED[0]:
            svenv.install_clock()
            _CLOCK_INSTALLED[0] = True
        if me not in _POOL:
            supv = svenv.make_supvisors()
            supv.mapper.local_identifier = ident(me)
            supv.parser = None
            supv.options.process_stats_enabled = False
            supv.stats_collector = None
            nothing = lambda *a, **k: None
            for obj in (supv.starter, supv.stopper, supv.failure_handler):
                for meth in ('on_event', 'check', 'trigger_jobs', 'abort', 'add_default_job',
                             'on_instances_invalidation'):
                    setattr(obj, meth, nothing)
            supv.starter.in_progress = lambda: False
            supv.stopper.in_progress = lambda: False
            _POOL[me] = supv
        supv = self.supv = _POOL[me]
        self.me = me
        self.cluster = cluster
        supv._verif_node = self
        supv.external_publisher = None
        supv.options.auto_fence = True
        supv.state_modes = _state_modes_class()(supv)
        supv.context = Context(supv)
        supv.rpc_handler = RpcHandler(supv)
        supv.rpc_handler.proxy_server.klass = _proxy_class_cached()
        supv.fsm = FiniteStateMachine(supv)
        self.ctx = supv.context
        self.lst = types.SimpleNamespace(supvisors=supv, fsm=supv.fsm, logger=supv.logger)
        self.tick_counter = 0

    # ------------- entry points of the main loop
    def on_remote_event(self, event_type, text):
        from supvisors.listener import SupervisorListener
        from supvisors.ttypes import SUPVISORS_PUBLICATION
        if event_type == SUPVISORS_PUBLICATION:
            SupervisorListener.read_publication(self.lst, text)
        else:
            SupervisorListener.read_notification(self.lst, text)

    def origin(self, j):
        sid = self.supv.mapper.instances.get(ident(j))
        if sid is None:      # an identifier that the local mapper does not know
            return ident(j), f'n{j}', (f'10.0.0.{j}', 25000)
        return sid.source

    def publication(self, j, header, body):
        from supvisors.ttypes import SUPVISORS_PUBLICATION
        self.on_remote_event(SUPVISORS_PUBLICATION, json.dumps((self.origin(j), (header.value, body))))

    def notification(self, j, header, body):
        from supvisors.ttypes import SUPVISORS_NOTIFICATION
        self.on_remote_event(SUPVISORS_NOTIFICATION, json.dumps((self.origin(j), (header.value, body))))

    # ------------- the receiver-level operations (Replication.rop)
    def apply(self, o):
        from supvisors.ttypes import PublicationHeaders as PH, NotificationHeaders as NH, AuthorizationTypes as AT
        from supvisors.ttypes import SupvisorsStates
        kind = o[0]
        ctx = self.ctx
        if kind == 'LoadAll':
            _, j, infos, nm, now = o
            svenv.CLOCK.now = now
            self.notification(j, NH.ALL_INFO, [full_payload(k, st, e, nm, d) for (k, st, e, d) in infos])
        elif kind == 'Added':
            _, j, (k, st, e, d), nm, now = o
            svenv.CLOCK.now = now
            self.publication(j, PH.PROCESS_ADDED, full_payload(k, st, e, nm, d))
        elif kind == 'ProcEvent':
            _, j, k, st, e, nm, now = o
            svenv.CLOCK.now = now
            payload = event_payload(j, k, st, e, nm)
            if j == self.me:
                # SupervisorListener.on_process_state: the local event does not go through the proxies
                self.supv.fsm.on_process_state_event(ctx.local_status, payload)
            else:
                self.publication(j, PH.PROCESS, payload)
        elif kind == 'ForcedEvent':
            _, j, k, target, st, et, now = o
            svenv.CLOCK.now = now
            payload = event_payload(target, k, st, False, et)
            payload['forced'] = True
            payload['spawnerr'] = 'forced by harness'
            if j == self.me:
                self.supv.fsm.on_process_state_event(ctx.local_status, payload)
            else:
                self.publication(j, PH.PROCESS, payload)
        elif kind == 'Removed':
            _, j, k = o
            payload = {'group': group_of(k), 'name': name_of(k)}
            if j == self.me:
                self.supv.fsm.on_process_removed_event(ctx.local_status, payload)
            else:
                self.publication(j, PH.PROCESS_REMOVED, payload)
        elif kind == 'Disability':
            _, j, k, b = o
            payload = full_payload(k, 'STOPPED', True, 0, b)
            if j == self.me:
                self.supv.fsm.on_process_disability_event(ctx.local_status, payload)
            else:
                self.publication(j, PH.PROCESS_DISABILITY, payload)
        elif kind == 'Tick':
            _, j, rmt, now = o
            svenv.CLOCK.now = now
            self.tick_counter += 1
            payload = {'when': rmt + 1000000, 'when_monotonic': rmt, 'sequence_counter': self.tick_counter}
            if j == self.me:
                ctx.on_local_tick_event(payload)      # SupervisorListener.on_tick
            else:
                self.publication(j, PH.TICK, payload)
        elif kind == 'Auth':
            _, j, ok, ts, now = o
            svenv.CLOCK.now = now
            code = AT.AUTHORIZED.value if ok else AT.NOT_AUTHORIZED.value
            self.notification(j, NH.AUTHORIZATION, {'authorization': code, 'now_monotonic': ts})
        elif kind == 'Failure':
            _, j, now = o
            svenv.CLOCK.now = now
            self.notification(j, NH.INSTANCE_FAILURE, None)
        elif kind == 'InvalidateFailed':
            _, iso, now = o
            svenv.CLOCK.now = now
            # Context.invalidate isolates when auto_fence is set and the Master is in a working state:
            # that condition is the environment input `iso`
            self.supv.state_modes._verif_master_state = SupvisorsStates.OPERATION if iso else SupvisorsStates.OFF
            ctx.invalidate_failed()
        elif kind == 'Activate':
            svenv.CLOCK.now = o[1]
            ctx.activate_checked()
        else:
            raise RuntimeError(kind)

    def observe(self, peers):
        adms = [(j, self.ctx.instances[ident(j)].state.value) for j in peers]
        procs = []
        for application in self.ctx.applications.values():
            for process in application.processes.values():
                run, confl, st, disp, exp, forced, per = ProcessSuite.observe(process)
                procs.append((key_of(process.process_name), (run, confl, st, disp, exp, forced, per)))
        procs.sort(key=lambda kp: kp[0])
        return adms, procs


_PC = []
_SM = []


def _state_modes_class():
    """ SupvisorsStateModes whose `master_state` (the Master's FSM state as known locally: control plane, Node.v)
    is an input of the harness: it only decides between STOPPED and ISOLATED in Context.invalidate """
    if not _SM:
        from supvisors.statemodes import SupvisorsStateModes

        class HarnessStateModes(SupvisorsStateModes):
            _verif_master_state = None
            master_state = property(lambda self: self._verif_master_state)
        _SM.append(HarnessStateModes)
    return _SM[0]



def _proxy_class_cached():
    if not _PC:
        _PC.append(_proxy_class())
    return _PC[0]


# ---------------------------------------------------------------------------------------------------------
# emission helpers
# ---------------------------------------------------------------------------------------------------------
def emit_pinfo(t):
    k, st, e, d = t
    return (k, C(st), e, d)


def emit_rop(o):
    kind = o[0]
    if kind == 'LoadAll':
        _, j, infos, nm, now = o
        return app('LoadAll', j, [emit_pinfo(t) for t in infos], nm, now)
    if kind == 'Added':
        _, j, inf, nm, now = o
        return app('Added', j, emit_pinfo(inf), nm, now)
    if kind == 'ProcEvent':
        _, j, k, st, e, nm, now = o
        return app('ProcEvent', j, k, C(st), e, nm, now)
    if kind == 'ForcedEvent':
        _, j, k, target, st, et, now = o
        return app('ForcedEvent', j, k, target, C(st), et, now)
    if kind == 'Removed':
        return app('Removed', o[1], o[2])
    if kind == 'Disability':
        return app('Disability', o[1], o[2], o[3])
    if kind == 'Tick':
        return app('Tick', o[1], o[2], o[3])
    if kind == 'Auth':
        return app('Auth', o[1], o[2], o[3], o[4])
    if kind == 'Failure':
        return app('Failure', o[1], o[2])
    if kind == 'InvalidateFailed':
        return app('InvalidateFailed', o[1], o[2])
    if kind == 'Activate':
        return app('Activate', o[1])
    raise RuntimeError(kind)


def emit_robs(ob):
    adms, procs = ob
    return (list(adms), [(k, tuple(v[:6]) + (list(v[6]),)) for k, v in procs])


def robs_delta(prev, cur):
    """ (adms, changed processes, deleted keys) of `cur` w.r.t. `prev` """
    pprocs = dict(prev[1])
    cprocs = dict(cur[1])
    changed = [(k, v) for k, v in cur[1] if pprocs.get(k) != v]
    deleted = [k for k, _ in prev[1] if k not in cprocs]
    adms = None if list(cur[0]) == list(prev[0]) else app('Some', list(cur[0]))
    return (adms, [(k, tuple(v[:6]) + (list(v[6]),)) for k, v in changed], deleted)


ALL_PEERS = [1, 2, 3, 4, 5, 6]


def tuplify(x):
    if isinstance(x, list):
        return tuple(tuplify(e) for e in x)
    return x


# ---------------------------------------------------------------------------------------------------------
# level 1
# ---------------------------------------------------------------------------------------------------------
class ReceiverSuite(Suite):
    name = 'receiver'
    prelude = 'From Sup Require Import Replication.\nOpen Scope Z_scope.'
    case_type = 'rcase'
    evals = {'mismatches': 'rmismatches', 'spec_violations': 'rspec_violations'}

    # ---------------- generation
    def gen_case(self, rng, max_ops, hostile):
        n_inst = rng.randint(2, 5)
        n_proc = rng.randint(1, 6)
        peers = list(range(1, n_inst + 1))
        me = rng.choice(peers)
        keys = list(range(1, n_proc + 1))
        now = 1000
        st = {j: 'S' for j in peers}          # generator's own guess of the admission state (bias only)
        chk = {j: 0 for j in peers}
        loaded = {j: set() for j in peers}
        last = {}
        remote = {j: rng.randint(0, 50) for j in peers}
        ops = []
        n_ops = rng.randint(1, max_ops)
        if rng.random() < 0.85:
            # the local instance passes its own handshake first (remote ticks are ignored before that)
            ops += [('Tick', me, remote[me], now + 1), ('Auth', me, True, now + 2, now + 2)]
            now += 2
            st[me] = 'D'
            chk[me] = now - 1

        def pick_state(j, k):
            if (j, k) in last and rng.random() < 0.6:
                return rng.choice(PLAUSIBLE[last[(j, k)]])
            return rng.choice(NAMES)

        while len(ops) < n_ops:
            now += 1
            j = rng.choice(peers)
            remote[j] += rng.randint(0, 4)
            r = rng.random()
            if hostile and r < 0.25:
                # anything from anybody (also unknown identifiers and unknown processes)
                jj = rng.choice(peers + [6, 9])
                k = rng.choice(keys + [9])
                kind = rng.choice(['ProcEvent', 'ForcedEvent', 'Removed', 'Disability', 'LoadAll', 'Added', 'Auth'])
                if kind == 'ProcEvent':
                    ops.append(('ProcEvent', jj, k, rng.choice(NAMES), rng.random() < 0.7, remote[j], now))
                elif kind == 'ForcedEvent':
                    ops.append(('ForcedEvent', jj, k, rng.choice(peers), rng.choice(['FATAL', 'STOPPED']),
                                remote[j] + rng.choice([-3, 0, 5]), now))
                elif kind == 'Removed':
                    ops.append(('Removed', jj, k))
                elif kind == 'Disability':
                    ops.append(('Disability', jj, k, rng.random() < 0.5))
                elif kind == 'LoadAll':
                    ops.append(('LoadAll', jj, [(kk, rng.choice(NAMES), True, False) for kk in keys[:2]], remote[j], now))
                elif kind == 'Added':
                    ops.append(('Added', jj, (k, rng.choice(NAMES), True, False), remote[j], now))
                else:
                    ops.append(('Auth', jj, rng.random() < 0.7, now + rng.choice([-5, 0]), now))
                continue
            if st[j] == 'S':
                if r < 0.7:
                    ops.append(('Tick', j, remote[j], now))
                    if j == me or st[me] in ('D', 'R'):
                        st[j] = 'K'
                        chk[j] = now
                else:
                    ops.append(('ProcEvent', j, rng.choice(keys), rng.choice(NAMES), True, remote[j], now))
            elif st[j] == 'K':
                if r < 0.45:
                    sub = [k for k in keys if rng.random() < 0.8] or keys[:1]
                    infos = []
                    for k in sub:
                        s = rng.choice(NAMES)
                        infos.append((k, s, rng.random() < 0.7, rng.random() < 0.1))
                        last[(j, k)] = s
                    loaded[j].update(sub)
                    ops.append(('LoadAll', j, infos, remote[j], now))
                elif r < 0.8:
                    ok = rng.random() < 0.9
                    ts = now if rng.random() < 0.9 else chk[j]
                    ops.append(('Auth', j, ok, ts, now))
                    if ts > chk[j]:
                        st[j] = 'D' if ok else ('S' if j == me else 'I')
                elif r < 0.9:
                    k = rng.choice(keys)
                    ops.append(('ProcEvent', j, k, pick_state(j, k), True, remote[j], now))    # refused: window
                else:
                    ops.append(('Failure', j, now))
                    st[j] = 'F'
            elif st[j] in ('D', 'R'):
                if r < 0.5:
                    k = rng.choice(keys)
                    s = pick_state(j, k)
                    ops.append(('ProcEvent', j, k, s, rng.random() < 0.7, remote[j], now))
                    if k in loaded[j]:
                        last[(j, k)] = s
                elif r < 0.58:
                    ops.append(('ForcedEvent', j, rng.choice(keys), rng.choice(peers),
                                rng.choice(['FATAL', 'STOPPED', 'FATAL', 'RUNNING']),
                                remote[j] + rng.choice([-3, -1, 0, 0, 1, 5]), now))
                elif r < 0.64:
                    k = rng.choice(keys)
                    if hostile or last.get((j, k)) not in RUNNING_LIKE + ('STOPPING',):
                        ops.append(('Removed', j, k))
                        loaded[j].discard(k)
                        last.pop((j, k), None)
                elif r < 0.70:
                    ops.append(('Disability', j, rng.choice(keys), rng.random() < 0.5))
                elif r < 0.76:
                    k = rng.choice(keys)
                    s = rng.choice(NAMES)
                    ops.append(('Added', j, (k, s, True, False), remote[j], now))
                    loaded[j].add(k)
                    last[(j, k)] = s
                elif r < 0.84:
                    ops.append(('Tick', j, remote[j], now))
                elif r < 0.92:
                    ops.append(('Activate', now))
                    for x in peers:
                        if st[x] == 'D':
                            st[x] = 'R'
                else:
                    ops.append(('Failure', j, now))
                    st[j] = 'F'
            elif st[j] == 'F':
                if r < 0.7:
                    iso = rng.random() < 0.3
                    ops.append(('InvalidateFailed', iso, now))
                    for x in peers:
                        if st[x] == 'F':
                            st[x] = 'S' if (x == me or not iso) else 'I'
                            for k in keys:
                                if last.get((x, k)) in RUNNING_LIKE:
                                    last[(x, k)] = 'FATAL'
                else:
                    k = rng.choice(keys)
                    ops.append(('ProcEvent', j, k, pick_state(j, k), True, remote[j], now))
            else:   # isolated: whatever it sends must be ignored
                kind = rng.choice(['ProcEvent', 'Tick', 'LoadAll', 'Auth', 'Added', 'Removed', 'Disability',
                                   'ForcedEvent', 'Failure'])
                k = rng.choice(keys)
                if kind == 'ProcEvent':
                    ops.append(('ProcEvent', j, k, rng.choice(NAMES), True, remote[j], now))
                elif kind == 'Tick':
                    ops.append(('Tick', j, remote[j], now))
                elif kind == 'LoadAll':
                    ops.append(('LoadAll', j, [(k, rng.choice(NAMES), True, False)], remote[j], now))
                elif kind == 'Auth':
                    ops.append(('Auth', j, True, now, now))
                elif kind == 'Added':
                    ops.append(('Added', j, (k, rng.choice(NAMES), True, False), remote[j], now))
                elif kind == 'Removed':
                    ops.append(('Removed', j, k))
                elif kind == 'Disability':
                    ops.append(('Disability', j, k, True))
                elif kind == 'ForcedEvent':
                    ops.append(('ForcedEvent', j, k, rng.choice(peers), 'FATAL', remote[j] + 5, now))
                else:
                    ops.append(('Failure', j, now))
        return (me, ALL_PEERS, ops)

    def generate(self, rng, tier):
        n, max_ops = (1200, 40) if tier == 'quick' else (20000, 120)
        return [self.gen_case(rng, max_ops, hostile=(k % 4 == 3)) for k in range(n)]

    # ---------------- execution on the real classes
    def execute(self, inp):
        me, peers, ops = inp
        node = RealNode(me)
        out = []
        for o in ops:
            try:
                node.apply(o)
            except Exception as exc:
                out.append(('crash', svenv.crash_kind(exc)))
                break
            out.append(('ok', node.observe(peers)))
        return out

    def emit(self, inp, observed):
        me, peers, ops = inp
        obs = []
        prev = ([(j, 0) for j in peers], [])
        for tag, val in observed:
            if tag == 'ok':
                obs.append(app('RdOk', robs_delta(prev, val)))
                prev = val
            else:
                obs.append(app('RdCrash', C(val)))
        return coq((me, list(peers), [emit_rop(o) for o in ops], obs))

    def describe(self, inp, observed):
        me, peers, ops = inp
        return {'me': me, 'peers': peers, 'ops': [list(o) for o in ops], 'observed': observed}

    def from_description(self, desc):
        ops = []
        for o in desc['ops']:
            o = list(o)
            if o[0] == 'LoadAll':
                o[2] = [tuple(t) for t in o[2]]
            if o[0] == 'Added':
                o[2] = tuple(o[2])
            ops.append(tuple(o))
        return (desc['me'], list(desc['peers']), ops)

    def nontrivial(self, inp, observed):
        me, peers, ops = inp
        kinds = {o[0] for o in ops}
        refused = 0
        prev = None
        for o, (tag, val) in zip(ops, observed):
            if tag == 'ok' and prev is not None and val == prev and o[0] in ('ProcEvent', 'Removed', 'Disability',
                                                                            'ForcedEvent', 'LoadAll'):
                refused += 1
            prev = val if tag == 'ok' else prev
        loaded = any(tag == 'ok' and val[1] for tag, val in observed)
        if loaded and refused and ('InvalidateFailed' in kinds or 'Auth' in kinds):
            return repr(observed[-1]) + repr(len(ops))
        return None

    def shrink_candidates(self, inp):
        me, peers, ops = inp
        return [(me, peers, c) for c in list_cuts(list(ops))]

    def size_of(self, inp):
        return len(inp[2])

    def distribution(self, inputs, observeds):
        kinds, crashes, inst, procs = {}, {}, {}, {}
        refused = accepted = 0
        for (me, peers, ops), obs in zip(inputs, observeds):
            inst[len(peers)] = inst.get(len(peers), 0) + 1
            for o in ops:
                kinds[o[0]] = kinds.get(o[0], 0) + 1
            if obs and obs[-1][0] == 'crash':
                crashes[obs[-1][1]] = crashes.get(obs[-1][1], 0) + 1
            prev = None
            for o, (tag, val) in zip(ops, obs):
                if tag == 'ok' and o[0] in ('ProcEvent', 'Removed', 'Disability', 'ForcedEvent', 'LoadAll', 'Added'):
                    if prev is not None and val == prev:
                        refused += 1
                    else:
                        accepted += 1
                prev = val if tag == 'ok' else prev
            if obs and obs[-1][0] == 'ok':
                n = len(obs[-1][1][1])
                procs[n] = procs.get(n, 0) + 1
        return {'op_kinds': kinds, 'instances': inst, 'final_process_count': procs, 'crashes': crashes,
                'process_messages_without_effect': refused, 'process_messages_with_effect': accepted}


# ---------------------------------------------------------------------------------------------------------
# level 2
# ---------------------------------------------------------------------------------------------------------
class FakeServerProxy:
    """ what a ServerProxy towards node i answers (served by i's main loop at the time of the call) """

    def __init__(self, cluster, i):
        self.cluster = cluster
        self.i = i
        self.supvisors = self
        self.supervisor = self

    # --- supvisors namespace
    def get_network_info(self, identifier):
        return None      # the network exchange is not part of the process plane (IDENTIFICATION is then ignored)

    def get_instance_info(self, identifier):
        from supvisors.rpcinterface import RPCInterface
        return RPCInterface(self.cluster.nodes[self.i].supv).get_instance_info(identifier)

    def get_strategies(self):
        from supvisors.rpcinterface import RPCInterface
        return RPCInterface(self.cluster.nodes[self.i].supv).get_strategies()

    def get_instance_state_modes(self, identifier):
        return []        # state & modes are the control plane (Node.v)

    def get_all_local_process_info(self):
        now = svenv.CLOCK.now
        return [full_payload(k, st, e, now, False) for k, (st, e) in self.cluster.truth[self.i].items()]


class RealCluster:
    def __init__(self, truths):
        self.ids = [i for i, _ in truths]
        self.truth = {i: {k: (st, e) for k, st, e in t} for i, t in truths}
        self.nodes = {i: RealNode(i, self) for i in self.ids}
        self.now = 1

    def server_proxy(self, i):
        return FakeServerProxy(self, i)

    def proxy(self, i, j):
        return self.nodes[i].supv.rpc_handler.proxy_server.proxies.get(ident(j))

    def apply(self, a):
        from supvisors.ttypes import SupvisorsStates
        kind = a[0]
        now = self.now
        svenv.CLOCK.now = now
        nodes = self.nodes
        if kind == 'LocalChange':
            _, i, k, st, e = a
            if i in nodes and k in self.truth[i]:
                self.truth[i][k] = (st, e)
                node = nodes[i]
                payload = event_payload(i, k, st, e, now)
                # SupervisorListener.on_process_state
                node.supv.fsm.on_process_state_event(node.ctx.local_status, payload)
                node.supv.rpc_handler.send_process_state_event(payload)
        elif kind == 'Deliver':
            _, i, j = a
            if i in nodes and j in nodes:
                p = self.proxy(i, j)
                if p is not None and p.pubs:
                    p.process_event(p.pubs.pop(0))       # SupervisorProxy.publish: sender filter, then the XML-RPC
        elif kind == 'Drop':
            _, i, j = a
            if i in nodes and j in nodes:
                p = self.proxy(i, j)
                if p is not None and p.pubs:
                    p.pubs.pop(0)
        elif kind == 'TickFrom':
            _, i, j = a
            if j in nodes:
                nodes[j].apply(('Tick', i, now, now))
        elif kind == 'SnapshotRead':
            _, j, i = a
            if j in nodes and i in nodes:
                ps = nodes[j].supv.rpc_handler.proxy_server
                p = ps.get_proxy(ident(i))
                if p is not None:
                    p.check_instance()                   # the real handshake code against the fake Supervisor of i
                else:
                    # no proxy towards an ISOLATED instance: no handshake at all
                    pass
        elif kind == 'Notify':
            _, j = a
            if j in nodes:
                from supvisors.ttypes import NotificationHeaders as NH
                p = self.proxy(j, j)
                while p is not None and p.ntfs:
                    msg = p.ntfs.pop(0)
                    header = msg[1][1][0]
                    p.process_event(msg)
                    if header in (NH.ALL_INFO.value, NH.AUTHORIZATION.value):
                        break
        elif kind == 'ActivateAt':
            if a[1] in nodes:
                nodes[a[1]].apply(('Activate', now))
        elif kind == 'Fail':
            _, j, i = a
            if j in nodes:
                nodes[j].apply(('Failure', i, now))
        elif kind == 'InvalidateAt':
            _, j, iso = a
            if j in nodes:
                nodes[j].apply(('InvalidateFailed', iso, now))
        else:
            raise RuntimeError(kind)
        self.now += 1

    def observe(self):
        return [(i, self.nodes[i].observe(self.ids)) for i in self.ids]


def emit_action(a):
    kind = a[0]
    if kind == 'LocalChange':
        _, i, k, st, e = a
        return app('LocalChange', i, k, C(st), e)
    if kind in ('Deliver', 'Drop', 'TickFrom', 'SnapshotRead', 'Fail'):
        return app(kind, a[1], a[2])
    if kind in ('Notify', 'ActivateAt'):
        return app(kind, a[1])
    if kind == 'InvalidateAt':
        return app(kind, a[1], a[2])
    raise RuntimeError(kind)


def emit_truths(truths):
    return [(i, [(k, (C(st), e)) for k, st, e in t]) for i, t in truths]


# the F13 witnesses (also proved as `handshake_window_refuted*` in ReplicationProofs.v)
def _admit_self(i):
    return [('TickFrom', i, i), ('SnapshotRead', i, i), ('Notify', i), ('Notify', i), ('ActivateAt', i)]


def _admit(j, i):
    """ j admits i """
    return [('TickFrom', i, j), ('SnapshotRead', j, i), ('Notify', j), ('Notify', j), ('ActivateAt', j)]


W_TRUTHS = [(1, []), (2, [(7, 'RUNNING', True)])]
W_RECEIVER = (W_TRUTHS, _admit_self(1) + _admit_self(2) + _admit(2, 1) + [
    ('TickFrom', 2, 1), ('SnapshotRead', 1, 2), ('LocalChange', 2, 7, 'STOPPED', True), ('Deliver', 2, 1),
    ('Notify', 1), ('Notify', 1), ('ActivateAt', 1)])
W_SENDER = (W_TRUTHS, _admit_self(1) + _admit_self(2) + [
    ('TickFrom', 2, 1), ('SnapshotRead', 1, 2), ('LocalChange', 2, 7, 'STOPPED', True),
    ('Deliver', 2, 1),                      # 2 does not regard 1 as active yet: SupervisorProxy.publish drops it
    ('Notify', 1), ('Notify', 1), ('ActivateAt', 1),
    ('TickFrom', 1, 2), ('SnapshotRead', 2, 1), ('Notify', 2), ('Notify', 2), ('ActivateAt', 2)])
W_LOCAL = ([(1, [(7, 'STOPPED', True)])], [
    ('TickFrom', 1, 1), ('SnapshotRead', 1, 1), ('LocalChange', 1, 7, 'STARTING', True),
    ('Notify', 1), ('Notify', 1), ('ActivateAt', 1)])


W_CLEAN = (W_TRUTHS, _admit_self(1) + _admit_self(2) + _admit(2, 1) + _admit(1, 2) + [
    ('LocalChange', 2, 7, 'STOPPING', True), ('Deliver', 2, 1), ('LocalChange', 2, 7, 'STOPPED', True),
    ('Deliver', 2, 1)])
# Replication proofs: stopping_membership_differs
W_STOPPING = ([(1, []), (2, [(7, 'RUNNING', True)]), (3, [])],
              _admit_self(1) + _admit_self(2) + _admit_self(3) + _admit(2, 1) + _admit(1, 2) + _admit(2, 3) + [
    ('LocalChange', 2, 7, 'STOPPING', True), ('Deliver', 2, 1), ('Deliver', 2, 3)] + _admit(3, 2))


# Replication proofs: lost_stopping_cleared (F11, fixed by 04680dd: the lost instance leaves the running set)
W_RESIDUE = (W_TRUTHS, _admit_self(1) + _admit_self(2) + _admit(2, 1) + _admit(1, 2) + [
    ('LocalChange', 2, 7, 'STOPPING', True), ('Deliver', 2, 1), ('Fail', 1, 2), ('InvalidateAt', 1, False)])


class ClusterSuite(Suite):
    name = 'cluster'
    prelude = 'From Sup Require Import Replication.\nOpen Scope Z_scope.'
    case_type = 'ccase'
    evals = {'mismatches': 'cmismatches', 'spec_violations': 'cspec_violations',
             'known:handshake-window-event-lost': 'cknown_window'}
    shard_size = 100

    def corpus(self):
        return [W_RECEIVER, W_SENDER, W_LOCAL, W_CLEAN, W_STOPPING, W_RESIDUE]

    # ---------------- generation: a scheduler with a rough picture of the protocol state (bias only)
    def gen_case(self, rng, max_actions, mode):
        n = rng.randint(2, 4)
        ids = list(range(1, n + 1))
        keys = list(range(1, rng.randint(1, 4) + 1))
        truths = []
        cur = {}
        for i in ids:
            mine = [k for k in keys if rng.random() < 0.7]
            t = []
            for k in mine:
                st = rng.choice(['STOPPED', 'STOPPED', 'RUNNING', 'RUNNING', 'STARTING', 'EXITED', 'FATAL', 'BACKOFF'])
                t.append((k, st, True))
                cur[(i, k)] = st
            truths.append((i, t))
        adm = {(j, i): 'S' for j in ids for i in ids}
        out = {(i, j): 0 for i in ids for j in ids if i != j}
        ntf = {j: [] for j in ids}            # list of (about, kind)
        req = set()                           # (j, i): check_instance pending
        acts = []
        careful = mode == 'careful'           # careful: avoid process changes while a handshake is going on
        n_act = rng.randint(max_actions // 3, max_actions)
        drain = False
        steps = 0
        while steps < 4 * max_actions:
            steps += 1
            if len(acts) >= n_act:
                drain = True
            cands = []
            for j in ids:
                if ntf[j]:
                    cands += [('Notify', j)] * 4
                if any(adm[(j, i)] == 'D' for i in ids):
                    cands += [('ActivateAt', j)] * 3
                if any(adm[(j, i)] == 'F' for i in ids):
                    cands += [('InvalidateAt', j, (not careful) and rng.random() < 0.15)] * 3
                for i in ids:
                    if (j, i) in req:
                        cands += [('SnapshotRead', j, i)] * 4
                    if adm[(j, i)] == 'S' and (i == j or adm[(j, j)] in ('D', 'R')):
                        cands += [('TickFrom', i, j)] * (3 if not drain else 6)
                    if i != j and out[(i, j)]:
                        cands += [('Deliver', i, j)] * 3
            if not drain:
                for i in ids:
                    for k in [k for (ii, k) in cur if ii == i]:
                        window = any(adm[(j, i)] == 'K' for j in ids) or any(
                            adm[(j, i)] in ('D', 'R') and adm[(i, j)] not in ('K', 'D', 'R', 'F') for j in ids if j != i)
                        if careful and window:
                            continue
                        cands.append(('LocalChange', i, k, None, None))
                for j in ids:
                    for i in ids:
                        # j loses sight of i (partition / crash detected) and will handshake again
                        if i != j and adm[(j, i)] in ('K', 'D', 'R') and rng.random() < (0.10 if careful else 0.25):
                            cands += [('Fail', j, i)] * 2
                        if not careful and i != j and out[(i, j)] and rng.random() < 0.2:
                            cands += [('Drop', i, j)] * 2
            if not cands:
                break
            a = rng.choice(cands)
            kind = a[0]
            if kind == 'LocalChange':
                _, i, k, _, _ = a
                st = rng.choice(PLAUSIBLE[cur[(i, k)]]) if rng.random() < 0.8 else rng.choice(NAMES)
                cur[(i, k)] = st
                a = ('LocalChange', i, k, st, rng.random() < 0.8)
                for j in ids:
                    if j != i and adm[(i, j)] != 'I':
                        out[(i, j)] += 1
            elif kind in ('Deliver', 'Drop'):
                out[(a[1], a[2])] -= 1
            elif kind == 'TickFrom':
                _, i, j = a
                adm[(j, i)] = 'K'
                req.add((j, i))
            elif kind == 'SnapshotRead':
                _, j, i = a
                req.discard((j, i))
                ok = adm[(i, j)] != 'I'
                ntf[j] += ([(i, 'snap')] if ok else []) + [(i, 'auth+' if ok else 'auth-')]
            elif kind == 'Notify':
                j = a[1]
                i, what = ntf[j].pop(0)
                if what.startswith('auth') and adm[(j, i)] == 'K':
                    adm[(j, i)] = 'D' if what == 'auth+' else ('S' if i == j else 'I')
            elif kind == 'ActivateAt':
                for i in ids:
                    if adm[(a[1], i)] == 'D':
                        adm[(a[1], i)] = 'R'
            elif kind == 'Fail':
                _, j, i = a
                adm[(j, i)] = 'F'
            elif kind == 'InvalidateAt':
                _, j, iso = a
                for i in ids:
                    if adm[(j, i)] == 'F':
                        adm[(j, i)] = 'S' if (i == j or not iso) else 'I'
            acts.append(a)
        return (truths, acts)

    def generate(self, rng, tier):
        n, max_actions = (500, 60) if tier == 'quick' else (4000, 150)
        out = []
        for k in range(n):
            mode = 'careful' if k % 3 else 'wild'
            out.append(self.gen_case(rng, max_actions, mode))
        return out

    # ---------------- execution
    def execute(self, inp):
        truths, acts = inp
        cl = RealCluster(truths)
        out = []
        for a in acts:
            try:
                cl.apply(a)
            except Exception as exc:
                out.append(('crash', svenv.crash_kind(exc)))
                break
            out.append(('ok', cl.observe()))
        return out

    def emit(self, inp, observed):
        truths, acts = inp
        obs = []
        ids = [i for i, _ in truths]
        prev = {i: ([(j, 0) for j in ids], []) for i in ids}
        for tag, val in observed:
            if tag == 'ok':
                d = []
                for i, ro in val:
                    if ro != prev[i]:
                        d.append((i, robs_delta(prev[i], ro)))
                        prev[i] = ro
                obs.append(app('CdOk', d))
            else:
                obs.append(app('CdCrash', C(val)))
        return coq((emit_truths(truths), [emit_action(a) for a in acts], obs))

    def describe(self, inp, observed):
        truths, acts = inp
        last = observed[-1] if observed else None
        return {'truths': [[i, [list(x) for x in t]] for i, t in truths], 'actions': [list(a) for a in acts],
                'final_observation': last}

    def from_description(self, desc):
        truths = [(i, [tuple(x) for x in t]) for i, t in desc['truths']]
        return (truths, [tuple(a) for a in desc['actions']])

    def nontrivial(self, inp, observed):
        truths, acts = inp
        kinds = {a[0] for a in acts}
        if not observed or observed[-1][0] != 'ok':
            return None
        final = observed[-1][1]
        running_views = sum(1 for _, (adms, _) in final for _, s in adms if s == 3)
        loaded = any(procs for _, (_, procs) in final)
        if running_views >= 2 and loaded and 'LocalChange' in kinds and 'Deliver' in kinds:
            return repr(final) + repr(len(acts))
        return None

    def shrink_candidates(self, inp):
        truths, acts = inp
        return [(truths, c) for c in list_cuts(list(acts))]

    def size_of(self, inp):
        return len(inp[1])

    def distribution(self, inputs, observeds):
        kinds, sizes, crashes = {}, {}, {}
        admitted_views = 0
        for (truths, acts), obs in zip(inputs, observeds):
            sizes[len(truths)] = sizes.get(len(truths), 0) + 1
            for a in acts:
                kinds[a[0]] = kinds.get(a[0], 0) + 1
            if obs and obs[-1][0] == 'crash':
                crashes[obs[-1][1]] = crashes.get(obs[-1][1], 0) + 1
            elif obs:
                admitted_views += sum(1 for _, (adms, _) in obs[-1][1] for _, s in adms if s == 3)
        return {'action_kinds': kinds, 'cluster_sizes': sizes, 'crashes': crashes,
                'final_views_RUNNING_total': admitted_views,
                'actions_total': sum(len(a) for _, a in inputs)}
