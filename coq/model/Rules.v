(* Rules.v — executable model of supvisors/sparser.py::Parser (rule lookup and loading),
   process.py::ProcessRules.check_dependencies, application.py::ApplicationRules.check_dependencies and
   application.py::HomogeneousGroup (add_process / resolve_rules / assign_at_identifiers / assign_hash_identifiers),
   plus the abstract specification Spec_C18 (rules part) written from the property statement.
   Definitions only. Each function names the Python method it mirrors.

   Strings (application, program, model, alias names, patterns, identifiers) are Z identifiers assigned
   injectively by the driver; the empty string and the three special signs are reserved.
   The regex engine is an oracle: the result of re.search('(<pattern>)', name) is an input per (pattern, name).
   The texts of the XML children are lexed by the driver with the very Python functions the code applies
   (int, strtobool, Enum[...] membership): pint / pbool / penum. *)
From Sup Require Export Base.
From Sup Require Import GenRules.

Definition S_EMPTY : Z := 0.   (* '' *)
Definition S_STAR : Z := 1.    (* utils.WILDCARD '*' *)
Definition S_HASH : Z := 2.    (* utils.HASHTAG '#' *)
Definition S_AT : Z := 3.      (* utils.ATSIGN '@' *)

Inductive pint := PEmpty | PInt (z : Z) | PNotInt.          (* '' or None / int(s) = z / int(s) raises ValueError *)
Inductive pbool := BEmpty | PBool (b : bool) | PNotBool.    (* '' or None / strtobool(s) / strtobool raises *)
Inductive penum := EEmpty | PEnum (code : Z) | PUnknown.    (* '' or None / klass[s].value / KeyError *)

(* one XML child of an application / program / model element, in document order *)
Inductive field :=
| FRef (name : Z)                 (* <reference> raw text (S_EMPTY when the element is empty) *)
| FIdents (toks : list Z)         (* <identifiers> : list_of_strings(text), [] when the text is empty *)
| FStart (v : pint) | FStop (v : pint)
| FRequired (v : pbool) | FWaitExit (v : pbool)
| FLoading (v : pint)
| FSfs (v : penum) | FRfs (v : penum)
| FDistribution (v : penum) | FStrategy (v : penum).

Record elt := mkElt { e_name : option Z; e_pattern : option Z; e_fields : list field }.

Inductive item :=
| IAlias (name : option Z) (toks : list Z)      (* toks = list_of_strings(text), [] when no / empty text *)
| IModel (e : elt)
| IApp (e : elt) (programs : list elt).         (* programs: ./programs/program flattened in document order *)

Definition root := list item.
Definition doc := list root.                     (* one root per rules file, in rules_files order *)

(* Element.findtext(tag): text of the FIRST child having the tag *)
Fixpoint find_map {A B} (f : A -> option B) (l : list A) : option B :=
  match l with
  | [] => None
  | x :: r => match f x with Some b => Some b | None => find_map f r end
  end.

Definition f_ref (fs : list field) := find_map (fun f => match f with FRef n => Some n | _ => None end) fs.
Definition f_idents (fs : list field) := find_map (fun f => match f with FIdents t => Some t | _ => None end) fs.
Definition f_start (fs : list field) := find_map (fun f => match f with FStart v => Some v | _ => None end) fs.
Definition f_stop (fs : list field) := find_map (fun f => match f with FStop v => Some v | _ => None end) fs.
Definition f_required (fs : list field) := find_map (fun f => match f with FRequired v => Some v | _ => None end) fs.
Definition f_wait_exit (fs : list field) := find_map (fun f => match f with FWaitExit v => Some v | _ => None end) fs.
Definition f_loading (fs : list field) := find_map (fun f => match f with FLoading v => Some v | _ => None end) fs.
Definition f_sfs (fs : list field) := find_map (fun f => match f with FSfs v => Some v | _ => None end) fs.
Definition f_rfs (fs : list field) := find_map (fun f => match f with FRfs v => Some v | _ => None end) fs.
Definition f_distribution (fs : list field) :=
  find_map (fun f => match f with FDistribution v => Some v | _ => None end) fs.
Definition f_strategy (fs : list field) := find_map (fun f => match f with FStrategy v => Some v | _ => None end) fs.

(* ---------- rule records ---------- *)
Record idt := mkI { i_ids : list Z; i_at : list Z; i_hash : list Z }.   (* identifiers / at_ / hash_identifiers *)

Record prules := mkP {
  p_idt : idt; p_start : Z; p_stop : Z; p_required : bool; p_wait_exit : bool; p_load : Z; p_sfs : Z; p_rfs : Z }.

Record arules := mkA {
  a_managed : bool; a_distribution : Z; a_idt : idt; a_start : Z; a_stop : Z; a_strategy : Z; a_sfs : Z; a_rfs : Z }.

Definition idt_default : idt := mkI [S_STAR] [] [].

(* ProcessRules(supvisors) followed by Context.setdefault_process presetting both failure strategies *)
Definition prules_init (sfs rfs : Z) : prules :=
  mkP idt_default gr_proc_start_default gr_proc_stop_default gr_proc_required_default gr_proc_wait_exit_default
      gr_proc_load_default sfs rfs.
(* ApplicationRules(supvisors) followed by Context.setdefault_application presetting starting_strategy *)
Definition arules_init (strategy : Z) : arules :=
  mkA false gr_app_distribution_default idt_default gr_app_start_default gr_app_stop_default strategy
      gr_app_sfs_default gr_app_rfs_default.

(* ---------- Parser.load_* ---------- *)
(* load_sequence : int(text) >= 0, otherwise the attribute is left as it is *)
Definition load_sequence (v : pint) (cur : Z) : Z :=
  match v with PInt z => if Z.leb 0 z then z else cur | _ => cur end.
(* load_expected_loading : 0 <= int(text) <= 100 *)
Definition load_loading (v : pint) (cur : Z) : Z :=
  match v with PInt z => if Z.leb 0 z && Z.leb z 100 then z else cur | _ => cur end.
(* load_boolean *)
Definition load_boolean (v : pbool) (cur : bool) : bool :=
  match v with PBool b => b | _ => cur end.
(* load_enum : klass[text] *)
Definition load_enum (values : list Z) (v : penum) (cur : Z) : Z :=
  match v with PEnum c => if zmem c values then c else cur | _ => cur end.

Definition opt_apply {A B} (o : option A) (f : A -> B -> B) (cur : B) : B :=
  match o with Some v => f v cur | None => cur end.

(* list.index + slice assignment identifiers[pos:pos+1] = alias : first occurrence only *)
Fixpoint replace_first (x : Z) (by_ : list Z) (l : list Z) : list Z :=
  match l with
  | [] => []
  | y :: r => if Z.eqb x y then by_ ++ r else y :: replace_first x by_ r
  end.

(* list(OrderedDict.fromkeys(l)) : first occurrences, order kept *)
Fixpoint nodup_first (l : list Z) : list Z :=
  match l with
  | [] => []
  | x :: r => x :: filter (fun y => negb (Z.eqb x y)) (nodup_first r)
  end.

(* Parser.check_identifier_list : aliases are applied in declaration order, each on its first occurrence *)
Definition expand_aliases (aliases : alist (list Z)) (toks : list Z) : list Z :=
  fold_left (fun ids kv => replace_first (fst kv) (snd kv) ids) aliases toks.
Definition check_identifier_list (aliases : alist (list Z)) (toks : list Z) : list Z :=
  nodup_first (filter (fun x => negb (Z.eqb x S_EMPTY)) (expand_aliases aliases toks)).

Definition is_nil {A} (l : list A) : bool := match l with [] => true | _ => false end.

(* Parser.load_identifiers (toks = [] : text empty, nothing done) *)
Definition load_identifiers (aliases : alist (list Z)) (toks : list Z) (t : idt) : idt :=
  match toks with
  | [] => t
  | _ =>
    let ids0 := check_identifier_list aliases toks in
    let has_at := zmem S_AT ids0 in
    let has_hash := zmem S_HASH ids0 in
    let ids1 := zdiscard S_HASH (zdiscard S_AT ids0) in
    let ids2 := if ((has_at || has_hash) && is_nil ids1) || zmem S_STAR ids1 then [S_STAR] else ids1 in
    let t1 := if has_at then mkI [] ids2 (i_hash t) else t in
    let t2 := if has_hash then mkI [] (i_at t1) ids2 else t1 in
    if negb has_at && negb has_hash then mkI ids2 (i_at t2) (i_hash t2) else t2
  end.

(* the body of Parser.load_model_rules after the recursive call *)
Definition load_elt_fields (aliases : alist (list Z)) (e : elt) (r : prules) : prules :=
  let fs := e_fields e in
  mkP (opt_apply (f_idents fs) (load_identifiers aliases) (p_idt r))
      (opt_apply (f_start fs) load_sequence (p_start r))
      (opt_apply (f_stop fs) load_sequence (p_stop r))
      (opt_apply (f_required fs) load_boolean (p_required r))
      (opt_apply (f_wait_exit fs) load_boolean (p_wait_exit r))
      (opt_apply (f_loading fs) load_loading (p_load r))
      (opt_apply (f_sfs fs) (load_enum gr_StartingFailureStrategies_values) (p_sfs r))
      (opt_apply (f_rfs fs) (load_enum gr_RunningFailureStrategies_values) (p_rfs r)).

(* ---------- Parser.load_rules_files : the four dictionaries ---------- *)
Definition items (d : doc) : list item := concat d.

(* self.aliases : ./alias[@name] with a non-empty text ; dict.update keeps the first position, last value *)
Definition aliases_of (d : doc) : alist (list Z) :=
  fold_left (fun acc it => match it with
                           | IAlias (Some n) (t :: ts) => aset n (t :: ts) acc
                           | _ => acc end) (items d) [].
(* self.models : ./model[@name] *)
Definition models_of (d : doc) : alist elt :=
  fold_left (fun acc it => match it with
                           | IModel e => match e_name e with Some n => aset n e acc | None => acc end
                           | _ => acc end) (items d) [].
(* self.application_patterns : ./application[@pattern] *)
Definition app_patterns_of (d : doc) : alist (elt * list elt) :=
  fold_left (fun acc it => match it with
                           | IApp e ps => match e_pattern e with Some p => aset p (e, ps) acc | None => acc end
                           | _ => acc end) (items d) [].
(* self.program_patterns[application element] : ./programs/program[@pattern] of that element *)
Definition prog_patterns_of (ps : list elt) : alist elt :=
  fold_left (fun acc e => match e_pattern e with Some p => aset p e acc | None => acc end) ps [].

(* ---------- the regex oracle ---------- *)
Inductive mres := MErr | MNone | MLen (n : Z).     (* re.error / no match / len(mo.group()) *)
Definition oracle := list (Z * Z * mres).          (* (pattern, name, result) *)
Definition orc_get (o : oracle) (p n : Z) : mres :=
  match find (fun x => Z.eqb (fst (fst x)) p && Z.eqb (snd (fst x)) n) o with
  | Some x => snd x
  | None => MNone
  end.

(* Parser.get_best_pattern : the matching patterns in dict order, then max(key=len) = first maximal *)
Fixpoint matching_patterns (o : oracle) (name : Z) (pats : list Z) : result (list (Z * Z)) :=
  match pats with
  | [] => Ok []
  | p :: r => match orc_get o p name with
              | MErr => Crash ReError
              | MNone => matching_patterns o name r
              | MLen n => bind (matching_patterns o name r) (fun l => Ok ((p, n) :: l))
              end
  end.
Definition get_best_pattern (o : oracle) (name : Z) (pats : list Z) : result (option Z) :=
  bind (matching_patterns o name pats) (fun l => Ok (option_map fst (py_max snd l))).

Definition opt_Zeqb (a : option Z) (b : Z) : bool := match a with Some x => Z.eqb x b | None => false end.

(* root.find('./application[@name="..."]') over the roots in order : first in document order *)
Definition find_app_by_name (d : doc) (name : Z) : option (elt * list elt) :=
  find_map (fun it => match it with
                      | IApp e ps => if opt_Zeqb (e_name e) name then Some (e, ps) else None
                      | _ => None end) (items d).

(* Parser.get_application_element *)
Definition get_application_element (d : doc) (o : oracle) (name : Z) : result (option (elt * list elt)) :=
  match find_app_by_name d name with
  | Some a => Ok (Some a)
  | None =>
      let pats := app_patterns_of d in
      bind (get_best_pattern o name (akeys pats)) (fun best =>
        Ok (match best with Some p => aget p pats | None => None end))
  end.

(* Parser.get_program_element : (element, is_pattern) *)
Definition get_program_element (d : doc) (o : oracle) (app proc : Z) : result (option elt * bool) :=
  bind (get_application_element d o app) (fun ae =>
    match ae with
    | None => Ok (None, false)
    | Some (_, ps) =>
        match find (fun e => opt_Zeqb (e_name e) proc) ps with
        | Some e => Ok (Some e, false)
        | None =>
            let pats := prog_patterns_of ps in
            bind (get_best_pattern o proc (akeys pats)) (fun best =>
              match best with
              | Some p => match aget p pats with Some e => Ok (Some e, true) | None => Ok (None, false) end
              | None => Ok (None, false)
              end)
        end
    end).

(* Parser.get_model_element : self.models.get(elt.findtext('reference')) *)
Definition get_model_element (models : alist elt) (e : elt) : option elt :=
  match f_ref (e_fields e) with Some n => aget n models | None => None end.

(* Parser.load_model_rules : structural recursion on the loop_check counter *)
Fixpoint load_model_rules (models : alist elt) (aliases : alist (list Z)) (e : elt) (r : prules) (loop_check : nat)
  : prules :=
  match loop_check with
  | O => r
  | S n =>
      let r1 := match get_model_element models e with
                | Some m => load_model_rules models aliases m r n
                | None => r
                end in
      load_elt_fields aliases e r1
  end.

Definition loop_check_init : nat := Z.to_nat gr_LOOP_CHECK.

(* ---------- ProcessRules.check_dependencies ---------- *)
Definition check_at_identifiers (is_pattern : bool) (t : idt) : idt :=
  if negb (is_nil (i_at t)) && negb is_pattern then mkI [S_STAR] [] (i_hash t) else t.
Definition check_hash_identifiers_p (is_pattern : bool) (t : idt) : idt :=
  if negb (is_nil (i_hash t)) && negb is_pattern then mkI [S_STAR] (i_at t) [] else t.
Definition check_sign_identifiers (t : idt) : idt :=
  if negb (is_nil (i_at t)) && negb (is_nil (i_hash t)) then mkI (i_ids t) (i_at t) [] else t.

Definition check_dependencies (is_pattern : bool) (r : prules) : prules :=
  let t := check_sign_identifiers (check_hash_identifiers_p is_pattern (check_at_identifiers is_pattern (p_idt r))) in
  (* check_start_sequence *)
  let required := if p_required r && Z.eqb (p_start r) 0 then false else p_required r in
  (* check_stop_sequence *)
  let stop := if Z.ltb (p_stop r) 0 then p_start r else p_stop r in
  (* check_autorestart only touches the Supervisor configuration: not modelled *)
  mkP t (p_start r) stop required (p_wait_exit r) (p_load r) (p_sfs r) (p_rfs r).

(* Parser.load_program_rules *)
Definition load_program_rules (d : doc) (o : oracle) (app proc : Z) (r0 : prules) : result prules :=
  bind (get_program_element d o app proc) (fun pe =>
    let r1 := match fst pe with
              | Some e => load_model_rules (models_of d) (aliases_of d) e r0 loop_check_init
              | None => r0
              end in
    Ok (check_dependencies (snd pe) r1)).

(* ---------- the Supvisors mapper (instances, nick identifiers, stereotypes) ---------- *)
Record env := mkEnv { instances : list Z; nicks : alist Z; stereos : alist (list Z) }.

(* SupvisorsMapper.filter *)
Definition mapper_filter (ev : env) (l : list Z) : list Z :=
  nodup_first (flat_map (fun i =>
    if zmem i (instances ev) then [i]
    else match aget i (nicks ev) with
         | Some x => [x]
         | None => match aget i (stereos ev) with Some s => s | None => [] end
         end) l).

(* ---------- ApplicationRules ---------- *)
(* ApplicationRules.check_hash_identifiers ; app_index = int(group(1)) of r'.*[-_](\d+)$' on the name, if it matches *)
Definition app_check_hash (ev : env) (app_index : option Z) (r : arules) : result arules :=
  let failed := mkA (a_managed r) (a_distribution r) (a_idt r) 0 (a_stop r) (a_strategy r) (a_sfs r) (a_rfs r) in
  match app_index with
  | None => Ok failed
  | Some n =>
      let k := n - 1 in
      if Z.ltb k 0 then Ok failed
      else
        let ref := if zmem S_STAR (i_hash (a_idt r)) then instances ev else i_hash (a_idt r) in
        match ref with
        | [] => Crash OtherError    (* ZeroDivisionError: k % 0 *)
        | x :: _ =>
            let ident := nth (Z.to_nat (k mod Z.of_nat (length ref))) ref x in
            Ok (mkA (a_managed r) (a_distribution r) (mkI [ident] (i_at (a_idt r)) (i_hash (a_idt r)))
                    (a_start r) (a_stop r) (a_strategy r) (a_sfs r) (a_rfs r))
        end
  end.

(* ApplicationRules.check_dependencies *)
Definition app_check_dependencies (ev : env) (app_index : option Z) (r : arules) : result arules :=
  let stop := if Z.ltb (a_stop r) 0 then a_start r else a_stop r in
  let r1 := mkA (a_managed r) (a_distribution r) (a_idt r) (a_start r) stop (a_strategy r) (a_sfs r) (a_rfs r) in
  if is_nil (i_hash (a_idt r1)) then Ok r1 else app_check_hash ev app_index r1.

Definition load_app_fields (aliases : alist (list Z)) (e : elt) (r : arules) : arules :=
  let fs := e_fields e in
  mkA true
      (opt_apply (f_distribution fs) (load_enum gr_DistributionRules_values) (a_distribution r))
      (opt_apply (f_idents fs) (load_identifiers aliases) (a_idt r))
      (opt_apply (f_start fs) load_sequence (a_start r))
      (opt_apply (f_stop fs) load_sequence (a_stop r))
      (opt_apply (f_strategy fs) (load_enum gr_StartingStrategies_values) (a_strategy r))
      (opt_apply (f_sfs fs) (load_enum gr_StartingFailureStrategies_values) (a_sfs r))
      (opt_apply (f_rfs fs) (load_enum gr_RunningFailureStrategies_values) (a_rfs r)).

(* Parser.load_application_rules (operational_status is the subject of C15, not modelled here) *)
Definition load_application_rules (d : doc) (o : oracle) (ev : env) (name : Z) (app_index : option Z) (r0 : arules)
  : result arules :=
  bind (get_application_element d o name) (fun ae =>
    let r1 := match ae with Some (e, _) => load_app_fields (aliases_of d) e r0 | None => r0 end in
    app_check_dependencies ev app_index r1).

(* ---------- HomogeneousGroup ---------- *)
Record gproc := mkG { g_index : Z; g_idt : idt }.     (* process_index, the identifier part of process.rules *)
Record group := mkGroup { gr_procs : list gproc; gr_at : option (list Z); gr_hash : option (list Z) }.
Definition group_init : group := mkGroup [] None None.

Definition truthy (o : option (list Z)) : bool := match o with Some (_ :: _) => true | _ => false end.

(* HomogeneousGroup.add_process *)
Definition add_process (g : group) (p : gproc) : group :=
  let at1 := match i_at (g_idt p) with [] => gr_at g | l => Some l end in
  let hash1 := match i_hash (g_idt p) with [] => gr_hash g | l => Some l end in
  let hash2 := if truthy at1 && truthy hash1 then None else hash1 in
  mkGroup (gr_procs g ++ [p]) at1 hash2.

(* sorted(self.processes, key=process_index) : stable ; elements carry their position in self.processes *)
Fixpoint ins_sorted (x : nat * gproc) (l : list (nat * gproc)) : list (nat * gproc) :=
  match l with
  | [] => [x]
  | y :: r => if Z.ltb (g_index (snd x)) (g_index (snd y)) then x :: l else y :: ins_sorted x r
  end.
Definition enumerate {A} (l : list A) : list (nat * A) := combine (seq 0 (length l)) l.
Definition sorted_procs (ps : list gproc) : list (nat * gproc) :=
  fold_left (fun acc x => ins_sorted x acc) (enumerate ps) [].

Fixpoint set_nth {A} (n : nat) (v : A) (l : list A) : list A :=
  match l, n with
  | [], _ => []
  | _ :: r, O => v :: r
  | x :: r, S m => x :: set_nth m v r
  end.

Definition ref_identifiers (ev : env) (l : list Z) : list Z :=
  if zmem S_STAR l then instances ev else mapper_filter ev l.

(* [process.rules.identifiers[0] for process in process_list if process.rules.identifiers] *)
Definition assigned_identifiers (order : list (nat * gproc)) : list Z :=
  flat_map (fun kp => match i_ids (g_idt (snd kp)) with x :: _ => [x] | [] => [] end) order.

(* HomogeneousGroup.assign_at_identifiers : the plan zip(unassigned_processes, unassigned_identifiers) ... *)
Definition at_plan (ev : env) (g : group) : list (nat * gproc * Z) :=
  let order := sorted_procs (gr_procs g) in
  let unassigned := filter (fun kp => negb (is_nil (i_at (g_idt (snd kp))))) order in
  match unassigned, gr_at g with
  | _ :: _, Some atl =>
      let assigned := assigned_identifiers order in
      combine unassigned (filter (fun i => negb (zmem i assigned)) (ref_identifiers ev atl))
  | _, _ => []
  end.
(* ... and its application to the processes (by position in self.processes) *)
Definition assign_at (ev : env) (g : group) : group :=
  mkGroup (fold_left (fun ps kpi =>
                        let '((k, p), ident) := kpi in
                        set_nth k (mkG (g_index p) (mkI [ident] [] (i_hash (g_idt p)))) ps)
                     (at_plan ev g) (gr_procs g))
          (gr_at g) (gr_hash g).

(* process_count_per_instance[identifier].append(process) : KeyError when the identifier is not a key *)
Fixpoint count_incr (ident : Z) (counts : list (Z * Z)) : option (list (Z * Z)) :=
  match counts with
  | [] => None
  | (c, i) :: r => if Z.eqb i ident then Some ((c + 1, i) :: r)
                   else match count_incr ident r with Some r' => Some ((c, i) :: r') | None => None end
  end.

Fixpoint count_assigned (order : list (nat * gproc)) (counts : list (Z * Z)) : result (list (Z * Z)) :=
  match order with
  | [] => Ok counts
  | (_, p) :: r =>
      match i_ids (g_idt p) with
      | [] => count_assigned r counts
      | x :: _ => match count_incr x counts with
                  | Some c' => count_assigned r c'
                  | None => Crash KeyError
                  end
      end
  end.

(* the loop over unassigned_processes : min(process_count, key=count) = first least loaded *)
Fixpoint hash_loop (unassigned : list (nat * gproc)) (counts : list (Z * Z)) (ps : list gproc)
  : result (list gproc) :=
  match unassigned with
  | [] => Ok ps
  | (k, p) :: r =>
      match py_min fst counts with
      | None => Crash ValueError       (* min() arg is an empty sequence *)
      | Some (_, ident) =>
          match count_incr ident counts with
          | Some c' => hash_loop r c' (set_nth k (mkG (g_index p) (mkI [ident] (i_at (g_idt p)) [])) ps)
          | None => Crash OtherError   (* unreachable: ident comes from counts *)
          end
      end
  end.

(* HomogeneousGroup.assign_hash_identifiers *)
Definition assign_hash (ev : env) (g : group) : result group :=
  let order := sorted_procs (gr_procs g) in
  let unassigned := filter (fun kp => negb (is_nil (i_hash (g_idt (snd kp))))) order in
  match unassigned, gr_hash g with
  | _ :: _, Some hl =>
      let ref := ref_identifiers ev hl in
      bind (count_assigned order (map (fun i => (0, i)) ref)) (fun counts =>
        bind (hash_loop unassigned counts (gr_procs g)) (fun ps =>
          Ok (mkGroup ps (gr_at g) (gr_hash g))))
  | _, _ => Ok g
  end.

(* HomogeneousGroup.resolve_rules *)
Definition resolve_rules (ev : env) (g : group) : result group :=
  let g1 := if truthy (gr_at g) then assign_at ev g else g in
  if truthy (gr_hash g1) then assign_hash ev g1 else Ok g1.

(* ---------- queries, observables, cases ---------- *)
Inductive query :=
| QApp (name : Z) (app_index : option Z) (strategy0 : Z)
| QGroup (app : Z) (procs : list (Z * Z)) (sfs0 rfs0 : Z).    (* (process name, process_index) in arrival order *)

Definition tobs := (list Z * list Z * list Z)%type.           (* identifiers, at_identifiers, hash_identifiers *)
Definition pobs := (tobs * Z * Z * bool * bool * Z * Z * Z)%type.
Definition aobs := (bool * Z * tobs * Z * Z * Z * Z * Z)%type.

Definition obs_idt (t : idt) : tobs := (i_ids t, i_at t, i_hash t).
Definition obs_prules (r : prules) : pobs :=
  (obs_idt (p_idt r), p_start r, p_stop r, p_required r, p_wait_exit r, p_load r, p_sfs r, p_rfs r).
Definition obs_arules (r : arules) : aobs :=
  (a_managed r, a_distribution r, obs_idt (a_idt r), a_start r, a_stop r, a_strategy r, a_sfs r, a_rfs r).

Inductive qobs :=
| OApp (r : result aobs)
| OGroup (loads : list (result pobs)) (res1 res2 : result (list tobs)).

Definition rmap {A B} (f : A -> B) (r : result A) : result B :=
  match r with Ok a => Ok (f a) | Crash k => Crash k end.

Fixpoint all_ok {A} (l : list (result A)) : option (list A) :=
  match l with
  | [] => Some []
  | Ok a :: r => match all_ok r with Some l' => Some (a :: l') | None => None end
  | Crash _ :: _ => None
  end.

Definition group_obs (g : group) : list tobs := map (fun p => obs_idt (g_idt p)) (gr_procs g).

(* the driver resolves twice: with the instances known at first (ev1), then after more have been discovered (ev2);
   an exception leaves the group as it was *)
Definition run_resolution (ev1 ev2 : env) (g : group) : result (list tobs) * result (list tobs) :=
  let r1 := resolve_rules ev1 g in
  let g1 := match r1 with Ok g' => g' | Crash _ => g end in
  (rmap group_obs r1, rmap group_obs (resolve_rules ev2 g1)).

Definition build_group (procs : list (Z * Z)) (rules : list prules) : group :=
  fold_left add_process (map (fun pr => mkG (snd (fst pr)) (p_idt (snd pr))) (combine procs rules)) group_init.

Definition run_query (d : doc) (o : oracle) (ev1 ev2 : env) (q : query) : qobs :=
  match q with
  | QApp name idx s0 => OApp (rmap obs_arules (load_application_rules d o ev1 name idx (arules_init s0)))
  | QGroup app procs sfs0 rfs0 =>
      let loads := map (fun pr => load_program_rules d o app (fst pr) (prules_init sfs0 rfs0)) procs in
      match all_ok loads with
      | Some rules =>
          let rr := run_resolution ev1 ev2 (build_group procs rules) in
          OGroup (map (rmap obs_prules) loads) (fst rr) (snd rr)
      | None => OGroup (map (rmap obs_prules) loads) (Ok []) (Ok [])
      end
  end.

(* ---------- equality of observations ---------- *)
Definition zl_eqb := list_eqb Z.eqb.
Definition tobs_eqb (a b : tobs) : bool :=
  match a, b with (i1, a1, h1), (i2, a2, h2) => zl_eqb i1 i2 && zl_eqb a1 a2 && zl_eqb h1 h2 end.
Definition pobs_eqb (a b : pobs) : bool :=
  match a, b with
  | (t1, s1, e1, r1, w1, l1, f1, g1), (t2, s2, e2, r2, w2, l2, f2, g2) =>
      tobs_eqb t1 t2 && Z.eqb s1 s2 && Z.eqb e1 e2 && Bool.eqb r1 r2 && Bool.eqb w1 w2 && Z.eqb l1 l2
      && Z.eqb f1 f2 && Z.eqb g1 g2
  end.
Definition aobs_eqb (a b : aobs) : bool :=
  match a, b with
  | (m1, d1, t1, s1, e1, g1, f1, r1), (m2, d2, t2, s2, e2, g2, f2, r2) =>
      Bool.eqb m1 m2 && Z.eqb d1 d2 && tobs_eqb t1 t2 && Z.eqb s1 s2 && Z.eqb e1 e2 && Z.eqb g1 g2
      && Z.eqb f1 f2 && Z.eqb r1 r2
  end.
Definition result_eqb {A} (eqb : A -> A -> bool) (a b : result A) : bool :=
  match a, b with
  | Ok x, Ok y => eqb x y
  | Crash k1, Crash k2 => crash_eqb k1 k2
  | _, _ => false
  end.
Definition qobs_eqb (a b : qobs) : bool :=
  match a, b with
  | OApp x, OApp y => result_eqb aobs_eqb x y
  | OGroup l1 a1 b1, OGroup l2 a2 b2 =>
      list_eqb (result_eqb pobs_eqb) l1 l2 && result_eqb (list_eqb tobs_eqb) a1 a2
      && result_eqb (list_eqb tobs_eqb) b1 b2
  | _, _ => false
  end.

Record case := mkCase {
  c_doc : doc; c_orc : oracle; c_env1 : env; c_env2 : env; c_queries : list query; c_obs : list qobs }.

Definition case_mismatch (c : case) : bool :=
  negb (list_eqb qobs_eqb (map (run_query (c_doc c) (c_orc c) (c_env1 c) (c_env2 c)) (c_queries c)) (c_obs c)).
Definition mismatches (cs : list case) : list nat := find_idx case_mismatch cs.

(* =====================================================================================================
   Spec_C18 (rules) — written from the property statement and docs/configuration.rst, not from the code.
   ===================================================================================================== *)

(* A document is unambiguous when no name / pattern / model / alias is declared twice at the same level.
   The documentation says nothing about duplicates: the specification is silent on ambiguous documents. *)
Fixpoint znodup (l : list Z) : bool :=
  match l with [] => true | x :: r => negb (zmem x r) && znodup r end.
Definition opt_list {A} (o : option A) : list A := match o with Some a => [a] | None => [] end.

Definition app_names (d : doc) := flat_map (fun it => match it with IApp e _ => opt_list (e_name e) | _ => [] end) (items d).
Definition app_pats (d : doc) := flat_map (fun it => match it with IApp e _ => opt_list (e_pattern e) | _ => [] end) (items d).
Definition model_names (d : doc) := flat_map (fun it => match it with IModel e => opt_list (e_name e) | _ => [] end) (items d).
Definition alias_names (d : doc) := flat_map (fun it => match it with IAlias n _ => opt_list n | _ => [] end) (items d).
Definition progs_unambiguous (ps : list elt) : bool :=
  znodup (flat_map (fun e => opt_list (e_name e)) ps) && znodup (flat_map (fun e => opt_list (e_pattern e)) ps).
Definition doc_unambiguous (d : doc) : bool :=
  znodup (app_names d) && znodup (app_pats d) && znodup (model_names d) && znodup (alias_names d)
  && forallb (fun it => match it with IApp _ ps => progs_unambiguous ps | _ => true end) (items d).

(* "an exact name beats any pattern, among patterns the longest match wins" (the first declared on ties,
   docs: "arbitrarily the first of them"). Candidates are (element, pattern) in declaration order. *)
Definition spec_select {A} (o : oracle) (name : Z) (named : list (Z * A)) (patterned : list (Z * A))
  : option (option (A * bool)) :=         (* None: some pattern is not a regex, nothing is specified *)
  match find (fun na => Z.eqb (fst na) name) named with
  | Some na => Some (Some (snd na, false))
  | None =>
      if existsb (fun pa => match orc_get o (fst pa) name with MErr => true | _ => false end) patterned then None
      else
        let len pa := match orc_get o (fst pa) name with MLen n => n | _ => -1 end in
        let cands := filter (fun pa => match orc_get o (fst pa) name with MLen _ => true | _ => false end) patterned in
        Some (option_map (fun pa => (snd pa, true))
                (find (fun c => forallb (fun c' => Z.leb (len c') (len c)) cands) cands))
  end.

Definition named_apps (d : doc) : list (Z * (elt * list elt)) :=
  flat_map (fun it => match it with IApp e ps => map (fun n => (n, (e, ps))) (opt_list (e_name e)) | _ => [] end) (items d).
Definition patterned_apps (d : doc) : list (Z * (elt * list elt)) :=
  flat_map (fun it => match it with IApp e ps => map (fun n => (n, (e, ps))) (opt_list (e_pattern e)) | _ => [] end) (items d).
Definition named_progs (ps : list elt) : list (Z * elt) :=
  flat_map (fun e => map (fun n => (n, e)) (opt_list (e_name e))) ps.
Definition patterned_progs (ps : list elt) : list (Z * elt) :=
  flat_map (fun e => map (fun n => (n, e)) (opt_list (e_pattern e))) ps.

(* "model references are followed to depth 3 at most": the program element, then the models it references,
   LOOP_CHECK elements at most; a model is found by its name among the <model name=…> of all files *)
Definition spec_model (d : doc) (n : Z) : option elt :=
  find_map (fun it => match it with IModel e => if opt_Zeqb (e_name e) n then Some e else None | _ => None end) (items d).
Definition doc_depth : nat := 3.     (* docs: "the maximum chain starting from the program section has been set to 3" *)
Fixpoint spec_chain (d : doc) (e : elt) (depth : nat) : list elt :=
  match depth with
  | O => []
  | S n => e :: match f_ref (e_fields e) with
                | Some m => match spec_model d m with Some me => spec_chain d me n | None => [] end
                | None => []
                end
  end.

(* "values set on the element supersede referenced ones ; every value outside its domain leaves the default":
   the value of a rule is the first in-domain value met from the element along the chain, else the default *)
Definition first_valid {V A} (sel : list field -> option V) (valid : V -> option A) (chain : list elt) (dflt : A) : A :=
  match find_map (fun e => match sel (e_fields e) with Some v => valid v | None => None end) chain with
  | Some a => a
  | None => dflt
  end.

Definition valid_sequence (v : pint) : option Z := match v with PInt z => if Z.leb 0 z then Some z else None | _ => None end.
Definition valid_loading (v : pint) : option Z :=
  match v with PInt z => if Z.leb 0 z && Z.leb z 100 then Some z else None | _ => None end.
Definition valid_bool (v : pbool) : option bool := match v with PBool b => Some b | _ => None end.
Definition valid_enum (values : list Z) (v : penum) : option Z :=
  match v with PEnum c => if zmem c values then Some c else None | _ => None end.

(* identifiers of ONE element: aliases expanded, duplicates and empty names removed, signs extracted.
   '*' absorbs every other name; a sign alone means all instances; '@' wins over '#'. *)
Definition spec_idents (aliases : alist (list Z)) (toks : list Z) : idt :=
  let l := check_identifier_list aliases toks in
  let names := filter (fun x => negb (Z.eqb x S_AT) && negb (Z.eqb x S_HASH)) l in
  let has_at := zmem S_AT l in
  let has_hash := zmem S_HASH l in
  let target := if zmem S_STAR names || ((has_at || has_hash) && is_nil names) then [S_STAR] else names in
  if has_at then mkI [] target [] else if has_hash then mkI [] [] target else mkI target [] [].

(* the nearest element of the chain that has a non-empty <identifiers> decides ; signs are accepted only
   from a pattern-selected program, otherwise the rule is back to the default *)
Definition spec_chain_idents (aliases : alist (list Z)) (chain : list elt) (is_pattern : bool) : idt :=
  match find_map (fun e => match f_idents (e_fields e) with Some (t :: ts) => Some (t :: ts) | _ => None end) chain with
  | None => idt_default
  | Some toks =>
      let t := spec_idents aliases toks in
      if is_pattern || (is_nil (i_at t) && is_nil (i_hash t)) then t else idt_default
  end.

(* the whole resolution of a program: None when the specification is silent.
   Unmanaged application or no matching program element: empty chain, i.e. the defaults. *)
Definition spec_program_select (d : doc) (o : oracle) (app proc : Z) : option (option (elt * bool)) :=
  match spec_select o app (named_apps d) (patterned_apps d) with
  | None => None
  | Some None => Some None
  | Some (Some ((_, ps), _)) => spec_select o proc (named_progs ps) (patterned_progs ps)
  end.

Definition spec_program_rules (d : doc) (o : oracle) (app proc : Z) (sfs0 rfs0 : Z) : option prules :=
  if negb (doc_unambiguous d) then None else
  match spec_program_select d o app proc with
  | None => None
  | Some sel =>
      let chain := match sel with Some (e, _) => spec_chain d e doc_depth | None => [] end in
      let is_pattern := match sel with Some (_, b) => b | None => false end in
      let start := first_valid f_start valid_sequence chain gr_proc_start_default in
      let required := first_valid f_required valid_bool chain gr_proc_required_default in
      Some (mkP (spec_chain_idents (aliases_of d) chain is_pattern)
                start
                (* "stop_sequence defaults to start_sequence" *)
                (first_valid f_stop valid_sequence chain start)
                (* "required without a start_sequence is dropped" *)
                (if Z.eqb start 0 then false else required)
                (first_valid f_wait_exit valid_bool chain gr_proc_wait_exit_default)
                (first_valid f_loading valid_loading chain gr_proc_load_default)
                (first_valid f_sfs (valid_enum gr_StartingFailureStrategies_values) chain sfs0)
                (first_valid f_rfs (valid_enum gr_RunningFailureStrategies_values) chain rfs0))
  end.

(* known finding `model-sign-kept`: a '@' / '#' inherited from a referenced model is not superseded by the
   <identifiers> of a nearer element. The class: some element of the chain BEHIND the nearest one that has
   identifiers carries a sign. *)
Definition has_sign (aliases : alist (list Z)) (toks : list Z) : bool :=
  let l := check_identifier_list aliases toks in zmem S_AT l || zmem S_HASH l.
Definition class_sign_kept (aliases : alist (list Z)) (chain : list elt) : bool :=
  match flat_map (fun e => match f_idents (e_fields e) with Some (t :: ts) => [t :: ts] | _ => [] end) chain with
  | _ :: behind => existsb (has_sign aliases) behind
  | [] => false
  end.

Definition program_chain (d : doc) (o : oracle) (app proc : Z) : list elt :=
  match spec_program_select d o app proc with
  | Some (Some (e, _)) => spec_chain d e doc_depth
  | _ => []
  end.

(* application rules *)
Definition spec_app_rules (d : doc) (o : oracle) (ev : env) (name : Z) (app_index : option Z) (s0 : Z)
  : option (arules * bool) :=       (* expected rules, and whether the identifiers are specified *)
  if negb (doc_unambiguous d) then None else
  match spec_select o name (named_apps d) (patterned_apps d) with
  | None => None
  | Some None => Some (mkA false gr_app_distribution_default idt_default gr_app_start_default
                           gr_app_start_default s0 gr_app_sfs_default gr_app_rfs_default, true)
  | Some (Some ((e, _), _)) =>
      let chain := [e] in
      let t := match f_idents (e_fields e) with
               | Some (x :: xs) => spec_idents (aliases_of d) (x :: xs)
               | _ => idt_default end in
      let start := first_valid f_start valid_sequence chain gr_app_start_default in
      (* '#': the Nth application (name ending with -N or _N, N > 0) goes to the Nth name of the list,
         rolling over ; otherwise the application is not started automatically *)
      let hash_ref := if zmem S_STAR (i_hash t) then instances ev else i_hash t in
      let hash_ok := match app_index with Some n => Z.ltb 0 n | None => false end in
      let t' := if is_nil (i_hash t) then t
                else if hash_ok
                then match app_index, hash_ref with
                     | Some n, x :: _ => mkI [nth (Z.to_nat ((n - 1) mod Z.of_nat (length hash_ref))) hash_ref x] (i_at t) (i_hash t)
                     | _, _ => t
                     end
                else t in
      let start' := if is_nil (i_hash t) || hash_ok then start else 0 in
      Some (mkA true
                (first_valid f_distribution (valid_enum gr_DistributionRules_values) chain gr_app_distribution_default)
                t' start'
                (first_valid f_stop valid_sequence chain start)
                (first_valid f_strategy (valid_enum gr_StartingStrategies_values) chain s0)
                (first_valid f_sfs (valid_enum gr_StartingFailureStrategies_values) chain gr_app_sfs_default)
                (first_valid f_rfs (valid_enum gr_RunningFailureStrategies_values) chain gr_app_rfs_default),
            (* '@' is not documented for applications, and '#' over no instance at all is not specified *)
            is_nil (i_at t) && (is_nil (i_hash t) || negb (is_nil hash_ref)))
  end.

(* ---------- '#' / '@' over a homogeneous group, "as documented" ----------
   The state of a process is its (identifiers, at, hash) triple. A group is uniform for '@' (resp. '#') when
   every process is either assigned ([x], [], []) or waiting ([], L, []) (resp. ([], [], L)) for one list L. *)
Definition tobs_of (p : gproc) : tobs := obs_idt (g_idt p).

Definition uniform_at (ps : list gproc) : option (list Z) :=
  match find (fun p => negb (is_nil (i_at (g_idt p)))) ps with
  | None => None
  | Some p0 =>
      let L := i_at (g_idt p0) in
      if forallb (fun p => match tobs_of p with
                           | ([_], [], []) => true
                           | ([], a, []) => zl_eqb a L
                           | _ => false end) ps
      then Some L else None
  end.
Definition uniform_hash (ps : list gproc) : option (list Z) :=
  match find (fun p => negb (is_nil (i_hash (g_idt p)))) ps with
  | None => None
  | Some p0 =>
      let L := i_hash (g_idt p0) in
      if forallb (fun p => match tobs_of p with
                           | ([_], [], []) => true
                           | ([], [], h) => zl_eqb h L
                           | _ => false end) ps
      then Some L else None
  end.
Definition no_sign (ps : list gproc) : bool :=
  forallb (fun p => is_nil (i_at (g_idt p)) && is_nil (i_hash (g_idt p))) ps.

(* '@': "one process will be assigned to each Supvisors instance, leaving the processes in excess unassigned";
   waiting processes, by process index, take the names of the list not yet taken, in the order of the list *)
Definition spec_at (ev : env) (L : list Z) (ps : list gproc) : list tobs :=
  let order := sorted_procs ps in
  let taken := assigned_identifiers order in
  let free := filter (fun i => negb (zmem i taken)) (ref_identifiers ev L) in
  let waiting := filter (fun kp => negb (is_nil (i_at (g_idt (snd kp))))) order in
  let plan := combine (map fst waiting) free in                  (* position in the group -> identifier *)
  map (fun kp => match find (fun pi => Nat.eqb (fst pi) (fst kp)) plan with
                 | Some pi => ([snd pi], [], [])
                 | None => tobs_of (snd kp) end) (enumerate ps).

(* '#' on a fresh group (nobody assigned yet): "all the processes will be equally assigned", rolling over the
   list: the k-th process (by process index) goes to the (k mod n)-th name *)
Definition fresh (ps : list gproc) : bool := forallb (fun p => is_nil (i_ids (g_idt p))) ps.
Definition spec_hash_fresh (ref : list Z) (ps : list gproc) : list tobs :=
  let order := map fst (sorted_procs ps) in                      (* positions by process index *)
  let n := Z.of_nat (length ref) in
  map (fun kp =>
         match find_idx (Nat.eqb (fst kp)) order with
         | rank :: _ => ([nth (Z.to_nat (Z.of_nat rank mod n)) ref 0], [], [])
         | [] => tobs_of (snd kp)
         end) (enumerate ps).

(* known findings on '#': the documented behaviour is that unknown names are discarded (the processes just stay
   unassigned), and nothing in the documentation allows an exception.
   `hash-empty-ref`   : no name of the '#' list is known to the mapper  -> min() of an empty list
   `hash-foreign-id`  : a process of the group is already bound to an identifier outside the '#' list
                        (a program of the same homogeneous group not covered by the '#' rule, or model-sign-kept) *)
Definition class_hash_empty_ref (ev : env) (g : group) : bool :=
  match gr_hash g with
  | Some (h :: hl) => is_nil (ref_identifiers ev (h :: hl))
                      && existsb (fun p => negb (is_nil (i_hash (g_idt p)))) (gr_procs g)
  | _ => false
  end.
Definition class_hash_foreign (ev : env) (g : group) : bool :=
  match gr_hash g with
  | Some (h :: hl) =>
      existsb (fun p => negb (is_nil (i_hash (g_idt p)))) (gr_procs g)
      && existsb (fun p => match i_ids (g_idt p) with
                           | x :: _ => negb (zmem x (ref_identifiers ev (h :: hl)))
                           | [] => false end) (gr_procs g)
  | _ => false
  end.

(* The documentation describes '@' / '#' for a homogeneous group whose processes all got the SAME rule. When the
   processes of one program got different '@' / '#' lists from different <program> elements (the code logs
   "inconsistent identifiers rules" and keeps the list of the last process added), nothing is specified.
   The precondition is decidable: the list held by the group is the one list its waiting processes carry. *)
Definition holds (o : option (list Z)) (L : list Z) : bool :=
  match o with Some l => zl_eqb l L | None => false end.

(* expected observation of one resolve_rules, None when only "no exception" is demanded *)
Definition spec_resolve (ev : env) (g : group) : option (list tobs) :=
  let ps := gr_procs g in
  if no_sign ps then Some (map tobs_of ps)
  else match uniform_at ps, uniform_hash ps with
       | Some L, None =>
           if holds (gr_at g) L && negb (truthy (gr_hash g)) then Some (spec_at ev L ps) else None
       | None, Some L =>
           if holds (gr_hash g) L && negb (truthy (gr_at g)) then
             let ref := ref_identifiers ev L in
             if is_nil ref then Some (map tobs_of ps)
             else if fresh ps then Some (spec_hash_fresh ref ps)
             else None
           else None
       | _, _ => None
       end.

(* rebuild the state of the group from observed triples *)
Definition gprocs_of (procs : list (Z * Z)) (ts : list tobs) : list gproc :=
  map (fun pt => match snd pt with (i, a, h) => mkG (snd (fst pt)) (mkI i a h) end) (combine procs ts).
Definition group_of (ps : list gproc) : group := fold_left add_process ps group_init.
(* the group keeps its at/hash lists from the time the processes were added *)
Definition regroup (g0 : group) (ps : list gproc) : group := mkGroup ps (gr_at g0) (gr_hash g0).

Inductive verdict := VOk | VBad | VKnown (k : nat).    (* known finding numbers: see below *)
Definition K_SIGN_KEPT : nat := 1.
Definition K_HASH_EMPTY : nat := 2.
Definition K_HASH_FOREIGN : nat := 3.

Definition check_resolve (ev : env) (g : group) (observed : result (list tobs)) : verdict :=
  match observed with
  | Crash _ =>
      if class_hash_foreign ev g then VKnown K_HASH_FOREIGN
      else if class_hash_empty_ref ev g then VKnown K_HASH_EMPTY
      else VBad
  | Ok ts =>
      match spec_resolve ev g with
      | Some expected => if list_eqb tobs_eqb ts expected then VOk else VBad
      | None => if Nat.eqb (length ts) (length (gr_procs g)) then VOk else VBad
      end
  end.

Definition triple_of_pobs (o : pobs) : tobs := match o with (t, _, _, _, _, _, _, _) => t end.

Definition worst (a b : verdict) : verdict :=
  match a, b with
  | VBad, _ | _, VBad => VBad
  | VKnown k, _ => VKnown k
  | _, VKnown k => VKnown k
  | VOk, VOk => VOk
  end.

(* Spec vs the implementation's observation of one query *)
Definition check_query (d : doc) (o : oracle) (ev1 ev2 : env) (q : query) (ob : qobs) : verdict :=
  match q, ob with
  | QApp name idx s0, OApp r =>
      match spec_app_rules d o ev1 name idx s0 with
      | None => VOk
      | Some (expected, ids_specified) =>
          match r with
          | Crash _ => if ids_specified then VBad else VOk
          | Ok ao =>
              (* identifiers (and the start_sequence reset that depends on them) are compared only when specified *)
              let ao' := if ids_specified then ao
                         else match ao with (m, di, _, _, e, g, f, rf) =>
                                (m, di, obs_idt (a_idt expected), a_start expected, e, g, f, rf) end in
              if aobs_eqb ao' (obs_arules expected) then VOk else VBad
          end
      end
  | QGroup app procs sfs0 rfs0, OGroup loads res1 res2 =>
      let per_proc :=
        map (fun pl =>
               match spec_program_rules d o app (fst (fst pl)) sfs0 rfs0 with
               | None => VOk
               | Some expected =>
                   match snd pl with
                   | Crash _ => VBad
                   | Ok po => if pobs_eqb po (obs_prules expected) then VOk
                              else if class_sign_kept (aliases_of d) (program_chain d o app (fst (fst pl)))
                                   then VKnown K_SIGN_KEPT else VBad
                   end
               end) (combine procs loads) in
      let v_loads := if Nat.eqb (length loads) (length procs) then fold_left worst per_proc VOk else VBad in
      match all_ok loads with
      | None => v_loads
      | Some pos =>
          let ps0 := gprocs_of procs (map triple_of_pobs pos) in
          let g0 := group_of ps0 in
          let v1 := check_resolve ev1 g0 res1 in
          let ps1 := match res1 with Ok ts => gprocs_of procs ts | Crash _ => ps0 end in
          let v2 := check_resolve ev2 (regroup g0 ps1) res2 in
          worst v_loads (worst v1 v2)
      end
  | _, _ => VBad
  end.

Definition case_verdicts (c : case) : list verdict :=
  if Nat.eqb (length (c_queries c)) (length (c_obs c))
  then map (fun qo => check_query (c_doc c) (c_orc c) (c_env1 c) (c_env2 c) (fst qo) (snd qo))
           (combine (c_queries c) (c_obs c))
  else [VBad].

Definition is_bad (v : verdict) : bool := match v with VBad => true | _ => false end.
Definition is_known (k : nat) (v : verdict) : bool := match v with VKnown k' => Nat.eqb k k' | _ => false end.

Definition spec_violations (cs : list case) : list nat := find_idx (fun c => existsb is_bad (case_verdicts c)) cs.
Definition known_sign_kept (cs : list case) : list nat :=
  find_idx (fun c => existsb (is_known K_SIGN_KEPT) (case_verdicts c)) cs.
Definition known_hash_empty (cs : list case) : list nat :=
  find_idx (fun c => existsb (is_known K_HASH_EMPTY) (case_verdicts c)) cs.
Definition known_hash_foreign (cs : list case) : list nat :=
  find_idx (fun c => existsb (is_known K_HASH_FOREIGN) (case_verdicts c)) cs.
