(* FailureHandler.v — executable model of supvisors/strategy.py::RunningFailureHandler (C06) and of the
   filter applied to the lost processes by Commander.on_instances_invalidation (commander.py).
   Definitions only. Each function names the Python method it mirrors.

   The four job containers of the Python class are `set`s of ApplicationStatus / ProcessStatus objects:
   their iteration order is not defined by the language, and the only place where it shows is the ORDER of
   the calls issued inside one phase of trigger_jobs.  They are modelled as duplicate-free lists
   (zadd / zdiscard / filter) and every comparison with the implementation sorts them. *)
From Sup Require Export Base.
From Sup Require Import GenEnums GenNode.

(* RunningFailureStrategies *)
Inductive rfstrat := RfContinue | RfRestartProcess | RfStopApplication | RfRestartApplication | RfShutdown | RfRestart.

Definition rf_code (s : rfstrat) : Z :=
  match s with
  | RfContinue => gen_RunningFailureStrategies_CONTINUE
  | RfRestartProcess => gen_RunningFailureStrategies_RESTART_PROCESS
  | RfStopApplication => gen_RunningFailureStrategies_STOP_APPLICATION
  | RfRestartApplication => gen_RunningFailureStrategies_RESTART_APPLICATION
  | RfShutdown => gen_RunningFailureStrategies_SHUTDOWN
  | RfRestart => gen_RunningFailureStrategies_RESTART
  end.

Definition rf_eqb (a b : rfstrat) : bool :=
  match a, b with
  | RfContinue, RfContinue | RfRestartProcess, RfRestartProcess | RfStopApplication, RfStopApplication
  | RfRestartApplication, RfRestartApplication | RfShutdown, RfShutdown | RfRestart, RfRestart => true
  | _, _ => false
  end.

(* ---------- the context slice the handler reads ---------- *)
(* per process: its application, `process in application.get_start_sequenced_processes()`,
   process.rules.running_failure_strategy *)
Record pinfo := mkPinfo { pi_app : Z; pi_seq : bool; pi_strat : rfstrat }.

(* c_procs : the ProcessStatus objects that exist; c_apps : the keys of context.applications *)
Record ctx := mkCtx { c_procs : alist pinfo; c_apps : list Z }.

Definition app_of (c : ctx) (p : Z) : Z :=
  match aget p (c_procs c) with Some pi => pi_app pi | None => (-1) end.
Definition seq_of (c : ctx) (p : Z) : bool :=
  match aget p (c_procs c) with Some pi => pi_seq pi | None => false end.
Definition strat_of (c : ctx) (p : Z) : rfstrat :=
  match aget p (c_procs c) with Some pi => pi_strat pi | None => RfContinue end.

(* `self.supvisors.context.applications[process.application_name]` : KeyError when the application is unknown.
   (A process identifier absent from c_procs has no Python counterpart; the drivers never emit one.) *)
Definition lookup (c : ctx) (p : Z) : result pinfo :=
  match aget p (c_procs c) with
  | None => Crash KeyError
  | Some pi => if zmem (pi_app pi) (c_apps c) then Ok pi else Crash KeyError
  end.

(* ---------- the handler ---------- *)
Record handler := mkH {
  h_stop : list Z;    (* stop_application_jobs    (applications) *)
  h_rapp : list Z;    (* restart_application_jobs (applications) *)
  h_rproc : list Z;   (* restart_process_jobs     (processes) *)
  h_cont : list Z     (* continue_process_jobs    (processes) *)
}.

Definition h_empty : handler := mkH [] [] [] [].

(* RunningFailureHandler.abort *)
Definition abort (h : handler) : handler := h_empty.

(* process.application_name == application.application_name *)
Definition of_app (c : ctx) (a : Z) (p : Z) : bool := Z.eqb (app_of c p) a.

(* RunningFailureHandler.add_stop_application_job *)
Definition add_stop (c : ctx) (a : Z) (h : handler) : handler :=
  mkH (zadd a (h_stop h)) (zdiscard a (h_rapp h))
      (filter (fun p => negb (of_app c a p)) (h_rproc h))
      (filter (fun p => negb (of_app c a p)) (h_cont h)).

(* RunningFailureHandler.add_restart_application_job *)
Definition add_rapp (c : ctx) (a : Z) (h : handler) : handler :=
  if zmem a (h_stop h) then h
  else mkH (h_stop h) (zadd a (h_rapp h))
           (filter (fun p => negb (of_app c a p && seq_of c p)) (h_rproc h))
           (filter (fun p => negb (of_app c a p && seq_of c p)) (h_cont h)).

(* RunningFailureHandler.add_restart_process_job *)
Definition add_rproc (c : ctx) (a p : Z) (h : handler) : handler :=
  if zmem a (h_stop h) then h
  else if zmem a (h_rapp h) && seq_of c p then h
  else mkH (h_stop h) (h_rapp h) (zadd p (h_rproc h)) (zdiscard p (h_cont h)).

(* RunningFailureHandler.add_continue_process_job *)
Definition add_cont (c : ctx) (a p : Z) (h : handler) : handler :=
  if zmem a (h_stop h) then h
  else if zmem a (h_rapp h) && seq_of c p then h
  else if zmem p (h_rproc h) then h
  else mkH (h_stop h) (h_rapp h) (h_rproc h) (zadd p (h_cont h)).

(* RunningFailureHandler.add_job : SHUTDOWN and RESTART have no branch (they are handled by the FSM) *)
Definition add_job (c : ctx) (s : rfstrat) (p : Z) (h : handler) : result handler :=
  bind (lookup c p) (fun pi =>
    let a := pi_app pi in
    Ok (match s with
        | RfStopApplication => add_stop c a h
        | RfRestartApplication => add_rapp c a h
        | RfRestartProcess => add_rproc c a p h
        | RfContinue => add_cont c a p h
        | RfShutdown | RfRestart => h
        end)).

(* RunningFailureHandler.add_default_job ; `stopped` is application.stopped() at the time of the call *)
Definition add_default (c : ctx) (p : Z) (stopped : bool) (h : handler) : result handler :=
  bind (add_job c (strat_of c p) p h) (fun h1 =>
    match strat_of c p with
    | RfRestartProcess =>
        if stopped && seq_of c p then add_job c RfRestartApplication p h1 else Ok h1
    | _ => Ok h1
    end).

(* what one trigger_jobs issues: stopper.stop_application, stopper.default_restart_application,
   stopper.default_restart_process (each list sorted), and "the calls came phase after phase, then
   stopper.next() and starter.next() exactly once, in this order" *)
Definition tout := (list Z * list Z * list Z * bool)%type.

(* RunningFailureHandler.trigger_jobs ; `busy` = get_application_job_names(), computed once at the start *)
Definition trigger (c : ctx) (busy : list Z) (h : handler) : handler * tout :=
  let idle_app := fun a => negb (zmem a busy) in
  let idle_proc := fun p => negb (zmem (app_of c p) busy) in
  (mkH (filter (fun a => zmem a busy) (h_stop h))
       (filter (fun a => zmem a busy) (h_rapp h))
       (filter (fun p => zmem (app_of c p) busy) (h_rproc h))
       [],
   (zsort (filter idle_app (h_stop h)), zsort (filter idle_app (h_rapp h)),
    zsort (filter idle_proc (h_rproc h)), true)).

(* ---------- operations and observable ---------- *)
Inductive op :=
| AddJob (s : rfstrat) (p : Z)
| AddDefault (p : Z) (stopped : bool)
| Trigger (busy : list Z)
| Abort.

Definition no_out : tout := ([], [], [], true).

Definition step (c : ctx) (h : handler) (o : op) : result (handler * option tout) :=
  match o with
  | AddJob s p => bind (add_job c s p h) (fun h' => Ok (h', None))
  | AddDefault p st => bind (add_default c p st h) (fun h' => Ok (h', None))
  | Trigger busy => let r := trigger c busy h in Ok (fst r, Some (snd r))
  | Abort => Ok (abort h, None)
  end.

(* sorted job sets + what was issued by the operation *)
Definition hobs := (list Z * list Z * list Z * list Z * option tout)%type.
Inductive obs := OOk (o : hobs) | OCrash (k : crash).

Definition observe (h : handler) (t : option tout) : hobs :=
  (zsort (h_stop h), zsort (h_rapp h), zsort (h_rproc h), zsort (h_cont h), t).

(* the Python object is left untouched by a failing call as far as the comparison goes: the case stops *)
Fixpoint run (c : ctx) (h : handler) (ops : list op) : list obs :=
  match ops with
  | [] => []
  | o :: r => match step c h o with
              | Ok (h', t) => OOk (observe h' t) :: run c h' r
              | Crash k => [OCrash k]
              end
  end.

Definition zl_eqb := list_eqb Z.eqb.

Definition tout_eqb (a b : tout) : bool :=
  match a, b with
  | (s1, r1, p1, k1), (s2, r2, p2, k2) => zl_eqb s1 s2 && zl_eqb r1 r2 && zl_eqb p1 p2 && Bool.eqb k1 k2
  end.

Definition hobs_eqb (a b : hobs) : bool :=
  match a, b with
  | (s1, r1, p1, c1, t1), (s2, r2, p2, c2, t2) =>
      zl_eqb s1 s2 && zl_eqb r1 r2 && zl_eqb p1 p2 && zl_eqb c1 c2 && option_eqb tout_eqb t1 t2
  end.

Definition obs_eqb (a b : obs) : bool :=
  match a, b with
  | OOk x, OOk y => hobs_eqb x y
  | OCrash k1, OCrash k2 => crash_eqb k1 k2
  | _, _ => false
  end.

(* ---------- abstract specification (Spec_C06), written from the property statement ---------- *)
(* The specification only remembers the failure notifications that have not been acted upon yet.
   When the handler is triggered, every application that has no start/stop job in progress gets ONE
   action, the maximum of its pending notifications for
       STOP_APPLICATION > RESTART_APPLICATION > RESTART_PROCESS > CONTINUE ;
   the code's qualification is explicit: an application restart only covers the processes of its start
   sequence, so a RESTART_PROCESS notification of a process OUTSIDE the start sequence is still honoured
   beside RESTART_APPLICATION.  Applications with jobs in progress keep their notifications. *)
Definition notif := (rfstrat * Z)%type.   (* strategy, process *)

Definition rank (s : rfstrat) : Z :=
  match s with
  | RfStopApplication => 4 | RfRestartApplication => 3 | RfRestartProcess => 2 | RfContinue => 1
  | RfShutdown | RfRestart => 0
  end.

(* the maximum over the pending notifications of application a (0 when there is none) *)
Definition max_rank (c : ctx) (a : Z) (pend : list notif) : Z :=
  fold_right (fun n m => if Z.eqb (app_of c (snd n)) a then Z.max (rank (fst n)) m else m) 0 pend.

(* the promotion of the property text: RESTART_PROCESS becomes RESTART_APPLICATION when the application is
   left fully stopped (code: and the process belongs to the start sequence) *)
Definition effective (c : ctx) (p : Z) (stopped : bool) : rfstrat :=
  match strat_of c p with
  | RfRestartProcess => if stopped && seq_of c p then RfRestartApplication else RfRestartProcess
  | s => s
  end.

Definition wf_op (c : ctx) (o : op) : bool :=
  match o with
  | AddJob _ p | AddDefault p _ => match lookup c p with Ok _ => true | Crash _ => false end
  | _ => true
  end.

Definition spec_step (c : ctx) (pend : list notif) (o : op) : list notif :=
  match o with
  | AddJob s p => pend ++ [(s, p)]
  | AddDefault p st => pend ++ [(effective c p st, p)]
  | Trigger busy =>
      (* applications with jobs in progress keep their notifications; CONTINUE asks for nothing and is consumed *)
      filter (fun n => zmem (app_of c (snd n)) busy && negb (rf_eqb (fst n) RfContinue)) pend
  | Abort => []
  end.

(* expected actions of a trigger *)
Definition exp_stops (c : ctx) (busy : list Z) (pend : list notif) : list Z :=
  map (fun n => app_of c (snd n))
      (filter (fun n => negb (zmem (app_of c (snd n)) busy) && Z.eqb (rank (fst n)) 4) pend).

Definition exp_rapps (c : ctx) (busy : list Z) (pend : list notif) : list Z :=
  map (fun n => app_of c (snd n))
      (filter (fun n => let a := app_of c (snd n) in
                        negb (zmem a busy) && Z.eqb (rank (fst n)) 3 && Z.eqb (max_rank c a pend) 3) pend).

Definition exp_rprocs (c : ctx) (busy : list Z) (pend : list notif) : list Z :=
  map snd
      (filter (fun n => let a := app_of c (snd n) in
                        negb (zmem a busy) && Z.eqb (rank (fst n)) 2
                        && (Z.eqb (max_rank c a pend) 2
                            || (Z.eqb (max_rank c a pend) 3 && negb (seq_of c (snd n))))) pend).

(* the action pending for application a, as a rank (0 = none), read from the handler's job sets *)
Definition pending_rank (c : ctx) (h : handler) (a : Z) : Z :=
  if zmem a (h_stop h) then 4
  else if zmem a (h_rapp h) then 3
  else if existsb (of_app c a) (h_rproc h) then 2
  else if existsb (of_app c a) (h_cont h) then 1
  else 0.

Fixpoint nodupb (l : list Z) : bool :=
  match l with [] => true | x :: r => negb (zmem x r) && nodupb r end.

Definition zset_eqb (a b : list Z) : bool :=
  forallb (fun x => zmem x b) a && forallb (fun x => zmem x a) b.

(* at most one action per application / one restart per process, exactly the expected ones *)
Definition spec_accepts_trigger (c : ctx) (busy : list Z) (pend : list notif) (t : tout) : bool :=
  match t with
  | (stops, rapps, rprocs, order_ok) =>
      order_ok
      && nodupb stops && nodupb rapps && nodupb rprocs
      && forallb (fun a => negb (zmem a rapps)) stops
      && zset_eqb stops (exp_stops c busy pend)
      && zset_eqb rapps (exp_rapps c busy pend)
      && zset_eqb rprocs (exp_rprocs c busy pend)
  end.

Definition spec_accepts (c : ctx) (pend : list notif) (o : op) (ob : obs) : bool :=
  match ob with
  | OCrash _ => false
  | OOk (_, _, _, _, t) =>
      match o, t with
      | Trigger busy, Some t' => spec_accepts_trigger c busy pend t'
      | Trigger _, None => false
      | _, None => true
      | _, Some _ => false          (* nothing may be issued outside trigger_jobs *)
      end
  end.

(* true when some observation of a well-formed prefix is refused by the specification *)
Fixpoint spec_violated (c : ctx) (pend : list notif) (ops : list op) (obss : list obs) : bool :=
  match ops, obss with
  | o :: r, ob :: robs =>
      if wf_op c o then
        if spec_accepts c pend o ob then spec_violated c (spec_step c pend o) r robs else true
      else false
  | _, _ => false
  end.

Definition case := (ctx * list op * list obs)%type.

Definition case_mismatch (cs : case) : bool :=
  match cs with (c, ops, obss) => negb (list_eqb obs_eqb (run c h_empty ops) obss) end.
Definition case_spec_violation (cs : case) : bool :=
  match cs with (c, ops, obss) => spec_violated c [] ops obss end.

Definition mismatches (cs : list case) : list nat := find_idx case_mismatch cs.
Definition spec_violations (cs : list case) : list nat := find_idx case_spec_violation cs.

(* ====================================================================== *)
(* Commander.on_instances_invalidation : which lost processes reach the failure handler *)
(* ====================================================================== *)
(* a ProcessCommand: the process, the identifier it was sent to, and whether ApplicationStartJobs.process_failure
   erases the planned jobs of its application (required process with starting failure strategy ABORT or STOP;
   always false for stop commands, whose process_failure is empty) *)
Record cmd := mkCmd { k_proc : Z; k_ident : Z; k_erases : bool }.

(* one ApplicationJobs: current_jobs, planned_jobs flattened (sum(self.planned_jobs.values(), [])) *)
Record appjob := mkJob { j_current : list cmd; j_planned : list cmd }.

Definition zremove_all (xs : list Z) (l : list Z) : list Z := filter (fun p => negb (zmem p xs)) l.

(* ApplicationJobs.on_instances_invalidation *)
Definition job_invalidation (lost : list Z) (j : appjob) (failed : list Z) : appjob * list Z :=
  let gone := filter (fun k => zmem (k_ident k) lost) (j_current j) in
  let kept := filter (fun k => negb (zmem (k_ident k) lost)) (j_current j) in
  let planned := if existsb k_erases gone then [] else j_planned j in
  (mkJob kept planned,
   zremove_all (map k_proc planned) (zremove_all (map k_proc gone) failed)).

(* Commander.on_instances_invalidation : the current application jobs, then the planned ones *)
Fixpoint commander_invalidation (lost : list Z) (jobs : list appjob) (failed : list Z)
  : list appjob * list Z :=
  match jobs with
  | [] => ([], failed)
  | j :: r => let '(j', f1) := job_invalidation lost j failed in
              let '(r', f2) := commander_invalidation lost r f1 in
              (j' :: r', f2)
  end.

(* _WorkingState._common_next : starter first, then stopper, on the SAME set object *)
Definition lost_filter (lost : list Z) (starter_jobs stopper_jobs : list appjob) (failed : list Z) : list Z :=
  snd (commander_invalidation lost stopper_jobs (snd (commander_invalidation lost starter_jobs failed))).

(* observable of the filter: what is left of failed_processes (sorted), and per application job the remaining
   current commands (process, identifier) and the processes of the remaining planned commands *)
Definition jobs_obs (jobs : list appjob) : list (list (Z * Z) * list Z) :=
  map (fun j => (map (fun k => (k_proc k, k_ident k)) (j_current j), map k_proc (j_planned j))) jobs.

Definition icase := (list Z * list appjob * list Z * (list Z * list (list (Z * Z) * list Z)))%type.

Definition pair_eqb (a b : Z * Z) : bool := Z.eqb (fst a) (fst b) && Z.eqb (snd a) (snd b).

Definition icase_mismatch (cs : icase) : bool :=
  match cs with
  | (lost, jobs, failed, (ofailed, ojobs)) =>
      let '(jobs', failed') := commander_invalidation lost jobs failed in
      negb (zl_eqb (zsort failed') ofailed
            && list_eqb (fun x y => list_eqb pair_eqb (fst x) (fst y) && zl_eqb (snd x) (snd y))
                        (jobs_obs jobs') ojobs)
  end.

(* Spec: a lost process is handed to the failure handler unless a command of it was pending on a lost
   instance or is still planned after the invalidation *)
Definition icase_spec_violation (cs : icase) : bool :=
  match cs with
  | (lost, jobs, failed, (ofailed, ojobs)) =>
      let pending_lost := flat_map (fun j => map k_proc (filter (fun k => zmem (k_ident k) lost) (j_current j))) jobs in
      negb (forallb (fun p => zmem p failed && negb (zmem p pending_lost)
                              && negb (existsb (fun oj => zmem p (snd oj)) ojobs)) ofailed
            && forallb (fun p => zmem p ofailed || zmem p pending_lost
                                 || existsb (fun j => zmem p (map k_proc (j_planned j))) jobs) failed)
  end.

Definition imismatches (cs : list icase) : list nat := find_idx icase_mismatch cs.
Definition ispec_violations (cs : list icase) : list nat := find_idx icase_spec_violation cs.

(* ====================================================================== *)
(* Who feeds the handler (statemachine.py), as finite decision functions tabulated on the real classes *)
(* ====================================================================== *)
Inductive wstate := WDistribution | WOperation | WConciliation.

(* the role of the local instance when an instance is lost:
   RMaster          : it is the Master (the lost instance is another one);
   RSlave           : it is not, and the Master survives;
   RNextMaster      : it is not, the LOST instance is the Master, and the local instance is elected next *)
Inductive role := RMaster | RSlave | RNextMaster.

(* Does the local instance call failure_handler.add_default_job for the processes lost with the instance
   (`lostp` = invalidate_failed returned lost processes) -- at the evaluation that acknowledges the loss or at any
   later one (the driver evaluates the FSM until the local instance has been a Master in OPERATION for a while) ?
   _MasterSlaveState.next -> _master_next only on the Master; DistributionState, OperationState and
   ConciliationState all call _WorkingState._master_next. When the Master itself is lost, _check_consistence
   returns ELECTION before _master_next/_common_next, lost_processes dies with the state instance, and neither
   ElectionState nor the next working state of the new Master looks at them. *)
Definition loss_handled (st : wstate) (r : role) (lostp : bool) : bool :=
  match r with RMaster => lostp | RSlave | RNextMaster => false end.

(* FiniteStateMachine.on_process_state_event : add_default_job + trigger_jobs on a process crash *)
Definition crash_handled (s : rfstrat) (master crashed forced : bool) : bool :=
  master && crashed && negb forced
  && match s with RfStopApplication | RfRestartApplication => true | _ => false end.

(* ... and the Supvisors-level strategies go to on_restart / on_shutdown (0 none, 1 restart, 2 shutdown) *)
Definition crash_ending (s : rfstrat) (master crashed : bool) : Z :=
  if master && crashed then match s with RfRestart => 1 | RfShutdown => 2 | _ => 0 end else 0.

(* on_restart / on_shutdown on the Master: set_state(RESTARTING / SHUTTING_DOWN), which FiniteStateMachine.set_state
   refuses when the reflected transition table has no such edge from the current state.
   `from_election` : the Master is in ELECTION (true) or in OPERATION (false) when the crash is reported. *)
Definition fsm_allows (from to : Z) : bool :=
  match find (fun row => Z.eqb (fst row) from) gen_fsm_transitions with
  | Some row => zmem to (snd row)
  | None => false
  end.

Definition crash_ending_entered (s : rfstrat) (master crashed from_election : bool) : bool :=
  let from := if from_election then gen_SupvisorsStates_ELECTION else gen_SupvisorsStates_OPERATION in
  match crash_ending s master crashed with
  | 1 => fsm_allows from gen_SupvisorsStates_RESTARTING
  | 2 => fsm_allows from gen_SupvisorsStates_SHUTTING_DOWN
  | _ => false
  end.

Definition wcase := (wstate * role * bool * bool)%type.     (* state, role, lostp, observed *)
(* strategy, master, crashed, forced, from_election, observed (handled, ending requested, ending entered) *)
Definition ccase := (rfstrat * bool * bool * bool * bool * (bool * Z * bool))%type.

Definition wcase_mismatch (x : wcase) : bool :=
  match x with (st, r, l, o) => negb (Bool.eqb (loss_handled st r l) o) end.
Definition ccase_mismatch (x : ccase) : bool :=
  match x with (s, m, cr, f, el, (o1, o2, o3)) =>
    negb (Bool.eqb (crash_handled s m cr f) o1 && Z.eqb (crash_ending s m cr) o2
          && Bool.eqb (crash_ending_entered s m cr el) o3) end.

(* Spec (property text): the Master -- the next one when the Master itself is lost -- and only the Master applies
   the strategy to every lost process *)
Definition loss_expected (r : role) (lostp : bool) : bool :=
  match r with RMaster | RNextMaster => lostp | RSlave => false end.
Definition wcase_spec_violation (x : wcase) : bool :=
  match x with (st, r, l, o) => negb (Bool.eqb o (loss_expected r l)) end.
(* the class of known finding F9: the processes are lost together with the Master *)
Definition in_f9_class (x : wcase) : bool :=
  match x with (_, RNextMaster, true, _) => true | _ => false end.
Definition wcase_spec_violation_outside_f9 (x : wcase) : bool := negb (in_f9_class x) && wcase_spec_violation x.
Definition wcase_spec_violation_f9 (x : wcase) : bool := in_f9_class x && wcase_spec_violation x.

(* crash: application-level strategies by the Master only, never on a forced state; SHUTDOWN / RESTART are requested
   by the Master only and the FSM then enters RESTARTING / SHUTTING_DOWN *)
Definition ccase_spec_violation (x : ccase) : bool :=
  match x with (s, m, cr, f, el, (o1, o2, o3)) =>
    let want := if m && cr then (if rf_eqb s RfRestart then 1 else if rf_eqb s RfShutdown then 2 else 0) else 0 in
    negb (Bool.eqb o1 (m && cr && negb f && (rf_eqb s RfStopApplication || rf_eqb s RfRestartApplication))
          && Z.eqb o2 want && Bool.eqb o3 (negb (Z.eqb want 0)))
  end.
(* the class of known finding F10: the Master is in ELECTION when the crash is reported *)
Definition in_f10_class (x : ccase) : bool :=
  match x with (_, _, _, _, el, _) => el end.
Definition ccase_spec_violation_outside_f10 (x : ccase) : bool := negb (in_f10_class x) && ccase_spec_violation x.
Definition ccase_spec_violation_f10 (x : ccase) : bool := in_f10_class x && ccase_spec_violation x.

Definition wmismatches (cs : list wcase) : list nat := find_idx wcase_mismatch cs.
Definition wspec_violations (cs : list wcase) : list nat := find_idx wcase_spec_violation_outside_f9 cs.
Definition wknown_f9 (cs : list wcase) : list nat := find_idx wcase_spec_violation_f9 cs.
Definition cmismatches (cs : list ccase) : list nat := find_idx ccase_mismatch cs.
Definition cspec_violations (cs : list ccase) : list nat := find_idx ccase_spec_violation_outside_f10 cs.
Definition cknown_f10 (cs : list ccase) : list nat := find_idx ccase_spec_violation_f10 cs.
