(* AppMember.v — executable model of the membership bookkeeping of supvisors/application.py::ApplicationStatus
   (processes, process_groups, start_sequence, stop_sequence) as driven by supvisors/context.py::Context
   (load_processes / setdefault_application / setdefault_process / on_process_removed_event / check_process),
   supvisors/instancestatus.py::SupvisorsInstanceStatus.add_process / remove_process,
   supvisors/process.py::ProcessStatus.add_info (info_map keys, program_name) / remove_identifier (info_map keys),
   and read by ApplicationStatus.resolve_rules, Starter.store_application / start_application / start_applications
   and the XML-RPCs start_application / restart_sequence.  Definitions only. Property C16 (additions and removals).

   Identifiers are integers: applications, process names, program names, Supvisors instances. A ProcessStatus OBJECT is
   identified by a [uid] given at creation (the Python code stores object references in the homogeneous groups and in
   the sequences: a reference can outlive the entry of application.processes — a "stale" reference).

   Not modelled (outside the membership bookkeeping): process states (every process is STOPPED and was never started,
   hence ApplicationStatus.state = STOPPED and never_started() holds), ApplicationStatus.update() (status formula:
   property C15), the '@' / '#' identifiers of HomogeneousGroup.resolve_rules (rules: property C18; the processes of
   this model have none, so that HomogeneousGroup.resolve_rules does nothing), Starter.next() (property C03). *)
From Sup Require Export Base.

(* ---------------------------------------------------------------- pairs of integers *)
Definition ns := (Z * Z)%type.        (* a namespec (application, process name) or a reference (process name, uid) *)
Definition ns_eqb (x y : ns) : bool := Z.eqb (fst x) (fst y) && Z.eqb (snd x) (snd y).
Definition ns_mem (x : ns) (l : list ns) : bool := existsb (ns_eqb x) l.
(* d[k] = v seen on the keys of a dict *)
Definition ns_add (x : ns) (l : list ns) : list ns := if ns_mem x l then l else l ++ [x].
(* del d[k] seen on the keys (membership is tested by the caller) *)
Definition ns_del (x : ns) (l : list ns) : list ns := filter (fun y => negb (ns_eqb x y)) l.
(* list.remove(x): first occurrence *)
Fixpoint ref_remove (e : ns) (l : list ns) : list ns :=
  match l with
  | [] => []
  | x :: r => if ns_eqb e x then r else x :: ref_remove e r
  end.

(* ---------------------------------------------------------------- data *)
(* ProcessStatus: uid (object identity), program_name (overwritten by every add_info), rules.start_sequence,
   rules.stop_sequence (loaded once, at creation), keys of info_map (insertion order) *)
Record proc := mkproc { p_uid : Z; p_prog : Z; p_sseq : Z; p_tseq : Z; p_infos : list Z }.

(* ApplicationStatus: rules.managed, processes {name: ProcessStatus}, process_groups {program_name: [references]},
   start_sequence / stop_sequence {sequence number: [references]}.
   a_dead: program_name of the ProcessStatus objects that left application.processes (read only through a stale
   reference). *)
Record app := mkapp { a_managed : bool; a_procs : alist proc; a_groups : alist (list ns);
                      a_start : alist (list ns); a_stop : alist (list ns); a_dead : alist Z }.

(* Context.applications {name: ApplicationStatus}; SupvisorsInstanceStatus.processes keys per instance; uid counter *)
Record state := mkstate { s_apps : alist app; s_inst : alist (list ns); s_next : Z }.

(* what does not change along a history: external publisher present, Managed applications (rules file), program rules
   (rules file: namespec -> start_sequence, stop_sequence), instances in CHECKED / RUNNING state, known instances *)
Record config := mkconfig { c_pub : bool; c_managed : list Z; c_rules : list (ns * (Z * Z)); c_active : list Z;
                            c_insts : list Z }.

Definition init_state : state := mkstate [] [] 0.

(* ProcessRules defaults: start_sequence = 0, stop_sequence = -1 *)
Fixpoint rules_of (k : ns) (l : list (ns * (Z * Z))) : Z * Z :=
  match l with
  | [] => (0, -1)
  | (k', v) :: r => if ns_eqb k k' then v else rules_of k r
  end.

Definition inst_of (i : Z) (st : state) : list ns :=
  match aget i (s_inst st) with Some l => l | None => [] end.

Definition new_app (m : bool) : app := mkapp m [] [] [] [] [].

(* ---------------------------------------------------------------- ApplicationStatus.update_sequences *)
(* d.setdefault(k, []).append(e) *)
Definition seq_add (k : Z) (e : ns) (s : alist (list ns)) : alist (list ns) :=
  match aget k s with
  | Some l => aset k (l ++ [e]) s
  | None => aset k [e] s
  end.

Fixpoint build_seq (key : proc -> Z) (ps : alist proc) (acc : alist (list ns)) : alist (list ns) :=
  match ps with
  | [] => acc
  | (n, p) :: r => build_seq key r (seq_add (key p) (n, p_uid p) acc)
  end.

Definition update_sequences (ap : app) : app :=
  mkapp (a_managed ap) (a_procs ap) (a_groups ap)
        (if a_managed ap then build_seq p_sseq (a_procs ap) [] else [])
        (build_seq p_tseq (a_procs ap) [])
        (a_dead ap).

(* ---------------------------------------------------------------- ApplicationStatus.remove_process *)
Definition app_remove (n : Z) (ap : app) : result app :=
  match aget n (a_procs ap) with
  | None => Crash KeyError                                          (* self.processes.pop(process_name) *)
  | Some p =>
    let procs' := adel n (a_procs ap) in
    match aget (p_prog p) (a_groups ap) with
    | None => Crash KeyError                                        (* self.process_groups[process.program_name] *)
    | Some g =>
      if negb (ns_mem (n, p_uid p) g) then Crash ValueError         (* HomogeneousGroup.processes.remove(process) *)
      else
        let g' := ref_remove (n, p_uid p) g in
        let groups' := match g' with
                       | [] => adel (p_prog p) (a_groups ap)
                       | _ => aset (p_prog p) g' (a_groups ap)
                       end in
        Ok (update_sequences (mkapp (a_managed ap) procs' groups' (a_start ap) (a_stop ap)
                                    (aset (p_uid p) (p_prog p) (a_dead ap))))
    end
  end.

(* ---------------------------------------------------------------- Context.load_processes *)
(* Context.setdefault_process + SupvisorsInstanceStatus.add_process for one payload (application, name, program_name) *)
Definition load_one (cfg : config) (i : Z) (info : Z * Z * Z) (st : state) : state :=
  let '(a, nm, prog) := info in
  let ap := match aget a (s_apps st) with
            | Some ap => ap
            | None => new_app (zmem a (c_managed cfg))
            end in
  let '(ap', nxt) :=
    match aget nm (a_procs ap) with
    | Some p =>
      (* existing ProcessStatus: add_info only (info_map[identifier] = payload ; self.program_name = ...) *)
      (mkapp (a_managed ap) (aset nm (mkproc (p_uid p) prog (p_sseq p) (p_tseq p) (zadd i (p_infos p))) (a_procs ap))
             (a_groups ap) (a_start ap) (a_stop ap) (a_dead ap), s_next st)
    | None =>
      let '(ss, ts) := rules_of (a, nm) (c_rules cfg) in
      let e := (nm, s_next st) in
      let g := match aget prog (a_groups ap) with Some g => g ++ [e] | None => [e] end in
      (mkapp (a_managed ap) (aset nm (mkproc (s_next st) prog ss ts [i]) (a_procs ap))
             (aset prog g (a_groups ap)) (a_start ap) (a_stop ap) (a_dead ap), s_next st + 1)
    end in
  mkstate (aset a ap' (s_apps st)) (aset i (ns_add (a, nm) (inst_of i st)) (s_inst st)) nxt.

Fixpoint load_all (cfg : config) (i : Z) (infos : list (Z * Z * Z)) (st : state) : state :=
  match infos with
  | [] => st
  | info :: r => load_all cfg i r (load_one cfg i info st)
  end.

Definition resequence (apps : alist app) : alist app := map (fun x => (fst x, update_sequences (snd x))) apps.

(* load_processes(status, all_info, check_state=False) = FiniteStateMachine.on_process_added_event for a list *)
Definition ctx_load (cfg : config) (i : Z) (infos : list (Z * Z * Z)) (st : state) : state :=
  let st' := load_all cfg i infos st in
  mkstate (resequence (s_apps st')) (s_inst st') (s_next st').

(* ---------------------------------------------------------------- Context.on_process_removed_event *)
(* publications on the external publisher: (0, app, name) process event DELETED, (1, app, name) last process status,
   (2, app, -1) application status *)
Definition pubev := (Z * Z * Z)%type.

(* Context.check_process + the choice of the target processes; None = event ignored *)
Definition targets (i : Z) (n : option Z) (ap : app) : option (list (Z * proc)) :=
  match n with
  | Some nm => match aget nm (a_procs ap) with
               | Some p => if zmem i (p_infos p) then Some [(nm, p)] else None     (* AssertionError caught *)
               | None => None                                                    (* KeyError caught *)
               end
  | None => Some (filter (fun x => zmem i (p_infos (snd x))) (a_procs ap))       (* get_instance_processes *)
  end.

Definition loop_acc := (list ns * app * bool * list pubev)%type.

Definition remove_target (pub : bool) (i a : Z) (t : Z * proc) (acc : loop_acc) : result loop_acc :=
  let '(il, ap, imp, pubs) := acc in
  let '(nm, p) := t in
  let pubs1 := if pub then pubs ++ [(0, a, nm)] else pubs in
  if negb (ns_mem (a, nm) il) then Crash KeyError                  (* status.remove_process: del self.processes[...] *)
  else
    let il' := ns_del (a, nm) il in
    if negb (zmem i (p_infos p)) then Crash KeyError               (* remove_identifier: del self.info_map[identifier] *)
    else
      match zdiscard i (p_infos p) with
      | [] =>
        let pubs2 := if pub then pubs1 ++ [(1, a, nm)] else pubs1 in
        bind (app_remove nm ap) (fun ap' => Ok (il', ap', true, pubs2))
      | infos' =>
        Ok (il', mkapp (a_managed ap) (aset nm (mkproc (p_uid p) (p_prog p) (p_sseq p) (p_tseq p) infos') (a_procs ap))
                       (a_groups ap) (a_start ap) (a_stop ap) (a_dead ap), imp, pubs1)
      end.

Fixpoint remove_loop (pub : bool) (i a : Z) (ts : list (Z * proc)) (acc : loop_acc) : result loop_acc :=
  match ts with
  | [] => Ok acc
  | t :: r => bind (remove_target pub i a t acc) (remove_loop pub i a r)
  end.

Definition ctx_removed (cfg : config) (i a : Z) (n : option Z) (st : state) : result (state * list pubev) :=
  if negb (zmem i (c_active cfg)) then Ok (st, [])
  else match aget a (s_apps st) with
       | None => Ok (st, [])                                                     (* check_process: KeyError caught *)
       | Some ap =>
         match targets i n ap with
         | None => Ok (st, [])
         | Some ts =>
           bind (remove_loop (c_pub cfg) i a ts (inst_of i st, ap, false, []))
                (fun r => let '(il, ap', imp, pubs) := r in
                          let apps' := match a_procs ap' with
                                       | [] => adel a (s_apps st)                (* del self.applications[...] *)
                                       | _ => aset a ap' (s_apps st)
                                       end in
                          let pubs' := if imp && c_pub cfg then pubs ++ [(2, a, -1)] else pubs in
                          Ok (mkstate apps' (aset i il (s_inst st)) (s_next st), pubs'))
         end
       end.

(* ---------------------------------------------------------------- readers *)
Definition is_current (ap : app) (e : ns) : bool :=
  match aget (fst e) (a_procs ap) with
  | Some p => Z.eqb (p_uid p) (snd e)
  | None => false
  end.

(* process.program_name read through a reference *)
Definition ref_prog (ap : app) (e : ns) : Z :=
  let dead := match aget (snd e) (a_dead ap) with Some g => g | None => -1 end in
  match aget (fst e) (a_procs ap) with
  | Some p => if Z.eqb (p_uid p) (snd e) then p_prog p else dead
  | None => dead
  end.

(* ApplicationStatus.resolve_rules: self.process_groups[program_name] for the programs of the start sequence *)
Definition resolve_rules (ap : app) : result unit :=
  if forallb (fun e => amem (ref_prog ap e) (a_groups ap)) (concat (avals (a_start ap))) then Ok tt
  else Crash KeyError.

(* Starter.store_application: True when a job is queued *)
Definition has_pos_seq (ap : app) : bool := existsb (fun x => 0 <? fst x) (a_start ap).
Definition store_application (ap : app) : result bool :=
  if has_pos_seq ap then bind (resolve_rules ap) (fun _ => Ok true) else Ok false.

(* Starter.start_applications (rules.start_sequence > 0 exactly for the Managed applications of the configuration;
   never_started() holds) *)
Fixpoint start_all (l : alist app) (queued : bool) : result bool :=
  match l with
  | [] => Ok queued
  | (_, ap) :: r => if a_managed ap then bind (store_application ap) (fun q => start_all r (queued || q))
                    else start_all r queued
  end.

(* ---------------------------------------------------------------- operations *)
Inductive op :=
| Load (i : Z) (infos : list (Z * Z * Z))     (* ALL_INFO / PROCESS_ADDED from instance i: (app, name, program) *)
| Removed (i a : Z) (n : option Z)            (* PROCESS_REMOVED from instance i; None = '*' (group removed) *)
| AppRemove (a n : Z)                         (* ApplicationStatus.remove_process(n), direct call *)
| Resolve (a : Z)                             (* ApplicationStatus.resolve_rules(), direct call *)
| StartApp (a : Z)                            (* XML-RPC start_application(strategy, a, wait=False) *)
| RestartSeq.                                 (* XML-RPC restart_sequence(wait=False) *)

(* answers: nothing to say / application unknown (direct call not made) / faults BAD_NAME, NOT_MANAGED,
   ABNORMAL_TERMINATION / True *)
Inductive reply := RNone | RNoApp | RBadName | RNotManaged | RAbnormal | RDone.

Definition step (cfg : config) (st : state) (o : op) : result (state * reply * list pubev) :=
  match o with
  | Load i infos => Ok (ctx_load cfg i infos st, RNone, [])
  | Removed i a n => bind (ctx_removed cfg i a n st) (fun r => Ok (fst r, RNone, snd r))
  | AppRemove a n =>
    match aget a (s_apps st) with
    | None => Ok (st, RNoApp, [])
    | Some ap => bind (app_remove n ap)
                      (fun ap' => Ok (mkstate (aset a ap' (s_apps st)) (s_inst st) (s_next st), RNone, []))
    end
  | Resolve a =>
    match aget a (s_apps st) with
    | None => Ok (st, RNoApp, [])
    | Some ap => bind (resolve_rules ap) (fun _ => Ok (st, RNone, []))
    end
  | StartApp a =>
    match aget a (s_apps st) with
    | None => Ok (st, RBadName, [])
    | Some ap => if negb (a_managed ap) then Ok (st, RNotManaged, [])
                 else bind (store_application ap) (fun q => Ok (st, if q then RDone else RAbnormal, []))
    end
  | RestartSeq => bind (start_all (s_apps st) false) (fun q => Ok (st, if q then RDone else RAbnormal, []))
  end.

(* ---------------------------------------------------------------- observable *)
(* a reference seen from outside: process name, "is the object of application.processes[name]", its program_name *)
Definition oref := (Z * bool * Z)%type.
(* application: name, managed, processes [(name, program_name, info_map keys)], process_groups [(program, [(name,
   current)])], start_sequence, stop_sequence [(number, [references])] *)
Definition oapp := (Z * bool * list (Z * Z * list Z) * list (Z * list (Z * bool)) * list (Z * list oref)
                    * list (Z * list oref))%type.
Definition ostate := (list oapp * list (Z * list ns))%type.

(* OSame r: compact form used by the driver for "answer r, no publication, same observable state as before" *)
Inductive obs :=
| OOk (r : reply) (pubs : list pubev) (st : ostate)
| OSame (r : reply)
| OCrash (k : crash).

Fixpoint expand (prev : ostate) (os : list obs) : list obs :=
  match os with
  | [] => []
  | OOk r p st :: t => OOk r p st :: expand st t
  | OSame r :: t => OOk r [] prev :: expand prev t
  | OCrash k :: t => OCrash k :: expand prev t
  end.

Definition obs_ref (ap : app) (e : ns) : oref := (fst e, is_current ap e, ref_prog ap e).
Definition obs_seq (ap : app) (s : alist (list ns)) : list (Z * list oref) :=
  map (fun x => (fst x, map (obs_ref ap) (snd x))) s.

Definition obs_app (x : Z * app) : oapp :=
  let ap := snd x in
  (fst x, a_managed ap,
   map (fun y => (fst y, p_prog (snd y), p_infos (snd y))) (a_procs ap),
   map (fun y => (fst y, map (fun e => (fst e, is_current ap e)) (snd y))) (a_groups ap),
   obs_seq ap (a_start ap), obs_seq ap (a_stop ap)).

Definition observe (cfg : config) (st : state) : ostate :=
  (map obs_app (s_apps st), map (fun i => (i, inst_of i st)) (c_insts cfg)).

(* a history stops at the first exception *)
Fixpoint run (cfg : config) (st : state) (ops : list op) : list obs :=
  match ops with
  | [] => []
  | o :: r => match step cfg st o with
              | Ok (st', rep, pubs) => OOk rep pubs (observe cfg st') :: run cfg st' r
              | Crash k => [OCrash k]
              end
  end.

(* ---------------------------------------------------------------- equality of observations *)
Definition reply_eqb (a b : reply) : bool :=
  match a, b with
  | RNone, RNone | RNoApp, RNoApp | RBadName, RBadName | RNotManaged, RNotManaged | RAbnormal, RAbnormal
  | RDone, RDone => true
  | _, _ => false
  end.

Definition pair_eqb {A B} (ea : A -> A -> bool) (eb : B -> B -> bool) (x y : A * B) : bool :=
  ea (fst x) (fst y) && eb (snd x) (snd y).

Definition oref_eqb : oref -> oref -> bool := pair_eqb (pair_eqb Z.eqb Bool.eqb) Z.eqb.
Definition oseq_eqb : list (Z * list oref) -> list (Z * list oref) -> bool :=
  list_eqb (pair_eqb Z.eqb (list_eqb oref_eqb)).
Definition oapp_eqb : oapp -> oapp -> bool :=
  pair_eqb (pair_eqb (pair_eqb (pair_eqb (pair_eqb Z.eqb Bool.eqb)
    (list_eqb (pair_eqb (pair_eqb Z.eqb Z.eqb) (list_eqb Z.eqb))))
    (list_eqb (pair_eqb Z.eqb (list_eqb (pair_eqb Z.eqb Bool.eqb)))))
    oseq_eqb) oseq_eqb.
Definition ostate_eqb : ostate -> ostate -> bool :=
  pair_eqb (list_eqb oapp_eqb) (list_eqb (pair_eqb Z.eqb (list_eqb ns_eqb))).
Definition pubev_eqb : pubev -> pubev -> bool := pair_eqb (pair_eqb Z.eqb Z.eqb) Z.eqb.

Definition obs_eqb (a b : obs) : bool :=
  match a, b with
  | OOk r p s, OOk r' p' s' => reply_eqb r r' && list_eqb pubev_eqb p p' && ostate_eqb s s'
  | OSame r, OSame r' => reply_eqb r r'
  | OCrash k, OCrash k' => crash_eqb k k'
  | _, _ => false
  end.

(* ================================================================ the specification, from the text of C16
   "Whatever sequence of [...] group/process additions and removals [...] and XML-RPC requests an instance receives,
   handling it never raises an internal error: XML-RPC callers get a result or a documented fault".
   Evaluated on OBSERVATIONS only (of the implementation, or of the model):
   (S1) no operation ends with an exception — except the direct call ApplicationStatus.remove_process(n) on a process
        name that is not in application.processes (KeyError: the precondition of that method; its only caller,
        Context.on_process_removed_event, has just read the name from application.processes);
   (S2) after every operation, in every application: every reference of start_sequence / stop_sequence is the object
        currently in application.processes (no stale ProcessStatus), is referenced once, and its program_name is a key of
        process_groups (what resolve_rules needs); every process whose rules give a start sequence > 0 is in
        start_sequence under that number when the application is Managed; every process is in stop_sequence under its
        stop sequence number. *)
Definition or_name (e : oref) : Z := fst (fst e).
Definition or_cur (e : oref) : bool := snd (fst e).
Definition or_prog (e : oref) : Z := snd e.

Fixpoint nodupb (l : list Z) : bool :=
  match l with
  | [] => true
  | x :: r => negb (zmem x r) && nodupb r
  end.

Definition oflat (s : list (Z * list oref)) : list oref := concat (map snd s).

Definition seq_refs_ok (names gkeys : list Z) (s : list (Z * list oref)) : bool :=
  forallb (fun e => or_cur e && zmem (or_name e) names && zmem (or_prog e) gkeys) (oflat s)
  && nodupb (map or_name (oflat s)).

Definition in_seq (k n : Z) (s : list (Z * list oref)) : bool :=
  existsb (fun x => Z.eqb k (fst x) && existsb (fun e => Z.eqb (or_name e) n) (snd x)) s.

Definition oapp_ok (cfg : config) (oa : oapp) : bool :=
  let '(a, _, procs, groups, start, stop) := oa in
  let names := map (fun x => fst (fst x)) procs in
  let gkeys := map fst groups in
  seq_refs_ok names gkeys start && seq_refs_ok names gkeys stop
  && forallb (fun n => let '(ss, ts) := rules_of (a, n) (c_rules cfg) in
                       (negb (zmem a (c_managed cfg) && (0 <? ss)) || in_seq ss n start) && in_seq ts n stop) names.

Definition ostate_ok (cfg : config) (os : ostate) : bool := forallb (oapp_ok cfg) (fst os).

Definition oapp_names (oa : oapp) : list Z :=
  let '(_, _, procs, _, _, _) := oa in map (fun x => fst (fst x)) procs.
Definition oapp_id (oa : oapp) : Z := let '(a, _, _, _, _, _) := oa in a.

(* the exception allowed by (S1) *)
Definition crash_excused (prev : ostate) (o : op) (k : crash) : bool :=
  match o, k with
  | AppRemove a n, KeyError => existsb (fun oa => Z.eqb (oapp_id oa) a && negb (zmem n (oapp_names oa))) (fst prev)
  | _, _ => false
  end.

(* true = the observations violate the specification *)
Fixpoint spec_violated (cfg : config) (prev : ostate) (ops : list op) (os : list obs) : bool :=
  match ops, os with
  | [], [] => false
  | o :: ops', OOk _ _ st :: os' => negb (ostate_ok cfg st) || spec_violated cfg st ops' os'
  | o :: _, [OCrash k] => negb (crash_excused prev o k)
  | _, _ => true
  end.

(* ---------------------------------------------------------------- the class of the known finding
   "one namespec announced with two different program names" (input-only) *)
Fixpoint all_infos (ops : list op) : list (Z * Z * Z) :=
  match ops with
  | [] => []
  | Load _ infos :: r => infos ++ all_infos r
  | _ :: r => all_infos r
  end.

Fixpoint first_prog (k : ns) (l : list (Z * Z * Z)) : Z :=
  match l with
  | [] => -1
  | (a, n, g) :: r => if ns_eqb k (a, n) then g else first_prog k r
  end.

Definition prog_consistentb (ops : list op) : bool :=
  forallb (fun x => Z.eqb (snd x) (first_prog (fst x) (all_infos ops))) (all_infos ops).

(* ---------------------------------------------------------------- cases *)
Definition case := (config * list op * list obs)%type.

Definition case_mismatch (c : case) : bool :=
  let '(cfg, ops, os) := c in
  negb (list_eqb obs_eqb (run cfg init_state ops) (expand (observe cfg init_state) os)).

Definition case_spec_violation (c : case) : bool :=
  let '(cfg, ops, os) := c in
  spec_violated cfg (observe cfg init_state) ops (expand (observe cfg init_state) os).

Definition case_spec_violation_consistent (c : case) : bool :=
  let '(_, ops, _) := c in prog_consistentb ops && case_spec_violation c.

Definition case_spec_violation_drift (c : case) : bool :=
  let '(_, ops, _) := c in negb (prog_consistentb ops) && case_spec_violation c.

Definition mismatches (cs : list case) : list nat := find_idx case_mismatch cs.
(* outside the known-finding class *)
Definition spec_violations (cs : list case) : list nat := find_idx case_spec_violation_consistent cs.
(* inside the class of known finding c16-program-name-drift *)
Definition known_program_name_drift (cs : list case) : list nat := find_idx case_spec_violation_drift cs.
