(* Eligibility.v — property C04: start requests only go to eligible instances with spare load.

   Contents (definitions only, no proofs):
   1. SPECIFICATION, written from the property text only: [view], [permitted], [static_ok], [cap_ok],
      [qualifies], [request_ok], [no_resource_ok].
   2. MODEL of the code that decides where ONE start command goes:
        SupvisorsMapper.filter, ProcessStatus.possible_identifiers, ApplicationStatus.possible_identifiers /
        possible_node_identifiers / get_start_sequence_expected_load, ApplicationJobs.get_command / add_commands
        (de-duplication), ApplicationStartJobs.process_job.  Placement itself (strategy.get_supvisors_instance,
        distribute_to_single_instance / _node, on_command_added, get_load_requests) is IMPORTED from Strategy.v (C14).
   3. T3 cases and evaluators (one case = one run of the real Starter; see harness/drv_eligibility.py).

   Names.  Supvisors identifiers, nick identifiers, stereotypes and unknown names of a rules file live in ONE
   namespace of Z (they are Python strings looked up successively in three dicts); [wildcard] stands for '*'. *)
From Sup Require Export Strategy.
From Sup Require Import GenEnums.

(* ================================================================== 1. the mapper and the identifiers rules *)
Definition wildcard : Z := 0.

(* SupvisorsMapper as far as identifiers rules are concerned:
     mp_instances   : keys of mapper.instances, in order (also the keys of context.instances),
     mp_nicks       : mapper._nick_identifiers  {nick identifier: identifier},
     mp_stereotypes : mapper.stereotypes        {stereotype: [identifiers]}. *)
Record mapper := mkMapper { mp_instances : list Z; mp_nicks : alist Z; mp_stereotypes : alist (list Z) }.

(* body of the loop of SupvisorsMapper.filter for one name: identifier, else nick identifier, else stereotype,
   else dropped *)
Definition resolve (M : mapper) (x : Z) : list Z :=
  if zmem x (mp_instances M) then [x]
  else match aget x (mp_nicks M) with
       | Some i => [i]
       | None => dget x (mp_stereotypes M) []
       end.

(* SupvisorsMapper.filter : expansion in declared order, then list(OrderedDict.fromkeys(identifiers)) *)
Definition mapper_filter (M : mapper) (l : list Z) : list Z := zdedup (flat_map (resolve M) l).

(* if WILDCARD in rules.identifiers: list(mapper.instances.keys()) else mapper.filter(rules.identifiers) *)
Definition rule_candidates (M : mapper) (rule : list Z) : list Z :=
  if zmem wildcard rule then mp_instances M else mapper_filter M rule.

(* identifier in self.info_map and not self.disabled_on(identifier)
   (disabled_on = identifier in info_map and info_map[identifier]['disabled']) *)
Definition knows_enabled (known disabled : list Z) (i : Z) : bool :=
  zmem i known && negb (zmem i known && zmem i disabled).

(* ProcessStatus.possible_identifiers *)
Definition possible_identifiers (M : mapper) (rule known disabled : list Z) : list Z :=
  filter (knows_enabled known disabled) (rule_candidates M rule).

(* ---- the application side (non-distributed applications) *)
(* one process of the application as ApplicationStatus sees it: expected_load, start_sequence, keys of info_map,
   identifiers whose info has 'disabled' set *)
Record aproc := mkAProc { ap_load : Z; ap_seq : Z; ap_known : list Z; ap_disabled : list Z }.

(* {identifier for identifier, info in process.info_map.items() if not info['disabled']} *)
Definition ap_enabled_on (p : aproc) (i : Z) : bool := zmem i (ap_known p) && negb (zmem i (ap_disabled p)).

(* ApplicationStatus.possible_identifiers: intersection over ALL the processes of the application (an application
   without process: actual_identifiers stays the empty list, nothing is returned) *)
Definition app_possible_identifiers (M : mapper) (rule : list Z) (procs : list aproc) : list Z :=
  match procs with
  | [] => []
  | _ => filter (fun i => forallb (fun p => ap_enabled_on p i) procs) (rule_candidates M rule)
  end.

(* ApplicationStatus.possible_node_identifiers: a node is a solution when every process is known and enabled on at
   least one of the rule's identifiers listed in the node; the solution of a node is the union of these; the
   result keeps the order of the rule.  [nodes] = mapper.nodes *)
Definition node_solution (filtered : list Z) (procs : list aproc) (ids : list Z) : list Z :=
  let fnode := filter (fun x => zmem x filtered) ids in
  if forallb (fun p => existsb (ap_enabled_on p) fnode) procs
  then filter (fun x => existsb (fun p => ap_enabled_on p x) procs) fnode
  else [].
Definition app_possible_node_identifiers (M : mapper) (nodes : alist (list Z)) (rule : list Z)
           (procs : list aproc) : list Z :=
  let filtered := rule_candidates M rule in
  filter (fun i => existsb (fun kv => zmem i (node_solution filtered procs (snd kv))) nodes) filtered.

(* ApplicationStatus.get_start_sequence_expected_load: start_sequence is only filled for a managed application *)
Definition app_start_load (managed : bool) (procs : list aproc) : Z :=
  if managed then zsum (map ap_load (filter (fun p => Z.ltb 0 (ap_seq p)) procs)) else 0.

(* ================================================================== 2. SPECIFICATION (from the property text) *)
(* The requester's view at the moment a start request is emitted for one process:
     v_layout   : every Supvisors instance with the state the requester sees, the node it is located on and the
                  expected_loading of everything running there (the layout's node lists are NOT used by the spec),
     v_mapper   : what the names of an identifiers rule denote,
     v_rule     : the applicable identifiers rule (the program's, or the application's when its distribution is
                  restricted),
     v_known    : instances whose Supervisor knows the program, v_disabled : where it is disabled,
     v_load     : the program's expected_loading,
     v_reqs     : ALL the starts already requested and not yet running, whatever application they belong to:
                  one (instance, load) entry per request. *)
Record view := mkView {
  v_layout : layout; v_mapper : mapper; v_rule : list Z; v_known : list Z; v_disabled : list Z; v_load : Z;
  v_reqs : alist Z }.

(* the rule permits instance i: '*' = every Supvisors instance; otherwise some name of the rule denotes i *)
Definition permitted (M : mapper) (rule : list Z) (i : Z) : bool :=
  if zmem wildcard rule then zmem i (mp_instances M) else existsb (fun x => zmem i (resolve M x)) rule.

Definition sees_running (L : layout) (i : Z) : bool :=
  match aget i (l_insts L) with
  | Some x => Z.eqb (i_state x) gen_SupvisorsInstanceStates_RUNNING
  | None => false
  end.

(* RUNNING, known, enabled, permitted *)
Definition static_ok (v : view) (i : Z) : bool :=
  sees_running (v_layout v) i && zmem i (v_known v) && negb (zmem i (v_disabled v))
  && permitted (v_mapper v) (v_rule v) i.

(* node load + starts requested on the node + the program's load <= 100, both sums being independent spec sums over
   the instances LOCATED on the node of i, each counted once ([node_true_load], [node_req] of Strategy.v) *)
Definition cap_ok (L : layout) (reqs : alist Z) (load : Z) (i : Z) : bool :=
  match node_opt L i with
  | Some m => Z.leb (node_true_load L m + node_req L reqs m + load) 100
  | None => false
  end.

Definition qualifies (v : view) (reqs : alist Z) (i : Z) : bool :=
  static_ok v i && cap_ok (v_layout v) reqs (v_load v) i.

(* THE property for one emitted request: the target qualifies, all pending requests counted *)
Definition request_ok (v : view) (target : Z) : bool := qualifies v (v_reqs v) target.

(* 'No resource available': nothing is sent and FATAL is forced iff no instance qualifies — for the requests [counted]
   the code counts (the job's own pending requests). The property counts [v_reqs] (all pending requests): the
   difference between the two is exactly known finding c04-cross-application-pending-load.
   [scope]: with the LOCAL strategy only the requesting instance may be chosen. *)
Definition no_resource_ok (v : view) (counted : alist Z) (scope : list Z) : bool :=
  forallb (fun i => negb (qualifies v counted i)) scope.

(* ================================================================== 3. MODEL of one start command *)
(* ApplicationJobs.get_command(jobs, process_name, identifier):
     next(command for command in jobs if (not identifier or identifier == command.identifier)
                                         and command.process.process_name == process_name) *)
Definition get_command (l : list cmd) (p : Z) (i : option Z) : option cmd :=
  find (fun c => match i with None => true | Some x => optz_eqb (Some x) (c_target c) end && Z.eqb (c_proc c) p) l.

(* ApplicationJobs.add_commands for one command: added to the planned jobs unless a command of the same process
   (and, when the new command has an identifier, of that identifier) is already current or planned.
   A start command is created without identifier: ANY command of the process blocks it. *)
Definition add_command (J : jobs) (c : cmd) : jobs * bool :=
  match get_command (j_current J) (c_proc c) (c_target c), get_command (j_planned J) (c_proc c) (c_target c) with
  | None, None => (mkJobs (j_current J) (j_planned J ++ [c]) (j_identifiers J), true)
  | _, _ => (J, false)
  end.

(* what ApplicationStartJobs.process_job does for one command *)
Inductive outcome :=
| Sent (t : Z)       (* rpc_handler.send_start_process(t, namespec, extra_args) *)
| NoResource         (* nothing sent; fail_command(process, '', now, 'No resource available') -> forced FATAL *)
| Skipped.           (* process not stopped(): nothing sent, nothing forced *)

Definition outcome_eqb (a b : outcome) : bool :=
  match a, b with
  | Sent x, Sent y => Z.eqb x y
  | NoResource, NoResource | Skipped, Skipped => true
  | _, _ => false
  end.

(* ApplicationStartJobs.process_job(command) with
     d     : self.distribution,            s : command.strategy,
     M, L  : mapper / context as the requester sees them, local : mapper.local_identifier,
     prule : process.rules.identifiers,
     J     : the job's current_jobs and planned_jobs at the call (the popped group is in neither),
     c     : the command (c_target = identifier pre-assigned by before() / on_command_added, if any). *)
Definition process_job (d : distribution) (s : strategy) (local : Z) (L : layout) (M : mapper) (prule : list Z)
           (J : jobs) (c : cmd) : result outcome :=
  if negb (c_stopped c) then Ok Skipped
  else
    bind (match d with
          | D_ALL_INSTANCES =>
              bind (get_supvisors_instance s local L (possible_identifiers M prule (c_known c) (c_disabled c))
                                           (c_load c) (load_requests J))
                   (fun r => match r with
                             | Some t => update_identifier L c (Some t)
                             | None => Ok c
                             end)
          | _ => Ok c
          end)
         (fun c' => Ok (match c_target c' with Some t => Sent t | None => NoResource end)).

(* ApplicationStartJobs.before() of a job of the application (rule [arule], processes [procs]) *)
Definition app_identifiers (d : distribution) (M : mapper) (L : layout) (arule : list Z) (procs : list aproc)
  : list Z :=
  match d with
  | D_ALL_INSTANCES => []
  | D_SINGLE_INSTANCE => app_possible_identifiers M arule procs
  | D_SINGLE_NODE => app_possible_node_identifiers M (l_nodes L) arule procs
  end.

Definition job_before (d : distribution) (s : strategy) (local : Z) (L : layout) (M : mapper) (arule : list Z)
           (managed : bool) (procs : list aproc) (J : jobs) : result jobs :=
  before_start d s local L (app_identifiers d M L arule procs) (app_start_load managed procs) J.

(* ApplicationJobs.add_commands({seq: [c]}) on a start job: de-duplication, then on_command_added *)
Definition job_add (d : distribution) (s : strategy) (local : Z) (L : layout) (J : jobs) (c : cmd)
  : result (bool * option Z) :=
  let '(J', added) := add_command J c in
  if added then bind (on_command_added d s local L J' c) (fun c' => Ok (true, c_target c'))
  else Ok (false, c_target c).

(* ================================================================== 4. T3 cases and evaluators *)
(* ---- one call of process_job, with the requester's view at that moment *)
Record decision := mkDecision {
  d_dist : Z;                 (* job.distribution (DistributionRules value) *)
  d_strategy : Z;             (* command.strategy (StartingStrategies value) *)
  d_local : Z;
  d_layout : layout;          (* instance loads: independent sum over the processes seen running there *)
  d_mapper : mapper;
  d_prule : list Z;           (* process.rules.identifiers *)
  d_arule : list Z;           (* application.rules.identifiers *)
  d_cmd : cmd;
  d_jobs : jobs;
  d_all_reqs : alist Z;       (* every start requested by this requester and still unanswered: (instance, load) *)
  d_pending : bool;           (* a start of THIS process has been requested by this requester and is unanswered *)
  d_on_demand : bool;         (* the process is outside the application start sequence (start_sequence 0 / unmanaged) *)
  d_foreign : alist Z;        (* (instance, load) of the processes of OTHER applications whose start was pending at,
                                 or requested after, the moment this job was triggered, and that are still pending
                                 or running: the load placed by concurrent application starts *)
  d_orphans : alist Z;        (* (instance, load) of the unanswered requests of THIS application that were sent by
                                 ANOTHER application job object than the one deciding: two jobs of one application are
                                 alive together only when the Starter dropped one of them in the middle of a group *)
  d_pending_orphan : bool;    (* d_pending, and that request is such an orphan *)
  d_ondemand : alist Z;       (* (instance, load) of the OTHER programs of this application that are outside its start
                                 sequence, whose start this requester has requested, and that are still pending or
                                 running *)
  d_obs : result outcome }.

Definition d_view (d : distribution) (dc : decision) : view :=
  mkView (d_layout dc) (d_mapper dc)
         (match d with D_ALL_INSTANCES => d_prule dc | _ => d_arule dc end)
         (c_known (d_cmd dc)) (c_disabled (d_cmd dc)) (c_load (d_cmd dc)) (d_all_reqs dc).

Definition d_model (dc : decision) : option (result outcome) :=
  match distribution_of_code (d_dist dc), strategy_of_code (d_strategy dc) with
  | Some d, Some s =>
      Some (process_job d s (d_local dc) (d_layout dc) (d_mapper dc) (d_prule dc) (d_jobs dc) (d_cmd dc))
  | _, _ => None
  end.

Definition decision_mismatch (dc : decision) : bool :=
  match d_model dc with
  | Some m => negb (crash_result_eqb outcome_eqb m (d_obs dc))
  | None => true
  end.

(* the node cap once some of the counted load is left out *)
Definition cap_without (L : layout) (reqs out : alist Z) (load : Z) (i : Z) : bool :=
  match node_opt L i with
  | Some m => Z.leb (node_true_load L m + node_req L reqs m - node_req L out m + load) 100
  | None => false
  end.

(* verdict of the specification on one observed decision:
     0 accepted, 1 VIOLATION,
     2 known finding c04-single-instance-on-demand-load: non-distributed application whose instance / node was validated
       for the load of the start sequence only; everything holds but the node cap, it still fails when concurrent
       starts of other applications are left out, and either the program itself is outside the start sequence, or
       the cap holds once the load of the application's other programs outside the start sequence is left out;
     3 known finding c04-cross-application-pending-load: everything holds but the node cap, and the cap holds once
       the load placed by the concurrent starts of OTHER applications is left out;
     5 known finding c04-non-distributed-no-recheck: non-distributed application whose target was validated once, at
       before(), for the load of its whole start sequence: every clause holds at the request but the node cap, and
       the cap still fails when every pending request of other applications and every on-demand program is left
       out, i.e. load has arrived on the node since (processes of other applications started there meanwhile);
       the requests of a non-distributed job carry no load check of their own;
     4 known finding c03-noresource-reentrancy seen through C04: the request repeats, or does not count, an
       unanswered request sent by another job of the same application — one of the two jobs was dropped by the
       Starter while it was processing a 'No resource available' (re-entrant Commander.next) and goes on alone *)
Definition scope_of (s : strategy) (dc : decision) : list Z :=
  match s with S_LOCAL => [d_local dc] | _ => map fst (l_insts (d_layout dc)) end.

Definition decision_verdict (dc : decision) : Z :=
  match distribution_of_code (d_dist dc), strategy_of_code (d_strategy dc) with
  | Some d, Some s =>
      let v := d_view d dc in
      let c := d_cmd dc in
      match d_obs dc with
      | Crash _ => 1
      | Ok Skipped => if c_stopped c then 1 else 0
      | Ok NoResource =>
          if negb (c_stopped c) then 1
          else match d with
               | D_ALL_INSTANCES =>
                   (* nobody qualifies, for the requests the code counts (the job's own) or for all the pending ones *)
                   if no_resource_ok v (load_requests (d_jobs dc)) (scope_of s dc)
                      || no_resource_ok v (v_reqs v) (scope_of s dc) then 0 else 1
               | _ => 0
               end
      | Ok (Sent t) =>
          if negb (c_stopped c) then 1                        (* already running *)
          else if d_pending dc then (if d_pending_orphan dc then 4 else 1)   (* already being started *)
          else if request_ok v t then 0
          else if negb (static_ok v t) then 1
          else if cap_without (v_layout v) (v_reqs v) (d_orphans dc) (v_load v) t then 4
          else if cap_without (v_layout v) (v_reqs v) (d_foreign dc ++ d_orphans dc) (v_load v) t then 3
          else
            let sequence_only :=
              cap_without (v_layout v) (v_reqs v) (d_foreign dc ++ d_orphans dc ++ d_ondemand dc) (v_load v) t in
            match d with
            | D_ALL_INSTANCES => 1
            | D_SINGLE_INSTANCE | D_SINGLE_NODE => if d_on_demand dc || sequence_only then 2 else 5
            end
      end
  | _, _ => 0
  end.

(* ---- one call of ApplicationStartJobs.before() on a non-distributed job *)
Record bcase := mkBCase {
  bc_dist : Z; bc_strategy : Z; bc_local : Z; bc_layout : layout; bc_mapper : mapper;
  bc_arule : list Z; bc_managed : bool; bc_procs : list aproc; bc_jobs : jobs;
  bc_obs : result dobs }.          (* job.identifiers, command.identifier of every planned command *)

Definition bcase_mismatch (b : bcase) : bool :=
  match distribution_of_code (bc_dist b), strategy_of_code (bc_strategy b) with
  | Some d, Some s =>
      negb (crash_result_eqb dobs_eqb
              (bind (job_before d s (bc_local b) (bc_layout b) (bc_mapper b) (bc_arule b) (bc_managed b)
                                (bc_procs b) (bc_jobs b))
                    (fun J => Ok (j_identifiers J, map c_target (j_planned J))))
              (bc_obs b))
  | _, _ => true
  end.

(* ---- one call of add_commands with one start command *)
Record acase := mkACase {
  ac_dist : Z; ac_strategy : Z; ac_local : Z; ac_layout : layout; ac_jobs : jobs; ac_cmd : cmd;
  ac_obs : result (bool * option Z) }.   (* appended to planned_jobs ?, command.identifier afterwards *)

Definition aobs_eqb (a b : bool * option Z) : bool := Bool.eqb (fst a) (fst b) && optz_eqb (snd a) (snd b).

Definition acase_mismatch (a : acase) : bool :=
  match distribution_of_code (ac_dist a), strategy_of_code (ac_strategy a) with
  | Some d, Some s =>
      negb (crash_result_eqb aobs_eqb (job_add d s (ac_local a) (ac_layout a) (ac_jobs a) (ac_cmd a)) (ac_obs a))
  | _, _ => true
  end.

(* spec, at the moment a command is added to a job in progress:
     - a process already current or planned in the job is not planned again;
     - when the command receives its target there (non-distributed application, on_command_added), that target is the
       instance its start request WILL go to (restricted_target_is_preassigned): it must already be one of the job's
       chosen identifiers, seen RUNNING, know the program and have it enabled (the static clauses of request_ok) *)
Definition acase_violation (a : acase) : bool :=
  match ac_obs a with
  | Ok (true, tgt) =>
      existsb (fun c => Z.eqb (c_proc c) (c_proc (ac_cmd a))) (j_current (ac_jobs a) ++ j_planned (ac_jobs a))
      || match c_target (ac_cmd a), tgt with
         | None, Some t =>
             negb (sees_running (ac_layout a) t && zmem t (c_known (ac_cmd a))
                   && negb (zmem t (c_disabled (ac_cmd a))) && zmem t (j_identifiers (ac_jobs a)))
         | _, _ => false
         end
  | Ok (false, _) => false
  | Crash _ => true
  end.

(* ---- one run of the real Starter *)
Record rcase := mkRCase {
  rc_decisions : list decision; rc_befores : list bcase; rc_adds : list acase;
  rc_anomaly : bool }.      (* the driver saw a start request or a 'No resource' outside a process_job call *)

Definition rcase_mismatch (r : rcase) : bool :=
  rc_anomaly r || existsb decision_mismatch (rc_decisions r) || existsb bcase_mismatch (rc_befores r)
  || existsb acase_mismatch (rc_adds r).

Definition has_verdict (k : Z) (r : rcase) : bool :=
  existsb (fun dc => Z.eqb (decision_verdict dc) k) (rc_decisions r).

Definition rcase_violation (r : rcase) : bool := has_verdict 1 r || existsb acase_violation (rc_adds r).

Definition mismatches (cs : list rcase) : list nat := find_idx rcase_mismatch cs.
Definition spec_violations (cs : list rcase) : list nat := find_idx rcase_violation cs.
Definition known_single_instance_on_demand (cs : list rcase) : list nat := find_idx (has_verdict 2) cs.
Definition known_cross_application (cs : list rcase) : list nat := find_idx (has_verdict 3) cs.
Definition known_noresource_reentrancy (cs : list rcase) : list nat := find_idx (has_verdict 4) cs.
Definition known_nondistributed_no_recheck (cs : list rcase) : list nat := find_idx (has_verdict 5) cs.
