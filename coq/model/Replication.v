(* Replication.v — executable model of the process plane replication (C12, process-plane clause of C13).
   Two levels, definitions only:

   (1) receiver level (`rctx`, `rstep`): what ONE Supvisors instance does with the process-plane messages it
       receives: supvisors/listener.py::read_publication / read_notification (origin filter Context.is_valid) and
       supvisors/context.py::load_processes / on_process_state_event / on_process_removed_event /
       on_process_disability_event / check_process / on_tick_event (handshake start, update_times) /
       on_authorization / on_instance_failure / invalidate_failed / activate_checked.
       The per-process synthesis is ProcStatus.v (reused as is). Applications are flattened: a process is
       designated by an integer key (the namespec); observables are compared sorted by key.

   (2) cluster level (`cluster`, `cstep`): N nodes; each has the TRUE process table of its Supervisor, its
       Context (level 1), one outgoing publication queue per peer (the queue of the SupervisorProxyThread that
       talks to that peer: internal_com/supervisorproxy.py) and ONE local notification queue (the queue of the
       proxy thread of the local Supervisor, through which check_instance posts ALL_INFO then AUTHORIZATION).
       Publications and notifications reach the main loop through two different XML-RPC connections: there is
       no ordering between the two queues (scheduler actions `Deliver` and `Notify` are independent).
       SupervisorProxy.publish evaluates the sender-side filter `status.has_active_state()` when the proxy
       thread dequeues the message and the XML-RPC that follows is synchronous: `Deliver i j` pops the head of
       i's queue towards j, applies i's filter, and runs j's receiver step. *)
From Sup Require Export ProcStatus.
From Sup Require Node.

Notation istate := Node.istate.
Notation ISTOPPED := Node.ISTOPPED.
Notation CHECKING := Node.CHECKING.
Notation CHECKED := Node.CHECKED.
Notation IRUNNING := Node.IRUNNING.
Notation IFAILED := Node.FAILED.
Notation ISOLATED := Node.ISOLATED.

(* ====================================================================== *)
(* 1. receiver level                                                        *)
(* ====================================================================== *)

(* `status.state in [CHECKED, RUNNING]` : the guard of the three process event handlers *)
Definition admitted (s : istate) : bool :=
  match s with Node.CHECKED | Node.IRUNNING => true | _ => false end.

(* one entry of get_all_local_process_info / of a PROCESS_ADDED payload: key, state, expected, disabled *)
Definition pinfo := (Z * pstate * bool * bool)%type.

Record rctx := mkR {
  r_me : Z;                              (* mapper.local_identifier *)
  r_adm : alist (istate * Z);            (* context.instances : state and checking_time *)
  r_procs : alist proc                   (* applications/processes flattened, insertion order *)
}.

Definition rinit (me : Z) (peers : list Z) : rctx :=
  mkR me (map (fun j => (j, (ISTOPPED, 0))) peers) [].

Definition set_procs (c : rctx) (ps : alist proc) : rctx := mkR (r_me c) (r_adm c) ps.
Definition set_adms (c : rctx) (a : alist (istate * Z)) : rctx := mkR (r_me c) a (r_procs c).

Definition adm (c : rctx) (j : Z) : option istate :=
  match aget j (r_adm c) with Some sc => Some (fst sc) | None => None end.
Definition chk (c : rctx) (j : Z) : Z :=
  match aget j (r_adm c) with Some sc => snd sc | None => 0 end.

(* Context.is_valid : known and not ISOLATED (the address check is modelled in Node.v: resolve) *)
Definition valid_state (c : rctx) (j : Z) : option istate :=
  match adm c j with
  | Some s => if Node.istate_eqb s ISOLATED then None else Some s
  | None => None
  end.

(* SupvisorsInstanceStatus.state setter: same state = nothing; the transition table is the reflected one *)
Definition set_adm (c : rctx) (j : Z) (st : istate) (now : Z) : result rctx :=
  match aget j (r_adm c) with
  | None => Crash KeyError
  | Some (s, ct) =>
      if Node.istate_eqb s st then Ok c
      else if Node.inst_transition_ok s st
      then Ok (set_adms c (aset j (st, match st with Node.CHECKING => now | _ => ct end) (r_adm c)))
      else Crash InvalidTransition
  end.

(* Context.load_processes, accepted branch: setdefault_process (add_info) for every entry *)
Fixpoint load_infos (ps : alist proc) (j : Z) (infos : list pinfo) (nm now : Z) : result (alist proc) :=
  match infos with
  | [] => Ok ps
  | (k, st, e, d) :: r =>
      let p := match aget k ps with Some p => p | None => proc_init end in
      bind (add_info p j st e nm d now) (fun p' => load_infos (aset k p' ps) j r nm now)
  end.

(* apply a ProcStatus operation to every process (those without an entry for the instance are unchanged
   by the operations used here) *)
Fixpoint map_procs (f : proc -> result proc) (ps : alist proc) : result (alist proc) :=
  match ps with
  | [] => Ok []
  | (k, p) :: r => bind (f p) (fun p' => bind (map_procs f r) (fun r' => Ok ((k, p') :: r')))
  end.

(* SupvisorsInstanceStatus.update_tick : process.update_times for the processes of the instance *)
Definition tick_times (j rmt : Z) (p : proc) : result proc := step p (TickTimes j rmt).

(* Context.invalidate_failed, process part for one instance, two passes:
   (1) status.running_processes() — the processes with process.running() and j in running_identifiers — get
       invalidate_identifier(j) (their result feeds the returned set of failed processes);
   (2) every process of status.processes gets invalidate_identifier(j) again (fix 04680dd: a process STOPPING
       on the lost instance leaves the running set too). Processes are independent of each other, so the two
       passes over the process list are the two calls below for each process. *)
Definition invalidate_proc (j now : Z) (p : proc) : result proc :=
  bind (if is_running (p_state p) && zmem j (p_running p) then invalidate p j now else Ok p)
       (fun p1 => invalidate p1 j now).

Fixpoint invalidate_failed_ids (c : rctx) (ids : list Z) (iso : bool) (now : Z) : result rctx :=
  match ids with
  | [] => Ok c
  | j :: r =>
      match adm c j with
      | Some Node.FAILED =>
          let target := if Z.eqb j (r_me c) then ISTOPPED else if iso then ISOLATED else ISTOPPED in
          bind (set_adm c j target now) (fun c1 =>
          bind (map_procs (invalidate_proc j now) (r_procs c1)) (fun ps =>
          invalidate_failed_ids (set_procs c1 ps) r iso now))
      | _ => invalidate_failed_ids c r iso now
      end
  end.

Fixpoint activate_ids (c : rctx) (ids : list Z) (now : Z) : result rctx :=
  match ids with
  | [] => Ok c
  | j :: r =>
      match adm c j with
      | Some Node.CHECKED => bind (set_adm c j IRUNNING now) (fun c1 => activate_ids c1 r now)
      | _ => activate_ids c r now
      end
  end.

Inductive rop :=
| LoadAll (j : Z) (infos : list pinfo) (nm now : Z)                 (* ALL_INFO notification *)
| Added (j : Z) (inf : pinfo) (nm now : Z)                          (* PROCESS_ADDED publication (check_state=False) *)
| ProcEvent (j key : Z) (st : pstate) (e : bool) (nm now : Z)       (* PROCESS publication / local process event *)
| ForcedEvent (j key target : Z) (st : pstate) (et now : Z)         (* PROCESS publication with 'forced' *)
| Removed (j key : Z)                                               (* PROCESS_REMOVED publication *)
| Disability (j key : Z) (b : bool)                                 (* PROCESS_DISABILITY publication *)
| Tick (j rmt now : Z)                                              (* TICK publication / local tick *)
| Auth (j : Z) (ok : bool) (ts now : Z)                             (* AUTHORIZATION notification *)
| Failure (j : Z) (now : Z)                                         (* INSTANCE_FAILURE notification *)
| InvalidateFailed (iso : bool) (now : Z)                           (* Context.invalidate_failed *)
| Activate (now : Z).                                               (* Context.activate_checked *)

(* the instance a message claims to come from (None for the two local evaluations) *)
Definition rop_origin (o : rop) : option Z :=
  match o with
  | LoadAll j _ _ _ | Added j _ _ _ | ProcEvent j _ _ _ _ _ | ForcedEvent j _ _ _ _ _ | Removed j _
  | Disability j _ _ | Tick j _ _ | Auth j _ _ _ | Failure j _ => Some j
  | InvalidateFailed _ _ | Activate _ => None
  end.

Definition rstep (c : rctx) (o : rop) : result rctx :=
  match o with
  | LoadAll j infos nm now =>
      match valid_state c j with
      | Some Node.CHECKING => bind (load_infos (r_procs c) j infos nm now) (fun ps => Ok (set_procs c ps))
      | _ => Ok c
      end
  | Added j inf nm now =>
      match valid_state c j with
      | Some _ => bind (load_infos (r_procs c) j [inf] nm now) (fun ps => Ok (set_procs c ps))
      | None => Ok c
      end
  | ProcEvent j k st e nm now =>
      match valid_state c j with
      | Some s =>
          if admitted s then
            match aget k (r_procs c) with
            | Some p => if amem j (p_infos p)                      (* check_process, check_source=True *)
                        then bind (update_info p j st e nm now true)
                                  (fun p' => Ok (set_procs c (aset k p' (r_procs c))))
                        else Ok c
            | None => Ok c
            end
          else Ok c
      | None => Ok c
      end
  | ForcedEvent j k target st et now =>
      match valid_state c j with
      | Some s =>
          if admitted s then
            match aget k (r_procs c) with                          (* check_process, check_source=False *)
            | Some p => Ok (set_procs c (aset k (fst (force_state p target st et)) (r_procs c)))
            | None => Ok c
            end
          else Ok c
      | None => Ok c
      end
  | Removed j k =>
      match valid_state c j with
      | Some s =>
          if admitted s then
            match aget k (r_procs c) with
            | Some p => if amem j (p_infos p)
                        then bind (remove_identifier p j) (fun p' =>
                               Ok (set_procs c (match p_infos p' with
                                                | [] => adel k (r_procs c)      (* application.remove_process *)
                                                | _ => aset k p' (r_procs c)
                                                end)))
                        else Ok c
            | None => Ok c
            end
          else Ok c
      | None => Ok c
      end
  | Disability j k b =>
      match valid_state c j with
      | Some s =>
          if admitted s then
            match aget k (r_procs c) with
            | Some p => if amem j (p_infos p)
                        then bind (step p (Disable j b)) (fun p' => Ok (set_procs c (aset k p' (r_procs c))))
                        else Ok c
            | None => Ok c
            end
          else Ok c
      | None => Ok c
      end
  | Tick j rmt now =>
      match valid_state c j with
      | Some s =>
          (* Context.on_tick_event waits for the local instance to be CHECKED / RUNNING; the local tick does not *)
          if Z.eqb j (r_me c) || match adm c (r_me c) with Some sl => admitted sl | None => false end then
            bind (map_procs (tick_times j rmt) (r_procs c)) (fun ps =>
              let c1 := set_procs c ps in
              if Node.istate_eqb s ISTOPPED then set_adm c1 j CHECKING now else Ok c1)
          else Ok c
      | None => Ok c
      end
  | Auth j ok ts now =>
      match valid_state c j with
      | Some s =>
          if Node.istate_eqb s CHECKING && Z.ltb (chk c j) ts then     (* status.is_checking(timestamp) *)
            if ok then set_adm c j CHECKED now
            else set_adm c j (if Z.eqb j (r_me c) then ISTOPPED else ISOLATED) now   (* invalidate(fence=True) *)
          else Ok c
      | None => Ok c
      end
  | Failure j now =>
      match valid_state c j with
      | Some s => if Node.has_active_state s then set_adm c j IFAILED now else Ok c
      | None => Ok c
      end
  | InvalidateFailed iso now => invalidate_failed_ids c (akeys (r_adm c)) iso now
  | Activate now => activate_ids c (akeys (r_adm c)) now
  end.

(* ---------- observable of one Context ---------- *)
Fixpoint kinsert {A} (x : Z * A) (l : list (Z * A)) : list (Z * A) :=
  match l with
  | [] => [x]
  | y :: r => if Z.leb (fst x) (fst y) then x :: l else y :: kinsert x r
  end.
Definition ksort {A} (l : list (Z * A)) : list (Z * A) := fold_right kinsert [] l.

(* instance states in context order; per process (sorted by key) the C11 observable *)
Definition robs := (list (Z * Z) * list (Z * pobs))%type.

Definition robserve (c : rctx) : robs :=
  (map (fun kv => (fst kv, Node.icode (fst (snd kv)))) (r_adm c),
   ksort (map (fun kv => (fst kv, observe (snd kv))) (r_procs c))).

Inductive robsr := ROk (o : robs) | RCrash (k : crash).

Fixpoint rrun (c : rctx) (ops : list rop) : list robsr :=
  match ops with
  | [] => []
  | o :: r => match rstep c o with
              | Ok c' => ROk (robserve c') :: rrun c' r
              | Crash k => [RCrash k]
              end
  end.

Definition zz_eqb (a b : Z * Z) : bool := Z.eqb (fst a) (fst b) && Z.eqb (snd a) (snd b).
Definition kp_eqb (a b : Z * pobs) : bool := Z.eqb (fst a) (fst b) && pobs_eqb (snd a) (snd b).
Definition robs_eqb (a b : robs) : bool :=
  list_eqb zz_eqb (fst a) (fst b) && list_eqb kp_eqb (snd a) (snd b).
Definition robsr_eqb (a b : robsr) : bool :=
  match a, b with
  | ROk x, ROk y => robs_eqb x y
  | RCrash k1, RCrash k2 => crash_eqb k1 k2
  | _, _ => false
  end.

(* ---------- Spec_C13 (process plane), written from the property text, evaluated on OBSERVATIONS ----------
   "process state, removal and disability events are only taken into account from peers that passed the
   handshake (CHECKED or RUNNING)", "nothing from an ISOLATED instance changes anything".
   The admission state used by the spec is the one the implementation showed in its previous observation. *)
Definition is_gated_event (o : rop) : bool :=
  match o with
  | ProcEvent _ _ _ _ _ _ | ForcedEvent _ _ _ _ _ _ | Removed _ _ | Disability _ _ _ => true
  | _ => false
  end.

Definition obs_state (ob : robs) (j : Z) : option Z :=
  match find (fun kv => Z.eqb (fst kv) j) (fst ob) with Some kv => Some (snd kv) | None => None end.

Definition code_admitted (s : Z) : bool :=
  Z.eqb s (Node.icode CHECKED) || Z.eqb s (Node.icode IRUNNING).

(* must the observation stay what it was? *)
Definition must_be_inert (prev : robs) (o : rop) : bool :=
  match rop_origin o with
  | Some j =>
      match obs_state prev j with
      | Some s =>
          Z.eqb s (Node.icode ISOLATED)
          || (is_gated_event o && negb (code_admitted s))
      | None => true        (* unknown origin *)
      end
  | None => false
  end.

Fixpoint rspec_violated (prev : robs) (ops : list rop) (obss : list robsr) : bool :=
  match ops, obss with
  | o :: r, ROk ob :: robss =>
      if must_be_inert prev o && negb (robs_eqb prev ob) then true else rspec_violated ob r robss
  | _ :: _, RCrash _ :: _ => true        (* the handlers never raise on these inputs *)
  | _, _ => false
  end.

(* The driver records, after every operation, only what CHANGED in the observable (the literals are large):
   instance states, the processes whose observable differs from the previous one, the keys that disappeared.
   `rrebuild` reconstructs the full observation; the evaluators below work on full observations. *)
Definition robs_d := (option (list (Z * Z)) * list (Z * pobs) * list Z)%type.
Inductive robsr_d := RdOk (d : robs_d) | RdCrash (k : crash).

Definition rrebuild (prev : robs) (d : robs_d) : robs :=
  match d with
  | (adms, changed, deleted) =>
      (match adms with Some a => a | None => fst prev end,
       ksort (changed ++ filter (fun kp => negb (zmem (fst kp) deleted)
                                           && negb (existsb (fun c => Z.eqb (fst c) (fst kp)) changed)) (snd prev)))
  end.

Fixpoint rrebuild_all (prev : robs) (ds : list robsr_d) : list robsr :=
  match ds with
  | [] => []
  | RdOk d :: r => let ob := rrebuild prev d in ROk ob :: rrebuild_all ob r
  | RdCrash k :: _ => [RCrash k]
  end.

Definition rcase := (Z * list Z * list rop * list robsr_d)%type.
Definition rcase_mismatch (cs : rcase) : bool :=
  match cs with (me, peers, ops, ds) =>
    negb (list_eqb robsr_eqb (rrun (rinit me peers) ops) (rrebuild_all (robserve (rinit me peers)) ds)) end.
Definition rcase_spec_violation (cs : rcase) : bool :=
  match cs with (me, peers, ops, ds) =>
    rspec_violated (robserve (rinit me peers)) ops (rrebuild_all (robserve (rinit me peers)) ds) end.
Definition rmismatches (cs : list rcase) : list nat := find_idx rcase_mismatch cs.
Definition rspec_violations (cs : list rcase) : list nat := find_idx rcase_spec_violation cs.

(* ====================================================================== *)
(* 2. cluster level                                                         *)
(* ====================================================================== *)
Definition tinfo := (pstate * bool)%type.          (* what a Supervisor reports for a process: state, expected *)

Inductive msg :=
| MEvent (k : Z) (st : pstate) (e : bool) (nm : Z)
| MSnapshot (tbl : list pinfo) (nm : Z)
| MAuth (ok : bool) (ts : Z).

Record cnode := mkCN {
  cn_truth : alist tinfo;                (* the local Supervisor: key -> (state, expected) *)
  cn_ctx : rctx;                         (* the Context of this Supvisors instance *)
  cn_out : alist (list msg);             (* per peer: queue of the proxy thread towards that peer (publications) *)
  cn_ntf : list (Z * msg)                (* queue of the local proxy thread: (about which peer, notification) *)
}.

Record cluster := mkC { c_nodes : alist cnode; c_now : Z }.

Definition node_init (ids : list Z) (i : Z) (truth : alist tinfo) : cnode :=
  mkCN truth (rinit i ids) (map (fun j => (j, [])) (filter (fun j => negb (Z.eqb j i)) ids)) [].

Definition cinit (truths : alist (alist tinfo)) : cluster :=
  mkC (map (fun it => (fst it, node_init (akeys truths) (fst it) (snd it))) truths) 1.

Definition set_truth (n : cnode) (t : alist tinfo) := mkCN t (cn_ctx n) (cn_out n) (cn_ntf n).
Definition set_ctx (n : cnode) (c : rctx) := mkCN (cn_truth n) c (cn_out n) (cn_ntf n).
Definition set_out (n : cnode) (o : alist (list msg)) := mkCN (cn_truth n) (cn_ctx n) o (cn_ntf n).
Definition set_ntf (n : cnode) (q : list (Z * msg)) := mkCN (cn_truth n) (cn_ctx n) (cn_out n) q.

Definition set_node (c : cluster) (i : Z) (n : cnode) : cluster := mkC (aset i n (c_nodes c)) (c_now c).
Definition tick_clock (c : cluster) : cluster := mkC (c_nodes c) (c_now c + 1).

Definition out_queue (n : cnode) (j : Z) : list msg :=
  match aget j (cn_out n) with Some q => q | None => [] end.

(* SupervisorProxyServer.push_publication: every known peer but the local one; get_proxy gives no proxy for an
   ISOLATED instance *)
Definition enqueue_pub (n : cnode) (m : msg) : alist (list msg) :=
  map (fun jq => (fst jq, match adm (cn_ctx n) (fst jq) with
                          | Some Node.ISOLATED => snd jq
                          | _ => snd jq ++ [m]
                          end)) (cn_out n).

Definition snapshot_of (t : alist tinfo) : list pinfo :=
  map (fun kt => (fst kt, fst (snd kt), snd (snd kt), false)) t.

(* SupervisorProxy.publish: `self.status.has_active_state()` on the sender side *)
Definition sender_active (ni : cnode) (j : Z) : bool :=
  match adm (cn_ctx ni) j with Some s => Node.has_active_state s | None => false end.

Inductive action :=
| LocalChange (i k : Z) (st : pstate) (e : bool)   (* i's Supervisor changes a process state *)
| Deliver (i j : Z)                                (* i's proxy towards j handles its next publication *)
| Drop (i j : Z)                                   (* ... and the XML-RPC fails: the publication is lost *)
| TickFrom (i j : Z)                               (* j handles a TICK of i (i = j: its own tick): handshake start *)
| SnapshotRead (j i : Z)                           (* j's proxy towards i runs check_instance *)
| Notify (j : Z)                                   (* j handles the next notification of its local queue *)
| ActivateAt (j : Z)                               (* activate_checked at j *)
| Fail (j i : Z)                                   (* j declares i FAILED (inactivity / XML-RPC failure) *)
| InvalidateAt (j : Z) (iso : bool).               (* invalidate_failed at j *)

Definition cstep (c : cluster) (a : action) : result cluster :=
  let now := c_now c in
  match a with
  | LocalChange i k st e =>
      match aget i (c_nodes c) with
      | Some n =>
          if amem k (cn_truth n) then
            (* listener.on_process_state: local FSM first, then publication *)
            bind (rstep (cn_ctx n) (ProcEvent i k st e now now)) (fun ctx' =>
              let n1 := set_ctx (set_truth n (aset k (st, e) (cn_truth n))) ctx' in
              let n2 := set_out n1 (enqueue_pub n1 (MEvent k st e now)) in
              Ok (tick_clock (set_node c i n2)))
          else Ok (tick_clock c)
      | None => Ok (tick_clock c)
      end
  | Deliver i j =>
      match aget i (c_nodes c), aget j (c_nodes c) with
      | Some ni, Some nj =>
          match out_queue ni j with
          | m :: rest =>
              let ni' := set_out ni (aset j rest (cn_out ni)) in
              let c1 := set_node c i ni' in
              match m with
              | MEvent k st e nm =>
                  (* SupervisorProxy.publish: only when the SENDER regards the peer as active *)
                  if sender_active ni j then
                    bind (rstep (cn_ctx nj) (ProcEvent i k st e nm now)) (fun ctx' =>
                      Ok (tick_clock (set_node c1 j (set_ctx nj ctx'))))
                  else Ok (tick_clock c1)
              | _ => Ok (tick_clock c1)
              end
          | [] => Ok (tick_clock c)
          end
      | _, _ => Ok (tick_clock c)
      end
  | Drop i j =>
      match aget i (c_nodes c), aget j (c_nodes c) with
      | Some ni, Some _ =>
          match out_queue ni j with
          | _ :: rest => Ok (tick_clock (set_node c i (set_out ni (aset j rest (cn_out ni)))))
          | [] => Ok (tick_clock c)
          end
      | _, _ => Ok (tick_clock c)
      end
  | TickFrom i j =>
      match aget j (c_nodes c) with
      | Some nj => bind (rstep (cn_ctx nj) (Tick i now now)) (fun ctx' =>
                     Ok (tick_clock (set_node c j (set_ctx nj ctx'))))
      | None => Ok (tick_clock c)
      end
  | SnapshotRead j i =>
      match aget j (c_nodes c), aget i (c_nodes c) with
      | Some nj, Some ni =>
          match valid_state (cn_ctx nj) i with
          | None => Ok (tick_clock c)       (* SupervisorProxyServer.get_proxy: no proxy towards an ISOLATED instance *)
          | Some _ =>
              (* _is_authorized: i's view of j; _transfer_process_info only when AUTHORIZED; then AUTHORIZATION *)
              let ok := match adm (cn_ctx ni) j with Some Node.ISOLATED => false | Some _ => true | None => false end in
              let q := if ok then [(i, MSnapshot (snapshot_of (cn_truth ni)) now); (i, MAuth true now)]
                       else [(i, MAuth false now)] in
              Ok (tick_clock (set_node c j (set_ntf nj (cn_ntf nj ++ q))))
          end
      | _, _ => Ok (tick_clock c)
      end
  | Notify j =>
      match aget j (c_nodes c) with
      | Some nj =>
          match cn_ntf nj with
          | (i, m) :: rest =>
              let o := match m with
                       | MSnapshot tbl nm => Some (LoadAll i tbl nm now)
                       | MAuth ok ts => Some (Auth i ok ts now)
                       | MEvent _ _ _ _ => None
                       end in
              match o with
              | Some o => bind (rstep (cn_ctx nj) o) (fun ctx' =>
                            Ok (tick_clock (set_node c j (set_ntf (set_ctx nj ctx') rest))))
              | None => Ok (tick_clock (set_node c j (set_ntf nj rest)))
              end
          | [] => Ok (tick_clock c)
          end
      | None => Ok (tick_clock c)
      end
  | ActivateAt j =>
      match aget j (c_nodes c) with
      | Some nj => bind (rstep (cn_ctx nj) (Activate now)) (fun ctx' =>
                     Ok (tick_clock (set_node c j (set_ctx nj ctx'))))
      | None => Ok (tick_clock c)
      end
  | Fail j i =>
      match aget j (c_nodes c) with
      | Some nj => bind (rstep (cn_ctx nj) (Failure i now)) (fun ctx' =>
                     Ok (tick_clock (set_node c j (set_ctx nj ctx'))))
      | None => Ok (tick_clock c)
      end
  | InvalidateAt j iso =>
      match aget j (c_nodes c) with
      | Some nj => bind (rstep (cn_ctx nj) (InvalidateFailed iso now)) (fun ctx' =>
                     Ok (tick_clock (set_node c j (set_ctx nj ctx'))))
      | None => Ok (tick_clock c)
      end
  end.

Fixpoint crun (c : cluster) (tr : list action) : result cluster :=
  match tr with
  | [] => Ok c
  | a :: r => bind (cstep c a) (fun c' => crun c' r)
  end.

(* ---------- views, truth, quiescence ---------- *)
(* what a Context holds about process k on instance i *)
Definition pvinfo (p : proc) (i : Z) : option tinfo :=
  match aget i (p_infos p) with Some inf => Some (i_state inf, i_expected inf) | None => None end.
Definition rvinfo (c : rctx) (k i : Z) : option tinfo :=
  match aget k (r_procs c) with Some p => pvinfo p i | None => None end.

Definition tinfo_eqb (a b : tinfo) : bool := pstate_eqb (fst a) (fst b) && Bool.eqb (snd a) (snd b).

Definition stable_adm (s : istate) : bool :=
  match s with Node.ISTOPPED | Node.IRUNNING | Node.ISOLATED => true | _ => false end.

(* all pending messages delivered, no handshake in progress *)
Definition quiescent (c : cluster) : bool :=
  forallb (fun in_ =>
    let n := snd in_ in
    forallb (fun jq => match snd jq with [] => true | _ => false end) (cn_out n)
    && match cn_ntf n with [] => true | _ => false end
    && forallb (fun jsc => stable_adm (fst (snd jsc))) (r_adm (cn_ctx n))) (c_nodes c).

(* Spec_C12, information level: node j's view of (k, i) is what i's Supervisor reports, for every i that
   j sees RUNNING *)
Definition view_true_at (c : cluster) (j : Z) (nj : cnode) : bool :=
  forallb (fun isc =>
    match adm (cn_ctx nj) (fst isc) with
    | Some Node.IRUNNING =>
        match aget (fst isc) (c_nodes c) with
        | Some ni => forallb (fun kt => option_eqb tinfo_eqb (rvinfo (cn_ctx nj) (fst kt) (fst isc)) (Some (snd kt)))
                             (cn_truth ni)
        | None => true
        end
    | _ => true
    end) (r_adm (cn_ctx nj)).
Definition view_true (c : cluster) : bool :=
  forallb (fun jn => view_true_at c (fst jn) (snd jn)) (c_nodes c).

(* Spec_C12, as the property words it: the set of instances where a process runs, as reported by node j,
   restricted to the instances j sees RUNNING, is what their Supervisors report. STOPPING is neither in
   Supervisor's RUNNING_STATES nor in STOPPED_STATES: membership is then left open. *)
Definition running_true_at (c : cluster) (nj : cnode) : bool :=
  forallb (fun isc =>
    match adm (cn_ctx nj) (fst isc) with
    | Some Node.IRUNNING =>
        match aget (fst isc) (c_nodes c) with
        | Some ni =>
            forallb (fun kt =>
              let member := match aget (fst kt) (r_procs (cn_ctx nj)) with
                            | Some p => zmem (fst isc) (p_running p) | None => false end in
              let st := fst (snd kt) in
              if is_running_like st then member
              else if is_stopped_like st then negb member else true) (cn_truth ni)
        | None => true
        end
    | _ => true
    end) (r_adm (cn_ctx nj)).
Definition running_true (c : cluster) : bool := forallb (fun jn => running_true_at c (snd jn)) (c_nodes c).

(* ---------- when is a lost event harmful?  (the handshake window, as a predicate over the schedule) ---------- *)
(* loading a snapshot, seen from one process key: the last entry for the key wins (add_info overwrites) *)
Fixpoint overlay_k (tbl : list pinfo) (k : Z) (v : option tinfo) : option tinfo :=
  match tbl with
  | [] => v
  | (k', st, e, _) :: r => overlay_k r k (if Z.eqb k' k then Some (st, e) else v)
  end.

(* What node j will hold about process k of instance i at the moment it admits i, if a handshake answer that it
   will accept is already in its notification queue: the snapshots queued before the first acceptable
   AUTHORIZATION, over the current view `v`. None: no acceptable answer is queued (or it is a refusal). *)
Fixpoint base_at_auth (i ct : Z) (ntf : list (Z * msg)) (k : Z) (v : option tinfo) : option (option tinfo) :=
  match ntf with
  | [] => None
  | (i', m) :: r =>
      if Z.eqb i' i then
        match m with
        | MSnapshot tbl _ => base_at_auth i ct r k (overlay_k tbl k v)
        | MAuth ok ts => if Z.ltb ct ts then (if ok then Some v else None) else base_at_auth i ct r k v
        | MEvent _ _ _ _ => base_at_auth i ct r k v
        end
      else base_at_auth i ct r k v
  end.

(* The reference against which node j's knowledge of (k, i) is measured. None: j is outside any window for i
   (i is STOPPED / FAILED / ISOLATED there, or CHECKING without a handshake answer that will be accepted:
   a complete handshake, with a snapshot read later, is still to come before j admits i). *)
Definition window_base (nj : cnode) (i k : Z) : option (option tinfo) :=
  match adm (cn_ctx nj) i with
  | Some Node.CHECKED | Some Node.IRUNNING => Some (rvinfo (cn_ctx nj) k i)
  | Some Node.CHECKING => base_at_auth i (chk (cn_ctx nj) i) (cn_ntf nj) k (rvinfo (cn_ctx nj) k i)
  | _ => None
  end.

Fixpoint last_ev (k : Z) (q : list msg) : option tinfo :=
  match q with
  | [] => None
  | m :: r => match last_ev k r with
              | Some t => Some t
              | None => match m with
                        | MEvent k' st e _ => if Z.eqb k' k then Some (st, e) else None
                        | _ => None
                        end
              end
  end.

(* what the receiver ends up holding once the queued events are applied over `b` *)
Definition final (k : Z) (q : list msg) (b : option tinfo) : option tinfo :=
  match last_ev k q with Some t => Some t | None => b end.

(* A process event of i about k does not reach node j's Context (filtered by the sender, refused by the
   receiver, lost by the transport, or never queued). `tr` is what i's Supervisor reports for k after the step,
   `rest` what i's queue towards j still holds. Harmful: j is inside a window for i and what it will end up
   holding for (k, i) is not `tr`; i.e. the lost event is neither superseded by a queued one nor already
   contained in the snapshot / view (lemma loss_harmless_iff). *)
Definition loss_harmful (nj : cnode) (i k : Z) (tr : tinfo) (rest : list msg) : bool :=
  match window_base nj i k with
  | None => false
  | Some b => negb (option_eqb tinfo_eqb (final k rest b) (Some tr))
  end.

(* would node j's Context apply a process event (k) coming from i right now? *)
Definition would_apply (nj : cnode) (i k : Z) : bool :=
  match valid_state (cn_ctx nj) i with
  | Some s => admitted s && match rvinfo (cn_ctx nj) k i with Some _ => true | None => false end
  | None => false
  end.

Definition harmful (c : cluster) (a : action) : bool :=
  match a with
  | Deliver i j | Drop i j =>
      match aget i (c_nodes c), aget j (c_nodes c) with
      | Some ni, Some nj =>
          match out_queue ni j with
          | MEvent k st e _ :: rest =>
              let sent := match a with Deliver _ _ => sender_active ni j | _ => false end in
              if sent && would_apply nj i k then false
              else match aget k (cn_truth ni) with
                   | Some tr => loss_harmful nj i k tr rest
                   | None => false
                   end
          | _ => false
          end
      | _, _ => false
      end
  | LocalChange i k st e =>
      match aget i (c_nodes c) with
      | Some ni =>
          if amem k (cn_truth ni) then
            (* the local Context itself *)
            (negb (would_apply ni i k) && loss_harmful ni i k (st, e) [])
            (* peers that i has ISOLATED get nothing *)
            || existsb (fun jn =>
                 negb (Z.eqb (fst jn) i)
                 && match adm (cn_ctx ni) (fst jn) with Some Node.ISOLATED => true | _ => false end
                 && loss_harmful (snd jn) i k (st, e) (out_queue ni (fst jn))) (c_nodes c)
          else false
      | None => false
      end
  | _ => false
  end.

(* every process event of the schedule is applied, or lost outside the handshake windows *)
Fixpoint clean (c : cluster) (tr : list action) : bool :=
  match tr with
  | [] => true
  | a :: r => negb (harmful c a) && match cstep c a with Ok c' => clean c' r | Crash _ => false end
  end.

(* ---------- observable of the cluster and evaluators ---------- *)
Definition cobs := list (Z * robs)%type.        (* per node: the observable of its Context *)
Definition cobserve (c : cluster) : cobs := map (fun in_ => (fst in_, robserve (cn_ctx (snd in_)))) (c_nodes c).

Inductive cobsr := COk (o : cobs) | CCrash (k : crash).

Fixpoint crun_obs (c : cluster) (tr : list action) : list cobsr :=
  match tr with
  | [] => []
  | a :: r => match cstep c a with
              | Ok c' => COk (cobserve c') :: crun_obs c' r
              | Crash k => [CCrash k]
              end
  end.

Definition nr_eqb (a b : Z * robs) : bool := Z.eqb (fst a) (fst b) && robs_eqb (snd a) (snd b).
Definition cobsr_eqb (a b : cobsr) : bool :=
  match a, b with
  | COk x, COk y => list_eqb nr_eqb x y
  | CCrash k1, CCrash k2 => crash_eqb k1 k2
  | _, _ => false
  end.

(* Spec_C12 evaluated on an OBSERVATION of the implementation: the model supplies the true tables, the queues
   (quiescence) — all of them driven by the harness itself — the implementation supplies the instance states
   and the per-process running sets / per-instance states. *)
Definition obs_running_true (c : cluster) (ob : cobs) : bool :=
  forallb (fun jo =>
    let '(adms, procs) := snd jo in
    forallb (fun is_ =>
      if Z.eqb (snd is_) (Node.icode IRUNNING) then
        match aget (fst is_) (c_nodes c) with
        | Some ni =>
            forallb (fun kt =>
              let po := aget (fst kt) procs in
              let member := match po with
                            | Some (run, _, _, _, _, _, _) => zmem (fst is_) run | None => false end in
              let seen := match po with
                          | Some (_, _, _, _, _, _, per) =>
                              match find (fun x => match x with (i', _, _, _, _, _) => Z.eqb i' (fst is_) end) per with
                              | Some (_, s, e, _, _, _) => Some (s, e)
                              | None => None
                              end
                          | None => None
                          end in
              let st := fst (snd kt) in
              match seen with
              | Some (s, e) => Z.eqb s (pcode st) && Bool.eqb e (snd (snd kt))
              | None => false
              end
              && (if is_running_like st then member else if is_stopped_like st then negb member else true))
              (cn_truth ni)
        | None => true
        end
      else true) adms) ob.

Definition obs_quiescent (c : cluster) (ob : cobs) : bool :=
  forallb (fun in_ =>
    forallb (fun jq => match snd jq with [] => true | _ => false end) (cn_out (snd in_))
    && match cn_ntf (snd in_) with [] => true | _ => false end) (c_nodes c)
  && forallb (fun jo => forallb (fun is_ =>
       Z.eqb (snd is_) (Node.icode ISTOPPED) || Z.eqb (snd is_) (Node.icode IRUNNING)
       || Z.eqb (snd is_) (Node.icode ISOLATED)) (fst (snd jo))) ob.

(* walk a schedule with the implementation's observations. `cl`: is the prefix clean so far?
   want_clean = true  : report a wrong view at a quiescent point of a CLEAN prefix (failing input)
   want_clean = false : report a wrong view at a quiescent point after a harmful loss (known finding class) *)
Fixpoint cspec_walk (want_clean : bool) (c : cluster) (cl : bool) (tr : list action) (obss : list cobsr) : bool :=
  match tr, obss with
  | a :: r, COk ob :: robss =>
      let cl' := cl && negb (harmful c a) in
      match cstep c a with
      | Ok c' =>
          if Bool.eqb cl' want_clean && obs_quiescent c' ob && negb (obs_running_true c' ob) then true
          else cspec_walk want_clean c' cl' r robss
      | Crash _ => false
      end
  | _ :: _, CCrash _ :: _ => want_clean
  | _, _ => false
  end.

(* per action the driver records the nodes whose Context observable changed, as deltas (see rrebuild) *)
Definition cobs_d := list (Z * robs_d)%type.
Inductive cobsr_d := CdOk (d : cobs_d) | CdCrash (k : crash).

Definition crebuild (prev : cobs) (d : cobs_d) : cobs :=
  map (fun io => match aget (fst io) d with
                 | Some rd => (fst io, rrebuild (snd io) rd)
                 | None => io
                 end) prev.

Fixpoint crebuild_all (prev : cobs) (ds : list cobsr_d) : list cobsr :=
  match ds with
  | [] => []
  | CdOk d :: r => let ob := crebuild prev d in COk ob :: crebuild_all ob r
  | CdCrash k :: _ => [CCrash k]
  end.

Definition ccase := (alist (alist tinfo) * list action * list cobsr_d)%type.
Definition ccase_obs (cs : ccase) : list cobsr :=
  match cs with (truths, _, ds) => crebuild_all (cobserve (cinit truths)) ds end.
Definition ccase_mismatch (cs : ccase) : bool :=
  match cs with (truths, tr, _) => negb (list_eqb cobsr_eqb (crun_obs (cinit truths) tr) (ccase_obs cs)) end.
Definition ccase_spec_violation (cs : ccase) : bool :=
  match cs with (truths, tr, _) => cspec_walk true (cinit truths) true tr (ccase_obs cs) end.
Definition ccase_known_window (cs : ccase) : bool :=
  match cs with (truths, tr, _) => cspec_walk false (cinit truths) true tr (ccase_obs cs) end.
Definition cmismatches (cs : list ccase) : list nat := find_idx ccase_mismatch cs.
Definition cspec_violations (cs : list ccase) : list nat := find_idx ccase_spec_violation cs.
Definition cknown_window (cs : list ccase) : list nat := find_idx ccase_known_window cs.
