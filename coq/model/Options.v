(* Options.v — executable model of supvisors/options.py::SupvisorsOptions (construction from the
   [rpcinterface:supvisors] section: _get_value, the to_* converters, check_options), and the abstract
   specification Spec_C18 (options part) written from the property statement and docs/configuration.rst.
   Definitions only.

   Option values are strings in the implementation. The model receives them lexed by the driver with the very
   Python functions the converters apply first (supervisor.datatypes.integer / boolean, float(), Enum[...]
   membership of value.upper(), list_of_strings): what is modelled is every decision taken AFTER lexing
   (ranges, defaults, list handling, check_options). Floats are primitive floats (bit-exact with Python). *)
From Sup Require Export Base.
From Sup Require Import GenOptions.
From Coq Require Import PrimFloat FloatOps SpecFloat.

(* ---------- lexed option values ---------- *)
Inductive oint := IAbsent | IInt (z : Z) | INotInt.          (* key absent / integer(v) = z / ValueError *)
Inductive obool := BAbsent | BVal (b : bool) | BNot.         (* supervisor.datatypes.boolean *)
Inductive oenum := EAbsent | ECode (c : Z) | EUnknown.       (* klass[v.upper()].value / KeyError *)
Inductive ofloat := FAbsent | FVal (f : float) | FNot.       (* float(v) / ValueError *)
Inductive pz := ZOk (z : Z) | ZBad.                          (* one integer token *)
Inductive ostrs := LAbsent | LToks (l : list Z).             (* list_of_strings(v) as string ids, 0 = '' *)
Inductive osync := SAbsent | SToks (l : list (option Z)).    (* non-empty tokens: Some code | None unknown *)
Inductive ostats := TAbsent | TToks (l : list (option Z)).   (* every token: Some StatisticsTypes code | None invalid *)
Inductive operiods := PAbsent | PToks (l : list (option float)).
Inductive ogroup := GAbsent | GVal (two_parts reserved : bool) (addr : list pz) (port : pz).
Inductive oiface := FAbsentI | FAny | FAddr (addr : list pz).

Record config := mkConfig {
  c_ttl : oint; c_group : ogroup; c_iface : oiface;
  c_event_link : oenum; c_event_port : oint; c_auto_fence : obool;
  c_synchro_options : osync; c_synchro_timeout : oint; c_inactivity_ticks : oint;
  c_supvisors_list : ostrs; c_core_identifiers : ostrs;
  c_conciliation : oenum; c_starting : oenum; c_failure : oenum;
  c_stats_enabled : ostats; c_collecting_period : ofloat; c_stats_periods : operiods;
  c_stats_histo : oint; c_irix : obool; c_tail_limit : oint; c_tailf_limit : oint }.

(* ---------- converters ---------- *)
(* SupvisorsOptions.to_integer / to_ttl / to_port_num / to_timeout / to_ticks / to_histo, through _get_value *)
Definition conv_int (lo hi : Z) (dflt : Z) (v : oint) : Z :=
  match v with
  | IInt z => if Z.ltb z lo || Z.ltb hi z then dflt else z
  | _ => dflt
  end.
(* byte_size : no bound *)
Definition conv_size (dflt : Z) (v : oint) : Z := match v with IInt z => z | _ => dflt end.
Definition conv_bool (dflt : bool) (v : obool) : bool := match v with BVal b => b | _ => dflt end.
Definition conv_enum (values : list Z) (dflt : Z) (v : oenum) : Z :=
  match v with ECode c => if zmem c values then c else dflt | _ => dflt end.

(* IEEE comparisons as Python's float < and <= *)
Definition flt (a b : float) : bool := match PrimFloat.compare a b with FLt => true | _ => false end.
Definition fle (a b : float) : bool := match PrimFloat.compare a b with FLt | FEq => true | _ => false end.

(* `if not 1.0 <= period <= 3600.0: raise ValueError` (the negated chained form also refuses a nan) *)
Definition period_refused (p : float) : bool := negb (fle go_period_min p && fle p go_period_max).

Definition float_of_Z (z : Z) : float := PrimFloat.of_uint63 (Uint63.of_Z z).

(* SupvisorsOptions.to_period *)
Definition conv_period (dflt : float) (v : ofloat) : float :=
  match v with FVal p => if period_refused p then dflt else p | _ => dflt end.

(* sorted() of at most three floats, as CPython 3.12 list.sort does it (count_run, then binary insertion);
   all decisions are `<` comparisons, which matters when a nan is present *)
Definition py_sorted3 (l : list float) : list float :=
  match l with
  | [a0; a1] => if flt a1 a0 then [a1; a0] else [a0; a1]
  | [a0; a1; a2] =>
      let insert x0 x1 :=         (* binary insertion of a2 into the run [x0; x1] *)
        if flt a2 x1 then (if flt a2 x0 then [a2; x0; x1] else [x0; a2; x1]) else [x0; x1; a2] in
      if flt a1 a0 then (if flt a2 a1 then [a2; a1; a0] else insert a1 a0)
      else (if flt a2 a1 then insert a0 a1 else [a0; a1; a2])
  | _ => l
  end.

Fixpoint all_some {A} (l : list (option A)) : option (list A) :=
  match l with
  | [] => Some []
  | Some a :: r => match all_some r with Some r' => Some (a :: r') | None => None end
  | None :: _ => None
  end.

(* SupvisorsOptions.to_periods *)
Definition conv_periods (dflt : list float) (v : operiods) : list float :=
  match v with
  | PToks l =>
      if Nat.eqb (length l) 0 || Nat.ltb 3 (length l) then dflt
      else match all_some l with
           | Some ps => if existsb period_refused ps then dflt else py_sorted3 ps
           | None => dflt
           end
  | PAbsent => dflt
  end.

(* option_list deduplication: `if option not in option_list: append` *)
Fixpoint dedup_keep_first (l : list Z) : list Z :=
  match l with
  | [] => []
  | x :: r => x :: filter (fun y => negb (Z.eqb x y)) (dedup_keep_first r)
  end.

(* SupvisorsOptions.to_synchro_options ; None = the class default list is used *)
Definition conv_synchro (v : osync) : option (list Z) :=
  match v with
  | SToks l => match all_some l with
               | Some codes => if forallb (fun c => zmem c go_SynchronizationOptions_values) codes
                               then Some (dedup_keep_first codes) else None
               | None => None
               end
  | SAbsent => None
  end.

(* SupvisorsOptions.to_statistics_type *)
Definition conv_stats (dflt : bool * bool) (v : ostats) : bool * bool :=
  match v with
  | TToks (t :: ts) =>
      match all_some (t :: ts) with
      | Some codes =>
          (zmem go_StatisticsTypes_ALL codes || zmem go_StatisticsTypes_HOST codes,
           zmem go_StatisticsTypes_ALL codes || zmem go_StatisticsTypes_PROCESS codes)
      | None => dflt
      end
  | _ => dflt
  end.

Definition byte_ok (lo hi : Z) (b : pz) : bool :=
  match b with ZOk z => Z.leb lo z && Z.leb z hi | ZBad => false end.
Definition bytes_val (l : list pz) : list Z := map (fun b => match b with ZOk z => z | ZBad => -1 end) l.

(* SupvisorsOptions.to_multicast_group : (address bytes, port) *)
Definition conv_group (v : ogroup) : option (list Z * Z) :=
  match v with
  | GVal two_parts reserved addr port =>
      if negb two_parts || reserved then None
      else match addr with
           | [b0; b1; b2; b3] =>
               if byte_ok 224 239 b0 && byte_ok 0 255 b1 && byte_ok 0 255 b2 && byte_ok 0 255 b3
                  && byte_ok go_port_min go_port_max port
               then Some (bytes_val addr, match port with ZOk z => z | ZBad => -1 end)
               else None
           | _ => None
           end
  | GAbsent => None
  end.

(* SupvisorsOptions.to_ip_address *)
Definition conv_iface (v : oiface) : option (list Z) :=
  match v with
  | FAddr [b0; b1; b2; b3] =>
      if byte_ok 0 255 b0 && byte_ok 0 255 b1 && byte_ok 0 255 b2 && byte_ok 0 255 b3
      then Some (bytes_val [b0; b1; b2; b3]) else None
  | _ => None
  end.

(* set(filter(None, list_of_strings(x))) is empty / `not self.supvisors_list` *)
Definition strs_empty (v : ostrs) : bool :=
  match v with LAbsent => true | LToks l => forallb (fun x => Z.eqb x 0) l end.

(* list.remove(x): first occurrence *)
Fixpoint remove_first (x : Z) (l : list Z) : list Z :=
  match l with [] => [] | y :: r => if Z.eqb x y then r else y :: remove_first x r end.

(* ---------- the options object (property-relevant attributes) ---------- *)
Record options := mkOptions {
  o_ttl : Z; o_group : option (list Z * Z); o_iface : option (list Z);
  o_event_link : Z; o_event_port : Z; o_auto_fence : bool;
  o_synchro_options : list Z; o_synchro_timeout : Z; o_inactivity_ticks : Z;
  o_conciliation : Z; o_starting : Z; o_failure : Z;
  o_host_stats : bool; o_proc_stats : bool; o_collecting_period : float; o_stats_periods : list float;
  o_stats_histo : Z; o_irix : bool; o_tail_limit : Z; o_tailf_limit : Z }.

(* SupvisorsOptions.__init__ then check_options.
   `class_default` is the current value of the CLASS attribute SYNCHRO_DEFAULT_OPTIONS: when synchro_options is
   absent or invalid, self.synchro_options is a COPY of that list (list(self.SYNCHRO_DEFAULT_OPTIONS)), so that
   check_options never alters the class attribute. Returns the outcome and the class attribute afterwards. *)
Definition build (class_default : list Z) (c : config) : result options * list Z :=
  let from_conf := conv_synchro (c_synchro_options c) in
  let sync0 := match from_conf with Some l => l | None => class_default end in
  let sync1 := if strs_empty (c_core_identifiers c) && zmem go_SynchronizationOptions_CORE sync0
               then remove_first go_SynchronizationOptions_CORE sync0 else sync0 in
  let sync2 := if strs_empty (c_supvisors_list c) && zmem go_SynchronizationOptions_STRICT sync1
               then remove_first go_SynchronizationOptions_STRICT sync1 else sync1 in
  let class_after := class_default in
  match sync2 with
  | [] => (Crash ValueError, class_after)
  | _ =>
      let failure0 := conv_enum go_SupvisorsFailureStrategies_values go_default_failure (c_failure c) in
      let failure := if zmem go_SynchronizationOptions_TIMEOUT sync2
                        && negb (Z.eqb failure0 go_SupvisorsFailureStrategies_CONTINUE)
                     then go_SupvisorsFailureStrategies_CONTINUE else failure0 in
      let stats := conv_stats (go_default_host_stats, go_default_proc_stats) (c_stats_enabled c) in
      (Ok (mkOptions
             (conv_int go_ttl_min go_ttl_max go_default_ttl (c_ttl c))
             (conv_group (c_group c))
             (conv_iface (c_iface c))
             (conv_enum go_EventLinks_values go_default_event_link (c_event_link c))
             (conv_int go_port_min go_port_max go_default_event_port (c_event_port c))
             (conv_bool go_default_auto_fence (c_auto_fence c))
             sync2
             (conv_int go_SYNCHRO_TIMEOUT_MIN go_SYNCHRO_TIMEOUT_MAX go_default_timeout (c_synchro_timeout c))
             (conv_int go_INACTIVITY_TICKS_MIN go_INACTIVITY_TICKS_MAX go_default_ticks (c_inactivity_ticks c))
             (conv_enum go_ConciliationStrategies_values go_default_conciliation (c_conciliation c))
             (conv_enum go_StartingStrategies_values go_default_starting (c_starting c))
             failure
             (fst stats) (snd stats)
             (conv_period (float_of_Z go_default_collecting_period) (c_collecting_period c))
             (conv_periods (map float_of_Z go_default_stats_periods) (c_stats_periods c))
             (conv_int go_histo_min go_histo_max go_default_histo (c_stats_histo c))
             (conv_bool go_default_irix (c_irix c))
             (conv_size go_default_tail_limit (c_tail_limit c))
             (conv_size go_default_tail_limit (c_tailf_limit c))),
       class_after)
  end.

(* several constructions in the same Python process (what `supervisorctl reload` does), from the pristine class *)
Fixpoint run_from (class_default : list Z) (cs : list config) : list (result options * list Z) :=
  match cs with
  | [] => []
  | c :: r => let o := build class_default c in o :: run_from (snd o) r
  end.
Definition run (cs : list config) := run_from go_SYNCHRO_DEFAULT_OPTIONS cs.

(* ---------- observation equality (floats bit for bit) ---------- *)
Definition sf_eqb (a b : spec_float) : bool :=
  match a, b with
  | S754_zero s1, S754_zero s2 => Bool.eqb s1 s2
  | S754_infinity s1, S754_infinity s2 => Bool.eqb s1 s2
  | S754_nan, S754_nan => true
  | S754_finite s1 m1 e1, S754_finite s2 m2 e2 => Bool.eqb s1 s2 && Pos.eqb m1 m2 && Z.eqb e1 e2
  | _, _ => false
  end.
Definition float_same (a b : float) : bool := sf_eqb (Prim2SF a) (Prim2SF b).

Definition zl_eqb := list_eqb Z.eqb.
Definition options_eqb (a b : options) : bool :=
  Z.eqb (o_ttl a) (o_ttl b)
  && option_eqb (fun x y => zl_eqb (fst x) (fst y) && Z.eqb (snd x) (snd y)) (o_group a) (o_group b)
  && option_eqb zl_eqb (o_iface a) (o_iface b)
  && Z.eqb (o_event_link a) (o_event_link b) && Z.eqb (o_event_port a) (o_event_port b)
  && Bool.eqb (o_auto_fence a) (o_auto_fence b)
  && zl_eqb (o_synchro_options a) (o_synchro_options b)
  && Z.eqb (o_synchro_timeout a) (o_synchro_timeout b) && Z.eqb (o_inactivity_ticks a) (o_inactivity_ticks b)
  && Z.eqb (o_conciliation a) (o_conciliation b) && Z.eqb (o_starting a) (o_starting b)
  && Z.eqb (o_failure a) (o_failure b)
  && Bool.eqb (o_host_stats a) (o_host_stats b) && Bool.eqb (o_proc_stats a) (o_proc_stats b)
  && float_same (o_collecting_period a) (o_collecting_period b)
  && list_eqb float_same (o_stats_periods a) (o_stats_periods b)
  && Z.eqb (o_stats_histo a) (o_stats_histo b) && Bool.eqb (o_irix a) (o_irix b)
  && Z.eqb (o_tail_limit a) (o_tail_limit b) && Z.eqb (o_tailf_limit a) (o_tailf_limit b).

Definition outcome_eqb (a b : result options * list Z) : bool :=
  match fst a, fst b with
  | Ok x, Ok y => options_eqb x y
  | Crash k1, Crash k2 => crash_eqb k1 k2
  | _, _ => false
  end && zl_eqb (snd a) (snd b).

Definition case := (list config * list (result options * list Z))%type.
Definition case_mismatch (c : case) : bool := negb (list_eqb outcome_eqb (run (fst c)) (snd c)).
Definition mismatches (cs : list case) : list nat := find_idx case_mismatch cs.

(* =====================================================================================================
   Spec_C18 (options) — from the property statement and docs/configuration.rst.
   "every [supvisors] option outside its documented range falls back to its default (only an empty resulting
    synchro_options is refused), CORE / STRICT are dropped when their lists are empty and TIMEOUT forces
    supvisors_failure_strategy to CONTINUE"
   ===================================================================================================== *)
(* documented ranges (docs/configuration.rst and the docstrings of the converters) *)
Definition doc_ttl : Z * Z := (0, 255).
Definition doc_port : Z * Z := (1, 65535).
Definition doc_timeout : Z * Z := (15, 1200).
Definition doc_ticks : Z * Z := (2, 720).
Definition doc_histo : Z * Z := (10, 1500).
Definition doc_period_min : float := 1%float.
Definition doc_period_max : float := 3600%float.
Definition doc_synchro_default : list Z :=       (* "Default: STRICT,TIMEOUT,CORE" *)
  [go_SynchronizationOptions_STRICT; go_SynchronizationOptions_TIMEOUT; go_SynchronizationOptions_CORE].

Definition in_range (rg : Z * Z) (z : Z) : bool := Z.leb (fst rg) z && Z.leb z (snd rg).
Definition spec_int (rg : Z * Z) (dflt : Z) (v : oint) : Z :=
  match v with IInt z => if in_range rg z then z else dflt | _ => dflt end.

(* a period is in its documented range when 1 <= p <= 3600 (a nan is in no range) *)
Definition period_in_range (p : float) : bool := fle doc_period_min p && fle p doc_period_max.

(* what the specification demands of one construction, given the lexed configuration.
   `dflt` is the documented default of synchro_options. *)
Definition is_nil_sync (l : list Z) : bool := match l with [] => true | _ => false end.

Definition spec_synchro (dflt : list Z) (c : config) : list Z :=
  let s0 := match conv_synchro (c_synchro_options c) with Some l => l | None => dflt end in
  let s1 := if strs_empty (c_core_identifiers c)
            then filter (fun x => negb (Z.eqb x go_SynchronizationOptions_CORE)) s0 else s0 in
  if strs_empty (c_supvisors_list c)
  then filter (fun x => negb (Z.eqb x go_SynchronizationOptions_STRICT)) s1 else s1.

(* everything but the statistics periods *)
Definition spec_accepts_core (dflt : list Z) (c : config) (ob : result options) : bool :=
  let sync := spec_synchro dflt c in
  match ob with
  | Crash _ => is_nil_sync sync       (* "only an empty resulting synchro_options is refused" *)
  | Ok o =>
      negb (is_nil_sync sync)
      && zl_eqb (o_synchro_options o) sync
      && Z.eqb (o_ttl o) (spec_int doc_ttl go_default_ttl (c_ttl c))
      && Z.eqb (o_event_port o) (spec_int doc_port go_default_event_port (c_event_port c))
      && Z.eqb (o_synchro_timeout o) (spec_int doc_timeout go_default_timeout (c_synchro_timeout c))
      && Z.eqb (o_inactivity_ticks o) (spec_int doc_ticks go_default_ticks (c_inactivity_ticks c))
      && Z.eqb (o_stats_histo o) (spec_int doc_histo go_default_histo (c_stats_histo c))
      && Bool.eqb (o_auto_fence o) (conv_bool go_default_auto_fence (c_auto_fence c))
      && Bool.eqb (o_irix o) (conv_bool go_default_irix (c_irix c))
      && Z.eqb (o_event_link o) (conv_enum go_EventLinks_values go_default_event_link (c_event_link c))
      && Z.eqb (o_conciliation o)
               (conv_enum go_ConciliationStrategies_values go_default_conciliation (c_conciliation c))
      && Z.eqb (o_starting o) (conv_enum go_StartingStrategies_values go_default_starting (c_starting c))
      (* TIMEOUT forces CONTINUE, otherwise the configured strategy or the default *)
      && Z.eqb (o_failure o)
               (if zmem go_SynchronizationOptions_TIMEOUT sync then go_SupvisorsFailureStrategies_CONTINUE
                else conv_enum go_SupvisorsFailureStrategies_values go_default_failure (c_failure c))
      (* statistics selection: enumeration / boolean tokens or the default *)
      && (let st := conv_stats (go_default_host_stats, go_default_proc_stats) (c_stats_enabled c) in
          Bool.eqb (o_host_stats o) (fst st) && Bool.eqb (o_proc_stats o) (snd st))
      (* multicast group / interface: a valid address or none *)
      && (match o_group o with
          | Some (a, p) => in_range doc_port p && Nat.eqb (length a) 4 && forallb (in_range (0, 255)) a
                           && match a with b0 :: _ => in_range (224, 239) b0 | [] => false end
          | None => true end)
      && (match o_iface o with
          | Some a => Nat.eqb (length a) 4 && forallb (in_range (0, 255)) a
          | None => true end)
  end.

(* the statistics periods: the given value when it lies in [1 ; 3600], otherwise the default *)
Definition same_multiset3 (a b : list float) : bool :=
  Nat.eqb (length a) (length b)
  && forallb (fun x => existsb (float_same x) b) a && forallb (fun x => existsb (float_same x) a) b.

Definition spec_accepts_periods (c : config) (ob : result options) : bool :=
  match ob with
  | Crash _ => true
  | Ok o =>
      let d1 := float_of_Z go_default_collecting_period in
      let dl := map float_of_Z go_default_stats_periods in
      (match c_collecting_period c with
       | FVal p => float_same (o_collecting_period o) (if period_in_range p then p else d1)
       | _ => float_same (o_collecting_period o) d1
       end)
      && (match c_stats_periods c with
          | PToks l =>
              match all_some l with
              | Some ps =>
                  if Nat.leb 1 (length ps) && Nat.leb (length ps) 3 && forallb period_in_range ps
                  then same_multiset3 (o_stats_periods o) ps
                  else list_eqb float_same (o_stats_periods o) dl
              | None => list_eqb float_same (o_stats_periods o) dl
              end
          | PAbsent => list_eqb float_same (o_stats_periods o) dl
          end)
  end.

(* Both former findings (nan accepted as a period; class-level default of synchro_options altered by check_options)
   are repaired in /repo: such behaviour is now a plain violation of the specification. Constructions in a row are
   independent: each is judged against the documented default, and the class attribute must stay as documented. *)
Definition check_one (c : config) (ob : result options * list Z) : bool :=
  spec_accepts_core doc_synchro_default c (fst ob) && spec_accepts_periods c (fst ob)
  && zl_eqb (snd ob) doc_synchro_default.

Fixpoint check_all (cs : list config) (obs : list (result options * list Z)) : bool :=
  match cs, obs with
  | c :: r, ob :: robs => check_one c ob && check_all r robs
  | [], [] => true
  | _, _ => false
  end.

Definition spec_violations (cs : list case) : list nat :=
  find_idx (fun c => negb (check_all (fst c) (snd c))) cs.
