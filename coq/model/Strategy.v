(* Strategy.v — executable model of the starting strategies of supvisors/strategy.py
   (get_supvisors_instance, get_node, the six AbstractStartingStrategy subclasses) and of the
   distribution rules of supvisors/commander.py::ApplicationStartJobs
   (get_load_requests, distribute_to_single_instance, distribute_to_single_node, on_command_added).
   Definitions only (no proofs). Each function names the Python code it mirrors.

   Identifiers of Supvisors instances and of nodes (machine ids) are Z.
   Order is observable everywhere: context.instances / mapper.nodes / load_request_map are Python dicts
   (insertion ordered association lists here), candidate lists are lists. *)
From Sup Require Export Base.
From Sup Require Import GenEnums.

(* ------------------------------------------------------------------ enums (codes reflected from ttypes.py) *)
Inductive strategy :=
| S_CONFIG | S_LESS_LOADED | S_MOST_LOADED | S_LOCAL | S_LESS_LOADED_NODE | S_MOST_LOADED_NODE.

Definition strategy_code (s : strategy) : Z :=
  match s with
  | S_CONFIG => gen_StartingStrategies_CONFIG
  | S_LESS_LOADED => gen_StartingStrategies_LESS_LOADED
  | S_MOST_LOADED => gen_StartingStrategies_MOST_LOADED
  | S_LOCAL => gen_StartingStrategies_LOCAL
  | S_LESS_LOADED_NODE => gen_StartingStrategies_LESS_LOADED_NODE
  | S_MOST_LOADED_NODE => gen_StartingStrategies_MOST_LOADED_NODE
  end.

Definition all_strategies : list strategy :=
  [S_CONFIG; S_LESS_LOADED; S_MOST_LOADED; S_LOCAL; S_LESS_LOADED_NODE; S_MOST_LOADED_NODE].

(* the drivers pass the enum *value*; decoding goes through the reflected codes *)
Definition strategy_of_code (c : Z) : option strategy :=
  find (fun s => Z.eqb (strategy_code s) c) all_strategies.

Inductive distribution := D_ALL_INSTANCES | D_SINGLE_INSTANCE | D_SINGLE_NODE.

Definition distribution_code (d : distribution) : Z :=
  match d with
  | D_ALL_INSTANCES => gen_DistributionRules_ALL_INSTANCES
  | D_SINGLE_INSTANCE => gen_DistributionRules_SINGLE_INSTANCE
  | D_SINGLE_NODE => gen_DistributionRules_SINGLE_NODE
  end.

Definition distribution_of_code (c : Z) : option distribution :=
  find (fun d => Z.eqb (distribution_code d) c) [D_ALL_INSTANCES; D_SINGLE_INSTANCE; D_SINGLE_NODE].

(* ------------------------------------------------------------------ layout *)
(* One Supvisors instance as the requester sees it:
     i_state : SupvisorsInstanceStatus.state (enum value),
     i_node  : supvisors_id.local_view.machine_id — None when local_view is None (never identified),
     i_load  : SupvisorsInstanceStatus.get_load() (sum of expected_load of the processes running there). *)
Record inst_info := mkInst { i_state : Z; i_node : option Z; i_load : Z }.

(* l_insts : context.instances / mapper.instances, in mapper order;
   l_nodes : mapper.nodes, machine_id -> identifiers, AS BUILT by SupvisorsMapper.identify (appends:
             the same identifier may appear several times). *)
Record layout := mkLayout { l_insts : alist inst_info; l_nodes : alist (list Z) }.

(* dict.get(k, d) *)
Definition dget {V} (k : Z) (l : alist V) (d : V) : V :=
  match aget k l with Some v => v | None => d end.

(* Context.running_identifiers : identifiers_by_states([RUNNING]) *)
Definition running_identifiers (L : layout) : list Z :=
  map fst (filter (fun kv => Z.eqb (i_state (snd kv)) gen_SupvisorsInstanceStates_RUNNING) (l_insts L)).

(* context.instances[identifier] / mapper.instances[identifier] *)
Definition inst_of (L : layout) (i : Z) : result inst_info :=
  match aget i (l_insts L) with Some x => Ok x | None => Crash KeyError end.

(* mapper.instances[identifier].local_view.machine_id *)
Definition machine_of (L : layout) (i : Z) : result Z :=
  bind (inst_of L i)
       (fun x => match i_node x with Some m => Ok m | None => Crash AttributeError end).

(* ------------------------------------------------------------------ strategy.get_node_load_request_map *)
(* node_load_request_map = {node: 0 for node in mapper.nodes}
   for identifier, load in load_request_map.items():
       node_load_request_map[mapper.instances[identifier].local_view.machine_id] += load *)
Fixpoint node_requests_from (L : layout) (acc : alist Z) (reqs : alist Z) : result (alist Z) :=
  match reqs with
  | [] => Ok acc
  | (i, ld) :: r =>
      bind (machine_of L i)
           (fun m => match aget m acc with
                     | Some v => node_requests_from L (aset m (v + ld) acc) r
                     | None => Crash KeyError
                     end)
  end.

Definition node_requests (L : layout) (reqs : alist Z) : result (alist Z) :=
  node_requests_from L (map (fun kv => (fst kv, 0)) (l_nodes L)) reqs.

(* ------------------------------------------------------------------ Context.get_nodes_load *)
(* {machine_id: sum(instances[identifier].get_load() for identifier in identifiers)
    for machine_id, identifiers in mapper.nodes.items()}     — duplicates in the list are summed again *)
Fixpoint sum_loads (L : layout) (ids : list Z) : result Z :=
  match ids with
  | [] => Ok 0
  | i :: r => bind (inst_of L i) (fun x => bind (sum_loads L r) (fun s => Ok (i_load x + s)))
  end.

Fixpoint nodes_load_from (L : layout) (nodes : alist (list Z)) : result (alist Z) :=
  match nodes with
  | [] => Ok []
  | (m, ids) :: r =>
      bind (sum_loads L ids) (fun s => bind (nodes_load_from L r) (fun rest => Ok ((m, s) :: rest)))
  end.

Definition nodes_load (L : layout) : result (alist Z) := nodes_load_from L (l_nodes L).

(* ------------------------------------------------------------------ AbstractStartingStrategy *)
(* LoadingValidity = (validity, node_load, instance_load) *)
Definition lvalid := (bool * Z * Z)%type.
Definition lv_ok (v : lvalid) : bool := fst (fst v).
Definition lv_node (v : lvalid) : Z := snd (fst v).
Definition lv_inst (v : lvalid) : Z := snd v.

(* is_loading_valid(identifier, expected_load, (load_request_map, A, B)) where A, B are the two per-node maps
   (the caller passes them in swapped order w.r.t. the names used by the callee; only their sum is used) *)
Definition is_loading_valid (L : layout) (expected : Z) (reqs nreq nload : alist Z) (i : Z) : result lvalid :=
  bind (inst_of L i)
       (fun x => match i_node x with
                 | None => Crash AttributeError
                 | Some m =>
                     let node_loading := dget m nload 0 + dget m nreq 0 in
                     let instance_loading := i_load x + dget i reqs 0 in
                     Ok (Z.leb (node_loading + expected) 100, node_loading, instance_loading)
                 end).

(* get_loading_and_validity : {identifier: is_loading_valid(identifier, ...) for identifier in identifiers}
   (dict comprehension: evaluated in list order, a repeated key keeps its first position) *)
Fixpoint loading_validity_from (f : Z -> result lvalid) (acc : alist lvalid) (ids : list Z)
  : result (alist lvalid) :=
  match ids with
  | [] => Ok acc
  | i :: r => bind (f i) (fun v => loading_validity_from f (aset i v acc) r)
  end.

(* (identifier, node_load, instance_load) *)
Definition triple := (Z * Z * Z)%type.
Definition t_id (t : triple) : Z := fst (fst t).
Definition t_node (t : triple) : Z := snd (fst t).
Definition t_inst (t : triple) : Z := snd t.

(* [(identifier, node_load, instance_load) for identifier, (validity, ...) in map.items() if validity] *)
Definition valid_triples (m : alist lvalid) : list triple :=
  map (fun kv => (fst kv, lv_node (snd kv), lv_inst (snd kv))) (filter (fun kv => lv_ok (snd kv)) m).

(* Python tuple comparison (a1, a2) <= (b1, b2) *)
Definition lex_le (a b : Z * Z) : bool :=
  Z.ltb (fst a) (fst b) || (Z.eqb (fst a) (fst b) && Z.leb (snd a) (snd b)).

(* Python's sorted(l, key=...) is stable: modelled by a stable insertion sort — an element is inserted
   BEFORE the first element whose key is >= its own, elements being inserted from the right end. *)
Fixpoint insert_by {A} (key : A -> Z * Z) (x : A) (l : list A) : list A :=
  match l with
  | [] => [x]
  | y :: r => if lex_le (key x) (key y) then x :: l else y :: insert_by key x r
  end.
Definition sorted_by {A} (key : A -> Z * Z) (l : list A) : list A := fold_right (insert_by key) [] l.

(* key=lambda x: (x[2], x[1])  and  key=lambda x: (x[1], x[2]) *)
Definition key_instance_load (t : triple) : Z * Z := (t_inst t, t_node t).
Definition key_node_load (t : triple) : Z * Z := (t_node t, t_inst t).

Definition sort_valid_by_instance_load (m : alist lvalid) : list triple :=
  sorted_by key_instance_load (valid_triples m).
Definition sort_valid_by_node_load (m : alist lvalid) : list triple :=
  sorted_by key_node_load (valid_triples m).

(* l[0][0] if l else None ; l[-1][0] if l else None *)
Definition first_id (l : list triple) : option Z :=
  match l with [] => None | t :: _ => Some (t_id t) end.
Fixpoint last_id (l : list triple) : option Z :=
  match l with [] => None | [t] => Some (t_id t) | _ :: r => last_id r end.

(* <X>Strategy.get_supvisors_instance(identifiers, expected_load, load_details) *)
Definition apply_strategy (s : strategy) (local : Z) (L : layout) (cands : list Z) (expected : Z)
           (reqs nreq nload : alist Z) : result (option Z) :=
  let lvmap := loading_validity_from (is_loading_valid L expected reqs nreq nload) [] in
  match s with
  | S_CONFIG =>
      (* next((identifier for identifier, (validity, _, _) in map.items() if validity), None) *)
      bind (lvmap cands)
           (fun m => Ok (match find (fun kv => lv_ok (snd kv)) m with Some kv => Some (fst kv) | None => None end))
  | S_LESS_LOADED => bind (lvmap cands) (fun m => Ok (first_id (sort_valid_by_instance_load m)))
  | S_MOST_LOADED => bind (lvmap cands) (fun m => Ok (last_id (sort_valid_by_instance_load m)))
  | S_LESS_LOADED_NODE => bind (lvmap cands) (fun m => Ok (first_id (sort_valid_by_node_load m)))
  | S_MOST_LOADED_NODE => bind (lvmap cands) (fun m => Ok (last_id (sort_valid_by_node_load m)))
  | S_LOCAL =>
      if negb (zmem local cands) then Ok None
      else bind (lvmap cands)
                (fun m => match aget local m with
                          | Some v => Ok (if lv_ok v then Some local else None)
                          | None => Crash KeyError
                          end)
  end.

(* strategy.get_supvisors_instance(supvisors, strategy, identifiers, expected_load, load_request_map) *)
Definition get_supvisors_instance (s : strategy) (local : Z) (L : layout) (ids : list Z) (expected : Z)
           (reqs : alist Z) : result (option Z) :=
  let running := running_identifiers L in
  let cands := filter (fun i => zmem i running) ids in
  match cands with
  | [] => Ok None
  | _ =>
      bind (node_requests L reqs)
           (fun nreq => bind (nodes_load L)
                             (fun nload => apply_strategy s local L cands expected reqs nreq nload))
  end.

(* strategy.get_node *)
Definition get_node (s : strategy) (local : Z) (L : layout) (ids : list Z) (expected : Z)
           (reqs : alist Z) : result (option Z) :=
  bind (get_supvisors_instance s local L ids expected reqs)
       (fun r => match r with
                 | Some i => bind (machine_of L i) (fun m => Ok (Some m))
                 | None => Ok None
                 end).

(* ================================================================== abstract specification (Spec_C14) *)
(* Written from the property statement, independently of how the code computes it.
   [nl] is the reading of "node load": the theorems are proved for the code's reading [node_code_load]
   (sum over the identifier list of mapper.nodes, duplicates included) and transferred to the
   true reading [node_true_load] under H_nodes_nodup / H_nodes_consistent. *)

Definition inst_load (L : layout) (i : Z) : Z :=
  match aget i (l_insts L) with Some x => i_load x | None => 0 end.
Definition node_opt (L : layout) (i : Z) : option Z :=
  match aget i (l_insts L) with Some x => i_node x | None => None end.
Definition node_is (o : option Z) (m : Z) : bool :=
  match o with Some m' => Z.eqb m' m | None => false end.

Definition zsum (l : list Z) : Z := fold_right Z.add 0 l.

(* pending request load of an instance / of a node (requests of every instance of that node) *)
Definition inst_req (reqs : alist Z) (i : Z) : Z := dget i reqs 0.
Definition node_req (L : layout) (reqs : alist Z) (m : Z) : Z :=
  zsum (map snd (filter (fun kv => node_is (node_opt L (fst kv)) m) reqs)).

(* the code's node load: sum over the node's identifier list, as listed *)
Definition node_code_load (L : layout) (m : Z) : Z :=
  match aget m (l_nodes L) with Some ids => zsum (map (inst_load L) ids) | None => 0 end.
(* the true node load: every instance located on the node counted once *)
Definition node_true_load (L : layout) (m : Z) : Z :=
  zsum (map (fun kv => i_load (snd kv)) (filter (fun kv => node_is (i_node (snd kv)) m) (l_insts L))).

Definition inst_total (L : layout) (reqs : alist Z) (i : Z) : Z := inst_load L i + inst_req reqs i.
Definition node_total (nl : Z -> Z) (L : layout) (reqs : alist Z) (i : Z) : Z :=
  match node_opt L i with Some m => nl m + node_req L reqs m | None => 0 end.

(* first-occurrence de-duplication: the order in which a repeated candidate counts *)
Fixpoint zdedup (l : list Z) : list Z :=
  match l with
  | [] => []
  | x :: r => x :: filter (fun y => negb (Z.eqb y x)) (zdedup r)
  end.

(* the eligible instances, in declared order *)
Definition candidates (L : layout) (ids : list Z) : list Z :=
  zdedup (filter (fun i => zmem i (running_identifiers L)) ids).

(* valid candidate: requested, seen RUNNING, and its node can take the extra load *)
Definition valid_cand (nl : Z -> Z) (L : layout) (ids : list Z) (expected : Z) (reqs : alist Z) (i : Z) : bool :=
  zmem i ids && zmem i (running_identifiers L) && Z.leb (node_total nl L reqs i + expected) 100.

(* the lexicographic key of the property statement *)
Definition skey (nl : Z -> Z) (L : layout) (reqs : alist Z) (s : strategy) (i : Z) : Z * Z :=
  match s with
  | S_LESS_LOADED | S_MOST_LOADED => (inst_total L reqs i, node_total nl L reqs i)
  | S_LESS_LOADED_NODE | S_MOST_LOADED_NODE => (node_total nl L reqs i, inst_total L reqs i)
  | S_CONFIG | S_LOCAL => (0, 0)
  end.

(* elements strictly before / after the first occurrence of i *)
Fixpoint before (i : Z) (l : list Z) : list Z :=
  match l with [] => [] | x :: r => if Z.eqb x i then [] else x :: before i r end.
Fixpoint after (i : Z) (l : list Z) : list Z :=
  match l with [] => [] | x :: r => if Z.eqb x i then r else after i r end.

Definition lex_lt (a b : Z * Z) : bool := negb (lex_le b a).

(* does the specification accept [r] as the answer ? *)
Definition spec_accepts (nl : Z -> Z) (s : strategy) (local : Z) (L : layout) (ids : list Z) (expected : Z)
           (reqs : alist Z) (r : option Z) : bool :=
  let D := candidates L ids in
  let valid := valid_cand nl L ids expected reqs in
  let V := filter valid D in
  let key := skey nl L reqs s in
  match s with
  | S_LOCAL =>
      match r with
      | None => negb (valid local)
      | Some i => Z.eqb i local && valid local
      end
  | S_CONFIG =>
      match r with
      | None => match V with [] => true | _ => false end
      | Some i => valid i && match before i V with [] => true | _ => false end
      end
  | S_LESS_LOADED | S_LESS_LOADED_NODE =>
      match r with
      | None => match V with [] => true | _ => false end
      | Some i =>
          valid i
          && forallb (fun j => lex_le (key i) (key j)) V          (* nobody strictly better *)
          && forallb (fun j => lex_lt (key i) (key j)) (before i V)  (* ties: the first in declared order *)
      end
  | S_MOST_LOADED | S_MOST_LOADED_NODE =>
      match r with
      | None => match V with [] => true | _ => false end
      | Some i =>
          valid i
          && forallb (fun j => lex_le (key j) (key i)) V
          && forallb (fun j => lex_lt (key j) (key i)) (after i V)   (* ties: the last in declared order *)
      end
  end.

(* ------------------------------------------------------------------ well-formedness (no crash) *)
(* Decidable conditions under which the Python code raises nothing:
   every identifier listed in mapper.nodes is a known instance; every instance seen RUNNING has been
   identified (local_view set); every pending request targets a known, identified instance whose
   machine id is a key of mapper.nodes. *)
Definition layout_wf (L : layout) (reqs : alist Z) : bool :=
  forallb (fun kv => forallb (fun i => amem i (l_insts L)) (snd kv)) (l_nodes L)
  && forallb (fun i => match node_opt L i with Some _ => true | None => false end) (running_identifiers L)
  && forallb (fun kv => match node_opt L (fst kv) with Some m => amem m (l_nodes L) | None => false end) reqs.

(* H_nodes_nodup : each identifier appears at most once in its node's list (false after a second
   SupvisorsMapper.identify of the same instance — candidate finding F6). *)
Fixpoint znodup (l : list Z) : bool :=
  match l with [] => true | x :: r => negb (zmem x r) && znodup r end.
Definition nodes_nodup (L : layout) : bool := forallb (fun kv => znodup (snd kv)) (l_nodes L).

(* H_nodes_consistent : mapper.nodes lists exactly the instances located on each node, and both dicts
   have unique keys (they are Python dicts). *)
Definition nodes_consistent (L : layout) : bool :=
  znodup (map fst (l_insts L)) && znodup (map fst (l_nodes L))
  && forallb (fun kv => forallb (fun i => node_is (node_opt L i) (fst kv)) (snd kv)) (l_nodes L)
  && forallb (fun kv => match i_node (snd kv) with
                        | Some m => zmem (fst kv) (dget m (l_nodes L) [])
                        | None => true
                        end) (l_insts L).

(* ================================================================== distribution rules (commander.py) *)
(* A ProcessStartCommand as far as placement is concerned:
     c_proc     : process identity (reporting only),
     c_load     : process.rules.expected_load,
     c_stopped  : process.stopped(),
     c_target   : command.identifier,
     c_known    : keys of process.info_map (update_identifier reads info_map.get(identifier)['startsecs']),
     c_disabled : identifiers whose info_map entry has 'disabled' set. *)
Record cmd := mkCmd { c_proc : Z; c_load : Z; c_stopped : bool; c_target : option Z; c_known : list Z;
                      c_disabled : list Z }.

(* identifier in process.info_map and not process.disabled_on(identifier) *)
Definition eligible (c : cmd) (i : Z) : bool :=
  zmem i (c_known c) && negb (zmem i (c_known c) && zmem i (c_disabled c)).

(* the same command with another target *)
Definition retarget (c : cmd) (t : Z) : cmd :=
  mkCmd (c_proc c) (c_load c) (c_stopped c) (Some t) (c_known c) (c_disabled c).

(* ApplicationStartJobs as far as placement is concerned: current_jobs, planned_jobs flattened in dict order
   (sum(planned_jobs.values(), [])), identifiers *)
Record jobs := mkJobs { j_current : list cmd; j_planned : list cmd; j_identifiers : list Z }.

(* ApplicationStartJobs.get_load_requests *)
Definition load_requests (J : jobs) : alist Z :=
  fold_left (fun acc c =>
               match c_target c with
               | Some i => if c_stopped c then aset i (dget i acc 0 + c_load c) acc else acc
               | None => acc
               end)
            (j_current J ++ j_planned J) [].

(* ProcessStartCommand.update_identifier(identifier):
     instance_status = context.instances[identifier]          -> KeyError
     wait_ticks = process.info_map.get(identifier)['startsecs'] -> TypeError when the process is unknown there *)
Definition update_identifier (L : layout) (c : cmd) (i : option Z) : result cmd :=
  match i with
  | None => Crash KeyError           (* context.instances[None] *)
  | Some t =>
      if amem t (l_insts L)
      then if zmem t (c_known c)
           then Ok (retarget c t)
           else Crash TypeError
      else Crash KeyError
  end.

Fixpoint mapM {A B} (f : A -> result B) (l : list A) : result (list B) :=
  match l with
  | [] => Ok []
  | x :: r => bind (f x) (fun y => bind (mapM f r) (fun ys => Ok (y :: ys)))
  end.

(* distribute_to_single_instance. [app_ids] = application.possible_identifiers() (the application's identifiers
   rule, in declared order); [app_load] = application.get_start_sequence_expected_load(). *)
Definition distribute_to_single_instance (s : strategy) (local : Z) (L : layout) (app_ids : list Z)
           (app_load : Z) (J : jobs) : result jobs :=
  bind (get_supvisors_instance s local L app_ids app_load (load_requests J))
       (fun r => match r with
                 | Some t =>
                     bind (mapM (fun c => update_identifier L c (Some t)) (j_planned J))
                          (fun pl => Ok (mkJobs (j_current J) pl [t]))
                 | None => Ok J
                 end).

(* distribute_to_single_node. [app_ids] = application.possible_node_identifiers().
   For each command the candidates are the identifiers of the chosen node that know the program and have it enabled;
   update_identifier is called only when an identifier was found (otherwise the command keeps its target and will
   end with 'No resource available' when processed). *)
Definition place_among (s : strategy) (local : Z) (L : layout) (idents : list Z) (reqs : alist Z) (c : cmd)
  : result cmd :=
  bind (get_supvisors_instance s local L (filter (eligible c) idents) (c_load c) reqs)
       (fun r => match r with
                 | Some t => update_identifier L c (Some t)
                 | None => Ok c
                 end).

Definition distribute_to_single_node (s : strategy) (local : Z) (L : layout) (app_ids : list Z)
           (app_load : Z) (J : jobs) : result jobs :=
  let reqs := load_requests J in
  bind (get_node s local L app_ids app_load reqs)
       (fun mo =>
          let node_identifiers := match mo with Some m => dget m (l_nodes L) [] | None => [] end in
          let idents := filter (fun i => zmem i node_identifiers) app_ids in
          match idents with
          | [] => Ok (mkJobs (j_current J) (j_planned J) [])
          | _ =>
              (* load_request_map is computed once, before the loop *)
              bind (mapM (place_among s local L idents reqs) (j_planned J))
                   (fun pl => Ok (mkJobs (j_current J) pl idents))
          end).

(* ApplicationStartJobs.before *)
Definition before_start (d : distribution) (s : strategy) (local : Z) (L : layout) (app_ids : list Z)
           (app_load : Z) (J : jobs) : result jobs :=
  match d with
  | D_ALL_INSTANCES => Ok J
  | D_SINGLE_INSTANCE => distribute_to_single_instance s local L app_ids app_load J
  | D_SINGLE_NODE => distribute_to_single_node s local L app_ids app_load J
  end.

(* ApplicationStartJobs.on_command_added(command): [J] already contains the command (appended to planned_jobs
   by add_commands); returns the command as updated. *)
Definition on_command_added (d : distribution) (s : strategy) (local : Z) (L : layout) (J : jobs) (c : cmd)
  : result cmd :=
  match d with
  | D_ALL_INSTANCES => Ok c
  | _ =>
      match j_identifiers J with
      | [] => Ok c
      | _ =>
          place_among s local L (j_identifiers J) (load_requests J) c
      end
  end.

(* SupvisorsMapper.identify, as far as mapper.nodes is concerned: the identifier is appended to the list of its
   machine id unless it is already listed there (second handshake of the same instance). *)
Definition identify_nodes (nodes : alist (list Z)) (m i : Z) : alist (list Z) :=
  let l := dget m nodes [] in
  aset m (if zmem i l then l else l ++ [i]) nodes.

(* ================================================================== T3 cases and evaluators *)
Definition crash_result_eqb {A} (eqb : A -> A -> bool) (a b : result A) : bool :=
  match a, b with
  | Ok x, Ok y => eqb x y
  | Crash k1, Crash k2 => crash_eqb k1 k2
  | _, _ => false
  end.

Definition optz_eqb := option_eqb Z.eqb.

(* ---- suite 'strategy' : one call of get_supvisors_instance and of get_node on the same inputs *)
Record scase := mkSCase {
  sc_strategy : Z;            (* StartingStrategies value *)
  sc_local : Z;               (* mapper.local_identifier *)
  sc_layout : layout;
  sc_ids : list Z;            (* identifiers argument *)
  sc_expected : Z;
  sc_reqs : alist Z;          (* load_request_map *)
  sc_obs_inst : result (option Z);   (* observed get_supvisors_instance *)
  sc_obs_node : result (option Z)    (* observed get_node *)
}.

Definition scase_mismatch (c : scase) : bool :=
  match strategy_of_code (sc_strategy c) with
  | None => true
  | Some s =>
      negb (crash_result_eqb optz_eqb
              (get_supvisors_instance s (sc_local c) (sc_layout c) (sc_ids c) (sc_expected c) (sc_reqs c))
              (sc_obs_inst c))
      || negb (crash_result_eqb optz_eqb
                 (get_node s (sc_local c) (sc_layout c) (sc_ids c) (sc_expected c) (sc_reqs c))
                 (sc_obs_node c))
  end.

(* the specification (true node load reading) evaluated on the implementation's answer *)
Definition scase_spec_rejects (c : scase) : bool :=
  match strategy_of_code (sc_strategy c) with
  | None => false
  | Some s =>
      let L := sc_layout c in
      match sc_obs_inst c, sc_obs_node c with
      | Ok r, Ok n =>
          negb (spec_accepts (node_true_load L) s (sc_local c) L (sc_ids c) (sc_expected c) (sc_reqs c) r)
          || negb (optz_eqb n (match r with Some i => node_opt L i | None => None end))
      | _, _ => true     (* a well-formed call must not raise *)
      end
  end.

(* precondition of the specification: a well-formed layout whose node lists are consistent and duplicate free
   (that mapper.nodes is duplicate free is established on the real identify() by the suite 'identify' below). *)
Definition scase_spec_violation (c : scase) : bool :=
  layout_wf (sc_layout c) (sc_reqs c) && nodes_consistent (sc_layout c) && nodes_nodup (sc_layout c)
  && scase_spec_rejects c.

Definition s_mismatches (cs : list scase) : list nat := find_idx scase_mismatch cs.
Definition s_spec_violations (cs : list scase) : list nat := find_idx scase_spec_violation cs.

(* ---- suite 'distribute' : ApplicationStartJobs.before() / on_command_added on real jobs *)
Inductive dop :=
| DBefore                       (* ApplicationStartJobs.before() *)
| DAdded (c : cmd).             (* add one command to the planned jobs: on_command_added *)

(* observable: self.identifiers and command.identifier of every planned command (for DAdded: of the added one) *)
Definition dobs := (list Z * list (option Z))%type.

Record dcase := mkDCase {
  dc_dist : Z;                (* DistributionRules value *)
  dc_strategy : Z;
  dc_local : Z;
  dc_layout : layout;
  dc_app_ids : list Z;        (* application.possible_identifiers() / possible_node_identifiers() as observed *)
  dc_app_load : Z;            (* application.get_start_sequence_expected_load() as observed *)
  dc_jobs : jobs;
  dc_op : dop;
  dc_obs : result dobs
}.

Definition dobs_eqb (a b : dobs) : bool :=
  list_eqb Z.eqb (fst a) (fst b) && list_eqb optz_eqb (snd a) (snd b).

Definition dcase_model (d : distribution) (s : strategy) (c : dcase) : result dobs :=
  match dc_op c with
  | DBefore =>
      bind (before_start d s (dc_local c) (dc_layout c) (dc_app_ids c) (dc_app_load c) (dc_jobs c))
           (fun J => Ok (j_identifiers J, map c_target (j_planned J)))
  | DAdded k =>
      let J := dc_jobs c in
      let J' := mkJobs (j_current J) (j_planned J ++ [k]) (j_identifiers J) in
      bind (on_command_added d s (dc_local c) (dc_layout c) J' k)
           (fun k' => Ok (j_identifiers J, [c_target k']))
  end.

Definition dcase_mismatch (c : dcase) : bool :=
  match distribution_of_code (dc_dist c), strategy_of_code (dc_strategy c) with
  | Some d, Some s => negb (crash_result_eqb dobs_eqb (dcase_model d s c) (dc_obs c))
  | _, _ => true
  end.

(* Spec for the distribution rules, evaluated on the observed outcome (true node load reading):
   SINGLE_INSTANCE: either nothing is assigned and no instance can carry the whole sequence, or every command
     has the same target t, identifiers = [t], t is what the strategy picks among the application's
     identifiers for the whole application load, and every program is known and enabled on t;
   SINGLE_NODE: either identifiers = [] and nothing changed, or identifiers are application identifiers located
     on ONE node and each command is placed as [placed_ok] says: on the identifier the strategy picks, for that
     command's load, among the identifiers of that node that know the program and have it enabled — or nowhere
     when there is none (the command then ends with 'No resource available'). *)
Definition same_node (L : layout) (l : list Z) : bool :=
  match l with
  | [] => true
  | i :: r => match node_opt L i with
              | Some m => forallb (fun j => node_is (node_opt L j) m) r
              | None => false
              end
  end.

(* what the rule demands for one command placed among [idents] with the requests [reqs]:
   the target is what the strategy picks among the identifiers that know the program and have it enabled
   (hence it is eligible); when nobody qualifies the command keeps its target. *)
Definition placed_ok (nl : Z -> Z) (s : strategy) (local : Z) (L : layout) (idents : list Z) (reqs : alist Z)
           (c : cmd) (t : option Z) : bool :=
  let cands := filter (eligible c) idents in
  if spec_accepts nl s local L cands (c_load c) reqs None
  then optz_eqb t (c_target c)
  else match t with
       | Some i => eligible c i && zmem i idents && spec_accepts nl s local L cands (c_load c) reqs (Some i)
       | None => false
       end.

Definition dcase_spec_rejects (c : dcase) : bool :=
  match distribution_of_code (dc_dist c), strategy_of_code (dc_strategy c) with
  | Some d, Some s =>
      let L := dc_layout c in
      let J := dc_jobs c in
      let reqs := load_requests J in
      let nl := node_true_load L in
      match dc_op c, dc_obs c with
      | _, Crash _ => true          (* a well-formed start must not raise *)
      | DBefore, Ok (idents, targets) =>
          match d with
          | D_ALL_INSTANCES =>
              negb (list_eqb Z.eqb idents (j_identifiers J))
              || negb (list_eqb optz_eqb targets (map c_target (j_planned J)))
          | D_SINGLE_INSTANCE =>
              match idents with
              | [t] =>
                  negb (forallb (fun x => optz_eqb x (Some t)) targets)
                  || negb (Nat.eqb (length targets) (length (j_planned J)))
                  || negb (forallb (fun k => eligible k t) (j_planned J))
                  || negb (spec_accepts nl s (dc_local c) L (dc_app_ids c) (dc_app_load c) reqs (Some t))
              | _ =>
                  negb (list_eqb Z.eqb idents (j_identifiers J))
                  || negb (list_eqb optz_eqb targets (map c_target (j_planned J)))
                  || negb (spec_accepts nl s (dc_local c) L (dc_app_ids c) (dc_app_load c) reqs None)
              end
          | D_SINGLE_NODE =>
              match idents with
              | [] => negb (list_eqb optz_eqb targets (map c_target (j_planned J)))
              | _ =>
                  negb (forallb (fun i => zmem i (dc_app_ids c)) idents)
                  || negb (same_node L idents)
                  || negb (Nat.eqb (length targets) (length (j_planned J)))
                  || existsb (fun ct => negb (placed_ok nl s (dc_local c) L idents reqs (fst ct) (snd ct)))
                             (combine (j_planned J) targets)
              end
          end
      | DAdded k, Ok (idents, targets) =>
          let J' := mkJobs (j_current J) (j_planned J ++ [k]) (j_identifiers J) in
          negb (list_eqb Z.eqb idents (j_identifiers J))
          || match d, j_identifiers J, targets with
             | D_ALL_INSTANCES, _, [t] => negb (optz_eqb t (c_target k))
             | _, [], [t] => negb (optz_eqb t (c_target k))
             | _, _, [t] => negb (placed_ok nl s (dc_local c) L (j_identifiers J) (load_requests J') k t)
             | _, _, _ => true
             end
      end
  | _, _ => false
  end.

(* precondition: well-formed, consistent, duplicate-free layout; a job enters before() without identifiers *)
Definition dcase_wf (c : dcase) : bool :=
  let L := dc_layout c in
  let J := match dc_op c with
           | DBefore => dc_jobs c
           | DAdded k => mkJobs (j_current (dc_jobs c)) (j_planned (dc_jobs c) ++ [k]) (j_identifiers (dc_jobs c))
           end in
  layout_wf L (load_requests J) && nodes_consistent L && nodes_nodup L
  && match dc_op c with DBefore => match j_identifiers (dc_jobs c) with [] => true | _ => false end | DAdded _ => true end.

Definition dcase_spec_violation (c : dcase) : bool := dcase_wf c && dcase_spec_rejects c.

Definition d_mismatches (cs : list dcase) : list nat := find_idx dcase_mismatch cs.
Definition d_spec_violations (cs : list dcase) : list nat := find_idx dcase_spec_violation cs.

(* ---- suite 'identify' : handshakes on the real Context.on_identification_event / SupvisorsMapper.identify *)
(* One operation = one handshake of instance [h_inst] announcing machine id [h_node]; when [h_accepted] is false the
   identification event is older than the CHECKING date and is ignored by Context.on_identification_event.
   After the handshake the instance is RUNNING (it is lost and stopped first when it was RUNNING already). *)
Record hs := mkHs { h_inst : Z; h_node : Z; h_accepted : bool }.

(* per-instance local_view.machine_id (set by the FIRST accepted identification only) and mapper.nodes *)
Definition idstate := (alist Z * alist (list Z))%type.

Definition hs_step (st : idstate) (o : hs) : idstate :=
  if h_accepted o
  then (match aget (h_inst o) (fst st) with
        | Some _ => fst st
        | None => aset (h_inst o) (h_node o) (fst st)
        end,
        identify_nodes (snd st) (h_node o) (h_inst o))
  else st.

Definition hs_run (ops : list hs) : idstate := fold_left hs_step ops ([], []).

Record icase := mkICase {
  ic_ops : list hs;
  ic_insts : list (Z * Z);          (* all instances in mapper order with their load *)
  ic_strategy : Z;
  ic_ids : list Z;
  ic_expected : Z;
  ic_obs_nodes : alist (list Z);    (* observed mapper.nodes after the handshakes *)
  ic_obs_inst : result (option Z)   (* observed get_supvisors_instance on the resulting real state *)
}.

Definition ic_layout (c : icase) (nodes : alist (list Z)) : layout :=
  let views := fst (hs_run (ic_ops c)) in
  mkLayout (map (fun il => (fst il,
                            mkInst (if existsb (fun o => Z.eqb (h_inst o) (fst il)) (ic_ops c)
                                    then gen_SupvisorsInstanceStates_RUNNING
                                    else gen_SupvisorsInstanceStates_STOPPED)
                                   (aget (fst il) views) (snd il)))
                (ic_insts c))
           nodes.

Definition nodes_eqb (a b : alist (list Z)) : bool :=
  list_eqb (fun x y => Z.eqb (fst x) (fst y) && list_eqb Z.eqb (snd x) (snd y)) a b.

Definition icase_mismatch (c : icase) : bool :=
  let nodes := snd (hs_run (ic_ops c)) in
  negb (nodes_eqb nodes (ic_obs_nodes c))
  || match strategy_of_code (ic_strategy c) with
     | None => true
     | Some s => negb (crash_result_eqb optz_eqb
                         (get_supvisors_instance s 1 (ic_layout c nodes) (ic_ids c) (ic_expected c) [])
                         (ic_obs_inst c))
     end.

(* spec on the OBSERVED mapper.nodes: whatever the handshake history, no identifier is listed twice in a node
   (H_nodes_nodup holds of the real mapper), and when the node lists are consistent the answer obeys Spec_C14
   for the true node load *)
Definition icase_spec_violation (c : icase) : bool :=
  let L := ic_layout c (ic_obs_nodes c) in
  negb (nodes_nodup L)
  || (layout_wf L [] && nodes_consistent L
      && match strategy_of_code (ic_strategy c), ic_obs_inst c with
         | Some s, Ok r => negb (spec_accepts (node_true_load L) s 1 L (ic_ids c) (ic_expected c) [] r)
         | Some _, Crash _ => true
         | None, _ => false
         end).

Definition i_mismatches (cs : list icase) : list nat := find_idx icase_mismatch cs.
Definition i_spec_violations (cs : list icase) : list nat := find_idx icase_spec_violation cs.
