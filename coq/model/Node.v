(* Node.v — executable model of one Supvisors instance's control plane:
   instancestatus.py (SupvisorsInstanceStatus / SupvisorsTimes), statemodes.py (StateModes,
   SupvisorsStateModes), statemachine.py (the nine state classes, FiniteStateMachine),
   context.py (handshake, invalidation, origin filter), listener.py (read_publication / read_notification).
   The process plane is abstracted: per evaluation an oracle (starter busy, stopper busy, conflicting,
   pick) and abstract output tokens. Definitions only. *)
From Sup Require Export Base.
From Sup Require Import GenEnums GenNode.

(* ---------- enumerations (codes reflected from ttypes.py) ---------- *)
Inductive istate := ISTOPPED | CHECKING | CHECKED | IRUNNING | FAILED | ISOLATED.
Definition icode (s : istate) : Z :=
  match s with
  | ISTOPPED => gen_SupvisorsInstanceStates_STOPPED | CHECKING => gen_SupvisorsInstanceStates_CHECKING
  | CHECKED => gen_SupvisorsInstanceStates_CHECKED | IRUNNING => gen_SupvisorsInstanceStates_RUNNING
  | FAILED => gen_SupvisorsInstanceStates_FAILED | ISOLATED => gen_SupvisorsInstanceStates_ISOLATED
  end.
Definition istate_eqb (a b : istate) : bool :=
  match a, b with
  | ISTOPPED, ISTOPPED | CHECKING, CHECKING | CHECKED, CHECKED | IRUNNING, IRUNNING
  | FAILED, FAILED | ISOLATED, ISOLATED => true
  | _, _ => false
  end.

Inductive sstate := OFF | SYNCHRONIZATION | ELECTION | DISTRIBUTION | OPERATION | CONCILIATION
                  | RESTARTING | SHUTTING_DOWN | FINAL.
Definition scode (s : sstate) : Z :=
  match s with
  | OFF => gen_SupvisorsStates_OFF | SYNCHRONIZATION => gen_SupvisorsStates_SYNCHRONIZATION
  | ELECTION => gen_SupvisorsStates_ELECTION | DISTRIBUTION => gen_SupvisorsStates_DISTRIBUTION
  | OPERATION => gen_SupvisorsStates_OPERATION | CONCILIATION => gen_SupvisorsStates_CONCILIATION
  | RESTARTING => gen_SupvisorsStates_RESTARTING | SHUTTING_DOWN => gen_SupvisorsStates_SHUTTING_DOWN
  | FINAL => gen_SupvisorsStates_FINAL
  end.
Definition sstate_eqb (a b : sstate) : bool :=
  match a, b with
  | OFF, OFF | SYNCHRONIZATION, SYNCHRONIZATION | ELECTION, ELECTION | DISTRIBUTION, DISTRIBUTION
  | OPERATION, OPERATION | CONCILIATION, CONCILIATION | RESTARTING, RESTARTING
  | SHUTTING_DOWN, SHUTTING_DOWN | FINAL, FINAL => true
  | _, _ => false
  end.

(* `new in _Transitions[cur]` over the reflected tables *)
Definition table_allows (tbl : list (Z * list Z)) (cur new : Z) : bool :=
  match aget cur tbl with Some l => zmem new l | None => false end.
Definition inst_transition_ok (a b : istate) : bool := table_allows gen_inst_transitions (icode a) (icode b).
Definition fsm_transition_ok (a b : sstate) : bool := table_allows gen_fsm_transitions (scode a) (scode b).
Definition is_working (s : sstate) : bool := zmem (scode s) gen_WORKING_STATES.
Definition is_stable_istate (s : istate) : bool := zmem (icode s) gen_STABLE_STATES.

Inductive fstrategy := FS_CONTINUE | FS_RESYNC | FS_SHUTDOWN.

(* ---------- records ---------- *)
Record options := mkOpts {
  o_inactivity : Z; o_auto_fence : bool;
  o_strict : bool; o_list : bool; o_timeout : bool; o_core : bool; o_user : bool;
  o_synchro_timeout : Z; o_fstrategy : fstrategy
}.

(* SupvisorsInstanceStatus (state, times.remote/local counters, checking_time) *)
Record ist := mkIst { is_state : istate; is_remote_cnt : Z; is_local_cnt : Z; is_checking_time : Z }.

(* StateModes of one instance (own or view). master 0 stands for ''. *)
Record smodes := mkSm { sm_fsm : sstate; sm_degraded : bool; sm_master : Z; sm_insts : alist istate }.
Definition sm_fresh : smodes := mkSm OFF false 0 [].

Record node := mkNode {
  n_me : Z;
  n_opts : options;
  n_core : list Z;                  (* mapper.core_identifiers *)
  n_initial : list Z;               (* mapper.initial_identifiers *)
  n_nick : alist Z;                 (* rank of the nick identifier of each known instance (string order) *)
  n_insts : alist ist;              (* context.instances *)
  n_views : alist smodes;           (* state_modes.instance_state_modes (own entry included) *)
  n_stable : list Z;                (* state_modes.stable_identifiers *)
  n_mark : bool;                    (* state_modes.update_mark *)
  n_start_date : Z;                 (* context.start_date *)
  n_hosting : list Z                (* abstraction of the process plane: instances hosting a process that runs only there *)
}.

Inductive output :=
| Publish (fsm : Z) (degraded : bool) (master : Z) (insts : list (Z * Z))
| CheckInstance (j : Z)
| SendRestart | SendShutdown
| RestartAll (m : Z) | ShutdownAll (m : Z)
| AutoStart | AutoStopAll | Conciliate | FailureJob | AbortJobs
| JobsInvalidation (lost : list Z).

(* oracle consumed by one evaluation of `instance.next()` *)
Record oracle := mkOr { or_starting : bool; or_stopping : bool; or_conflict : bool; or_pick : Z }.

(* ---------- helpers on the node ---------- *)
Definition own (n : node) : smodes :=
  match aget (n_me n) (n_views n) with Some s => s | None => sm_fresh end.
Definition set_own (n : node) (s : smodes) : node :=
  mkNode (n_me n) (n_opts n) (n_core n) (n_initial n) (n_nick n) (n_insts n)
         (aset (n_me n) s (n_views n)) (n_stable n) (n_mark n) (n_start_date n) (n_hosting n).
Definition set_views (n : node) (v : alist smodes) : node :=
  mkNode (n_me n) (n_opts n) (n_core n) (n_initial n) (n_nick n) (n_insts n) v (n_stable n) (n_mark n)
         (n_start_date n) (n_hosting n).
Definition set_insts (n : node) (i : alist ist) : node :=
  mkNode (n_me n) (n_opts n) (n_core n) (n_initial n) (n_nick n) i (n_views n) (n_stable n) (n_mark n)
         (n_start_date n) (n_hosting n).
Definition set_mark (n : node) (b : bool) : node :=
  mkNode (n_me n) (n_opts n) (n_core n) (n_initial n) (n_nick n) (n_insts n) (n_views n) (n_stable n) b
         (n_start_date n) (n_hosting n).
Definition set_stable (n : node) (s : list Z) : node :=
  mkNode (n_me n) (n_opts n) (n_core n) (n_initial n) (n_nick n) (n_insts n) (n_views n) s (n_mark n)
         (n_start_date n) (n_hosting n).
Definition set_start_date (n : node) (t : Z) : node :=
  mkNode (n_me n) (n_opts n) (n_core n) (n_initial n) (n_nick n) (n_insts n) (n_views n) (n_stable n) (n_mark n)
         t (n_hosting n).
Definition set_hosting (n : node) (h : list Z) : node :=
  mkNode (n_me n) (n_opts n) (n_core n) (n_initial n) (n_nick n) (n_insts n) (n_views n) (n_stable n) (n_mark n)
         (n_start_date n) h.

Definition master (n : node) : Z := sm_master (own n).
Definition fsm_state (n : node) : sstate := sm_fsm (own n).
Definition is_master (n : node) : bool := Z.eqb (master n) (n_me n).
(* master_state : Optional[SupvisorsStates] *)
Definition master_state (n : node) : option sstate :=
  match aget (master n) (n_views n) with Some s => Some (sm_fsm s) | None => None end.
Definition inst_state (n : node) (j : Z) : option istate :=
  match aget j (n_insts n) with Some s => Some (is_state s) | None => None end.

Definition publish (n : node) : output :=
  let s := own n in
  Publish (scode (sm_fsm s)) (sm_degraded s) (sm_master s) (map (fun kv => (fst kv, icode (snd kv))) (sm_insts s)).

(* SupvisorsStateModes.master_identifier setter: publish on change *)
Definition set_master (n : node) (m : Z) : node * list output :=
  if Z.eqb (master n) m then (n, [])
  else let s := own n in
       let n' := set_own n (mkSm (sm_fsm s) (sm_degraded s) m (sm_insts s)) in
       (n', [publish n']).
(* degraded_mode setter *)
Definition set_degraded (n : node) (b : bool) : node * list output :=
  if Bool.eqb (sm_degraded (own n)) b then (n, [])
  else let s := own n in
       let n' := set_own n (mkSm (sm_fsm s) b (sm_master s) (sm_insts s)) in
       (n', [publish n']).
(* state setter *)
Definition set_fsm (n : node) (st : sstate) : node * list output :=
  if sstate_eqb (fsm_state n) st then (n, [])
  else let s := own n in
       let n' := set_own n (mkSm st (sm_degraded s) (sm_master s) (sm_insts s)) in
       (n', [publish n']).

(* SupvisorsStateModes.update_instance_state *)
Definition update_instance_state (n : node) (j : Z) (st : istate) : node * list output :=
  let s := own n in
  let n1 := set_own n (mkSm (sm_fsm s) (sm_degraded s) (sm_master s) (aset j st (sm_insts s))) in
  let n2 := match st with
            | ISTOPPED | ISOLATED =>
                if Z.eqb j (n_me n) then n1
                else if amem j (n_views n1) then set_views n1 (aset j sm_fresh (n_views n1))
                else n1   (* KeyError in Python: cannot happen, instances and views have the same keys *)
            | _ => n1
            end in
  if negb (istate_eqb st IRUNNING) && Z.eqb j (master n2)
  then set_master n2 0
  else (set_mark n2 true, []).

(* SupvisorsInstanceStatus.state setter *)
Definition set_inst_state (n : node) (j : Z) (st : istate) (now : Z) : result (node * list output) :=
  match aget j (n_insts n) with
  | None => Crash KeyError
  | Some s =>
      if istate_eqb (is_state s) st then Ok (n, [])
      else if inst_transition_ok (is_state s) st then
        let s' := mkIst st (is_remote_cnt s) (is_local_cnt s)
                        (match st with CHECKING => now | _ => is_checking_time s end) in
        let n1 := set_insts n (aset j s' (n_insts n)) in
        Ok (update_instance_state n1 j st)
      else Crash InvalidTransition
  end.

(* SupvisorsTimes.update : only the counters matter *)
Definition update_tick (s : ist) (remote_cnt local_cnt : Z) : ist :=
  let local0 := if Z.ltb local_cnt 0 then remote_cnt else local_cnt in
  let local1 := if Z.ltb remote_cnt (is_remote_cnt s) then 0 else local0 in
  mkIst (is_state s) remote_cnt local1 (is_checking_time s).

Definition has_active_state (s : istate) : bool :=
  match s with CHECKING | CHECKED | IRUNNING | FAILED => true | _ => false end.
(* SupvisorsInstanceStatus.is_inactive *)
Definition is_inactive (n : node) (s : ist) (local_cnt : Z) : bool :=
  has_active_state (is_state s) && Z.ltb (o_inactivity (n_opts n)) (local_cnt - is_local_cnt s).
Definition is_checking (s : ist) (ts : Z) : bool :=
  istate_eqb (is_state s) CHECKING && Z.ltb (is_checking_time s) ts.

(* fold a node-transforming action over a list of identifiers, accumulating outputs *)
Fixpoint fold_ids (f : node -> Z -> result (node * list output)) (ids : list Z) (n : node) (acc : list output)
  : result (node * list output) :=
  match ids with
  | [] => Ok (n, acc)
  | j :: r => match f n j with
              | Ok (n', o) => fold_ids f r n' (acc ++ o)
              | Crash k => Crash k
              end
  end.

(* Context.on_timer_event *)
Definition on_timer (n : node) (cnt now : Z) : result (node * list output) :=
  fold_ids (fun n j => match aget j (n_insts n) with
                       | Some s => if is_inactive n s cnt then set_inst_state n j FAILED now else Ok (n, [])
                       | None => Ok (n, [])
                       end) (akeys (n_insts n)) n [].

(* Context.invalidate *)
Definition invalidate (n : node) (j : Z) (fence : bool) (now : Z) : result (node * list output) :=
  if Z.eqb j (n_me n) then set_inst_state n j ISTOPPED now
  else if fence || (o_auto_fence (n_opts n)
                    && match master_state n with Some ms => is_working ms | None => false end)
  then set_inst_state n j ISOLATED now
  else set_inst_state n j ISTOPPED now.

(* Context.invalidate_failed : returns lost instances and whether some process is lost *)
Fixpoint invalidate_failed_aux (ids : list Z) (n : node) (acc : list output) (lost : list Z) (lostp : bool) (now : Z)
  : result (node * list output * list Z * bool) :=
  match ids with
  | [] => Ok (n, acc, lost, lostp)
  | j :: r =>
      match inst_state n j with
      | Some FAILED =>
          match invalidate n j false now with
          | Ok (n', o) =>
              let hp := zmem j (n_hosting n') in
              invalidate_failed_aux r (set_hosting n' (zdiscard j (n_hosting n'))) (acc ++ o) (lost ++ [j])
                                    (lostp || hp) now
          | Crash k => Crash k
          end
      | _ => invalidate_failed_aux r n acc lost lostp now
      end
  end.
Definition invalidate_failed (n : node) (now : Z) := invalidate_failed_aux (akeys (n_insts n)) n [] [] false now.

(* Context.activate_checked *)
Fixpoint activate_checked_aux (ids : list Z) (n : node) (acc : list output) (act : list Z) (now : Z)
  : result (node * list output * list Z) :=
  match ids with
  | [] => Ok (n, acc, act)
  | j :: r =>
      match inst_state n j with
      | Some CHECKED =>
          match set_inst_state n j IRUNNING now with
          | Ok (n', o) => activate_checked_aux r n' (acc ++ o) (act ++ [j]) now
          | Crash k => Crash k
          end
      | _ => activate_checked_aux r n acc act now
      end
  end.
Definition activate_checked (n : node) (now : Z) := activate_checked_aux (akeys (n_insts n)) n [] [] now.

(* ---------- StateModes / stability / master selection ---------- *)
Definition sees_running (n : node) (j : Z) : bool :=
  match aget j (sm_insts (own n)) with Some IRUNNING => true | _ => false end.

(* StateModes.get_stable_running_identifiers *)
Fixpoint stable_running (l : alist istate) (acc : list Z) : list Z :=
  match l with
  | [] => acc
  | (j, st) :: r => if is_stable_istate st
                    then stable_running r (if istate_eqb st IRUNNING then zadd j acc else acc)
                    else []
  end.

Definition zset_eq (a b : list Z) : bool := forallb (fun x => zmem x b) a && forallb (fun x => zmem x a) b.

(* views of the instances seen RUNNING, in instance_state_modes order; KeyError if one is not in instance_states *)
Fixpoint running_views (n : node) (l : alist smodes) : result (list (Z * smodes)) :=
  match l with
  | [] => Ok []
  | (j, s) :: r =>
      match aget j (sm_insts (own n)) with
      | None => Crash KeyError
      | Some st => bind (running_views n r) (fun t => Ok (if istate_eqb st IRUNNING then (j, s) :: t else t))
      end
  end.

(* SupvisorsStateModes.evaluate_stability *)
Definition evaluate_stability (n : node) : result node :=
  bind (running_views n (n_views n)) (fun rv =>
    let sets := map (fun js => stable_running (sm_insts (snd js)) []) rv in
    match sets with
    | [] => Ok (set_stable n [])
    | s0 :: _ => if forallb (fun s => zset_eq s s0) sets then Ok (set_stable n s0) else Ok (set_stable n [])
    end).

Definition is_stable (n : node) : bool := match n_stable n with [] => false | _ => true end.

(* get_master_identifiers : set of masters declared by instances seen RUNNING (0 = '') *)
Definition master_identifiers (n : node) : result (list Z) :=
  bind (running_views n (n_views n)) (fun rv =>
    Ok (fold_left (fun acc js => zadd (sm_master (snd js)) acc) rv [])).

(* check_master *)
Definition check_master (n : node) : result bool :=
  bind (master_identifiers n) (fun ms =>
    Ok (negb (zmem 0 ms) && negb (Nat.ltb 1 (length ms)))).

Definition nick_rank (n : node) (j : Z) : result Z :=
  match aget j (n_nick n) with Some r => Ok r | None => Crash KeyError end.

(* min(candidates, key=nick) with KeyError on an unknown instance, ValueError on no candidate.
   Candidates is a set or a list without ties on the key (nick identifiers are unique). *)
Fixpoint min_nick (n : node) (cands : list Z) (best : option (Z * Z)) : result (option (Z * Z)) :=
  match cands with
  | [] => Ok best
  | c :: r =>
      match nick_rank n c with
      | Crash k => Crash k
      | Ok rk =>
          match best with
          | None => min_nick n r (Some (c, rk))
          | Some (b, brk) => if Z.ltb rk brk then min_nick n r (Some (c, rk)) else min_nick n r best
          end
      end
  end.

(* select_master *)
Definition select_master (n : node) : result (node * list output) :=
  bind (master_identifiers n) (fun ms =>
    let declared := filter (fun m => amem m (n_insts n)) ms in   (* known identifiers only; '' is never one *)
    let all := match declared with
               | [] => map fst (filter (fun kv => istate_eqb (snd kv) IRUNNING) (sm_insts (own n)))
               | _ => declared
               end in
    let core := filter (fun c => zmem c all) (n_core n) in
    let cands := match core with [] => all | _ => core end in
    bind (min_nick n cands None) (fun best =>
      match best with
      | None => Crash ValueError
      | Some (m, _) => Ok (set_master n m)
      end)).

(* accept_master : next(iter(masters)) — set iteration order is not modelled: a singleton is taken,
   otherwise the oracle's pick is used when it is a member (else the first) *)
Definition accept_master (n : node) (pick : Z) : result (node * list output) :=
  bind (master_identifiers n) (fun ms =>
    match zdiscard 0 ms with
    | [] => Ok (n, [])
    | [m] => Ok (set_master n m)
    | m :: r => Ok (set_master n (if zmem pick (m :: r) then pick else m))
    end).

Definition subset (a b : list Z) : bool := forallb (fun x => zmem x b) a.
Definition initial_running (n : node) : bool :=
  match n_initial n with [] => false | l => subset l (n_stable n) end.
Definition core_running (n : node) : bool :=
  match n_core n with [] => false | l => subset l (n_stable n) end.
Definition all_running (n : node) : bool := Nat.eqb (length (n_stable n)) (length (n_views n)).

(* Optional[bool] results of the _check_*_failure methods *)
Definition strict_failure (n : node) : option bool :=
  if o_strict (n_opts n) then Some (negb (initial_running n)) else None.
Definition list_failure (n : node) : option bool :=
  if o_list (n_opts n) then Some (negb (all_running n)) else None.
Definition core_failure (n : node) : option bool :=
  if o_core (n_opts n) then Some (negb (core_running n)) else None.
Definition user_failure (n : node) (lost : list Z) : option bool :=
  if o_user (n_opts n) then Some (match lost with [] => false | _ => true end) else None.

Definition is_true (o : option bool) : bool := match o with Some true => true | _ => false end.
Definition is_false (o : option bool) : bool := match o with Some false => true | _ => false end.

(* _SynchronizedState._check_failure_strategy *)
Definition check_failure_strategy (n : node) (lost : list Z) : node * list output * option sstate :=
  let uf := user_failure n lost in
  let cf := core_failure n in
  let sf := strict_failure n in
  let lf := list_failure n in
  let '(n1, o1) := set_degraded n (is_true sf || is_true lf || is_true cf) in
  let gf := match uf with Some b => b | None =>
            match cf with Some b => b | None =>
            match sf with Some b => b | None =>
            match lf with Some b => b | None => false end end end end in
  let ns := if gf then match o_fstrategy (n_opts n) with
                       | FS_RESYNC => Some SYNCHRONIZATION
                       | FS_SHUTDOWN => Some SHUTTING_DOWN
                       | FS_CONTINUE => None
                       end
            else None in
  (n1, o1, ns).

Definition local_running (n : node) : bool :=
  match inst_state n (n_me n) with Some IRUNNING => true | _ => false end.

(* result of one evaluation of instance.next(): new node, outputs, decision (None = Python None) *)
Definition eval := result (node * list output * option sstate).

(* _SupvisorsBaseState._check_instances with the three _activate_instances variants *)
Inductive act_kind := ActBase | ActWorking | ActNone.
Definition act_of (s : sstate) : act_kind :=
  match s with
  | DISTRIBUTION => ActNone
  | OPERATION | CONCILIATION => ActWorking
  | _ => ActBase
  end.

Definition check_instances (n : node) (now : Z)
  : result (node * list output * list Z * bool * option sstate) :=
  match invalidate_failed n now with
  | Crash k => Crash k
  | Ok (n1, o1, lost, lostp) =>
      match act_of (fsm_state n) with
      | ActNone => Ok (n1, o1, lost, lostp, None)
      | k =>
          match activate_checked n1 now with
          | Crash c => Crash c
          | Ok (n2, o2, act) =>
              let dec := match k, act with ActWorking, _ :: _ => Some ELECTION | _, _ => None end in
              Ok (n2, o1 ++ o2, lost, lostp, dec)
          end
      end
  end.

(* _check_consistence for each state class *)
Definition on_consistence (n : node) : option sstate := if local_running n then None else Some OFF.

Definition sync_consistence (n : node) (lost : list Z) : node * list output * option sstate :=
  match on_consistence n with
  | Some s => (n, [], Some s)
  | None => check_failure_strategy n lost
  end.

Definition ms_consistence (n : node) (lost : list Z) : result (node * list output * option sstate) :=
  let '(n1, o1, d) := sync_consistence n lost in
  match d with
  | Some s => Ok (n1, o1, Some s)
  | None => bind (check_master n1) (fun ok => Ok (n1, o1, if ok then None else Some ELECTION))
  end.

(* _common_next of _MasterSlaveState / _WorkingState: the Starter and the Stopper are given THE set of lost processes
   that _master_next iterates afterwards, and Commander.on_instances_invalidation removes IN PLACE the processes whose
   start / stop was pending on a lost instance. Abstraction of the process plane: when the Starter is busy at this
   evaluation (oracle), the start of every lost process was pending there and the set is emptied; otherwise it is left
   untouched (the Stopper never removes anything here). Only called when some instance is lost. *)
Definition starter_filter (lost : list Z) (lostp : bool) (orc : oracle) : bool :=
  match lost with [] => lostp | _ => lostp && negb (or_starting orc) end.

(* the slave decision of the ending states *)
Definition ending_slave_next (n : node) (me_state : sstate) : sstate :=
  match master_state n with
  | Some ms => if sstate_eqb ms me_state then me_state else FINAL
  | None => FINAL
  end.

Definition opt_sstate (o : option sstate) : option sstate := o.

(* one evaluation of self.instance.next() in the current state *)
Definition fsm_next (n : node) (orc : oracle) (now : Z) : eval :=
  let st := fsm_state n in
  match check_instances n now with
  | Crash k => Crash k
  | Ok (n1, o1, lost, lostp, Some d) => Ok (n1, o1, Some d)
  | Ok (n1, o1, lost, lostp, None) =>
      match evaluate_stability n1 with
      | Crash k => Crash k
      | Ok n2 =>
          match st with
          | OFF => Ok (n2, o1, Some (if local_running n2 then SYNCHRONIZATION else OFF))
          | FINAL => Ok (n2, o1, None)
          | SYNCHRONIZATION =>
              match on_consistence n2 with
              | Some d => Ok (n2, o1, Some d)
              | None =>
                  let uptime := now - n_start_date n2 in
                  let strict_sync := match strict_failure n2 with Some f => Some (negb f) | None => None end in
                  let list_sync := match list_failure n2 with Some f => Some (negb f) | None => None end in
                  let timeout_sync := if o_timeout (n_opts n2)
                                      then Some (Z.leb (o_synchro_timeout (n_opts n2)) uptime) else None in
                  let core_sync := match core_failure n2 with
                                   | Some false => Some (Z.leb gen_SYNCHRO_TIMEOUT_MIN uptime)
                                   | Some true => Some false
                                   | None => None
                                   end in
                  let user_step : result (node * list output * option bool) :=
                    if o_user (n_opts n2) then
                      match accept_master n2 (or_pick orc) with
                      | Crash k => Crash k
                      | Ok (n3, o3) =>
                          if Z.eqb (master n3) 0 then Ok (n3, o3, Some false)
                          else match inst_state n3 (master n3) with
                               | None => Ok (n3, o3, Some false)     (* Master unknown locally *)
                               | Some s => Ok (n3, o3, Some (istate_eqb s IRUNNING))
                               end
                      end
                    else Ok (n2, [], None) in
                  match user_step with
                  | Crash k => Crash k
                  | Ok (n3, o3, user_sync) =>
                      let '(n4, o4) := set_degraded n3 (is_false strict_sync || is_false list_sync || is_false core_sync) in
                      let go := is_true strict_sync || is_true list_sync || is_true timeout_sync
                                || is_true core_sync || is_true user_sync in
                      Ok (n4, o1 ++ o3 ++ o4, Some (if go then ELECTION else SYNCHRONIZATION))
                  end
              end
          | ELECTION =>
              let '(n3, o3, d) := sync_consistence n2 lost in
              match d with
              | Some s => Ok (n3, o1 ++ o3, Some s)
              | None =>
                  if is_stable n3 then
                    match check_master n3 with
                    | Crash k => Crash k
                    | Ok true =>
                        if is_master n3 then Ok (n3, o1 ++ o3, Some DISTRIBUTION)
                        else match master_state n3 with
                             | Some DISTRIBUTION | Some OPERATION | Some CONCILIATION =>
                                 (* the Master may already be beyond DISTRIBUTION *)
                                 Ok (n3, o1 ++ o3, Some DISTRIBUTION)
                             | _ => bind (select_master n3) (fun r => Ok (fst r, o1 ++ o3 ++ snd r, Some ELECTION))
                             end
                    | Ok false => bind (select_master n3) (fun r => Ok (fst r, o1 ++ o3 ++ snd r, Some ELECTION))
                    end
                  else Ok (n3, o1 ++ o3, Some ELECTION)
              end
          | RESTARTING | SHUTTING_DOWN =>
              match ms_consistence n2 lost with
              | Crash k => Crash k
              | Ok (n3, o3, Some _) => Ok (n3, o1 ++ o3, Some FINAL)
              | Ok (n3, o3, None) =>
                  (* _common_next: the lost processes are filtered as well (starter_filter), but the ending states
                     never read them afterwards *)
                  let oc := match lost with [] => [] | _ => [JobsInvalidation lost] end in
                  if is_master n3
                  then Ok (n3, o1 ++ o3 ++ oc, Some (if or_stopping orc then st else FINAL))
                  else Ok (n3, o1 ++ o3 ++ oc, Some (ending_slave_next n3 st))
              end
          | DISTRIBUTION | OPERATION | CONCILIATION =>
              match ms_consistence n2 lost with
              | Crash k => Crash k
              | Ok (n3, o3, Some d) => Ok (n3, o1 ++ o3, Some d)
              | Ok (n3, o3, None) =>
                  let oc := match lost with [] => [] | _ => [JobsInvalidation lost] end in
                  if is_master n3 then
                    (* _master_next feeds the failure handler with what the Starter left in the set *)
                    let ofail := if starter_filter lost lostp orc then [FailureJob] else [] in
                    match st with
                    | DISTRIBUTION =>
                        Ok (n3, o1 ++ o3 ++ oc ++ ofail, Some (if or_starting orc then DISTRIBUTION else OPERATION))
                    | OPERATION =>
                        Ok (n3, o1 ++ o3 ++ oc ++ ofail,
                            Some (if or_starting orc || or_stopping orc then OPERATION
                                  else if or_conflict orc then CONCILIATION else OPERATION))
                    | _ =>
                        if or_starting orc || or_stopping orc then Ok (n3, o1 ++ o3 ++ oc ++ ofail, Some CONCILIATION)
                        else if negb (or_conflict orc) then Ok (n3, o1 ++ o3 ++ oc ++ ofail, Some OPERATION)
                        else Ok (n3, o1 ++ o3 ++ oc ++ ofail ++ [Conciliate], Some CONCILIATION)
                    end
                  else Ok (n3, o1 ++ o3 ++ oc, master_state n3)
              end
          end
      end
  end.

(* exit / enter actions *)
Definition exit_outputs (st : sstate) : list output :=
  match st with RESTARTING => [SendRestart] | SHUTTING_DOWN => [SendShutdown] | _ => [] end.

Definition enter_state (n : node) (st : sstate) (now : Z) : node * list output :=
  match st with
  | OFF => (set_start_date n now, [])
  | SYNCHRONIZATION | ELECTION => (n, [AbortJobs])
  | DISTRIBUTION => (n, if is_master n then [AutoStart] else [])
  | CONCILIATION => (n, if is_master n then [Conciliate] else [])
  | RESTARTING | SHUTTING_DOWN => (n, if is_master n then [AbortJobs; AutoStopAll] else [AbortJobs])
  | _ => (n, [])
  end.

(* FiniteStateMachine.set_state : the while loop. One oracle per re-evaluation of instance.next(); when the
   oracle list runs short its last element is reused (as the driver's stubs do). Explicit fuel: the Python
   loop has no bound of its own; Crash OutOfFuel stands for "does not terminate within `fuel` transitions"
   (termination is a proof obligation, see proofs/NodeProofs.v). *)
Definition next_orcs (orcs : list oracle) : oracle * list oracle :=
  match orcs with
  | [] => (mkOr false false false 0, [])
  | [o] => (o, [o])
  | o :: r => (o, r)
  end.

Fixpoint set_state (fuel : nat) (n : node) (next : option sstate) (orcs : list oracle) (now : Z) (acc : list output)
  : result (node * list output) :=
  match next with
  | None => Ok (n, acc)
  | Some ns =>
      if sstate_eqb ns (fsm_state n) then Ok (n, acc)
      else if negb (fsm_transition_ok (fsm_state n) ns) then Ok (n, acc)   (* critical log, break *)
      else
        match fuel with
        | O => Crash OutOfFuel
        | S fuel' =>
            let o_exit := exit_outputs (fsm_state n) in
            let '(n1, o1) := set_fsm n ns in
            let '(n2, o2) := enter_state n1 ns now in
            let '(orc, rest) := next_orcs orcs in
            match fsm_next n2 orc now with
            | Crash k => Crash k
            | Ok (n3, o3, d) => set_state fuel' n3 d rest now (acc ++ o_exit ++ o1 ++ o2 ++ o3)
            end
        end
  end.

Definition loop_fuel : nat := 40.

(* FiniteStateMachine.next *)
Definition fsm_run (n : node) (orcs : list oracle) (now : Z) : result (node * list output) :=
  let '(orc, rest) := next_orcs orcs in
  match fsm_next n orc now with
  | Crash k => Crash k
  | Ok (n1, o1, d) => set_state loop_fuel n1 d rest now o1
  end.

(* ---------- events ---------- *)
(* claimed origin of a message: identifier index resolved by mapper.filter([identifier, nick]) : Some j when
   exactly one known instance matches, and whether (ip, port) fit — both computed by the driver's front end
   from the raw strings with the real mapper; the model receives the resolution result *)
Record origin := mkOrigin { og_resolved : option Z; og_addr_ok : bool }.

Inductive auth := A_UNKNOWN | A_AUTHORIZED | A_NOT_AUTHORIZED | A_INCONSISTENT.

Inductive pcrash_strategy := RF_CONTINUE | RF_RESTART_PROCESS | RF_STOP_APPLICATION | RF_RESTART_APPLICATION
                           | RF_SHUTDOWN | RF_RESTART.

Inductive event :=
| LocalTick (cnt now : Z) (orcs : list oracle)
| PeerTick (og : origin) (cnt now : Z)
| PeerState (og : origin) (st : sstate) (degraded : bool) (m : Z) (insts : list (Z * istate)) (now : Z) (orcs : list oracle)
| Ident (payload : option (Z * Z))                       (* (identifier index or unknown, timestamp) *)
| Auth (og : origin) (a : auth) (ts now : Z)
| AllInfo (og : origin) (info : option bool) (now : Z)   (* None = failed RPC; Some b = b: a process runs only there *)
| InstFailure (og : origin) (now : Z)
| ProcCrash (strat : pcrash_strategy) (forced : bool) (now : Z) (orcs : list oracle)
| ReqRestart (now : Z) (orcs : list oracle)
| ReqShutdown (now : Z) (orcs : list oracle)
| ReqEndSync (m : Z) (now : Z) (orcs : list oracle).

(* Context.is_valid *)
Definition resolve (n : node) (og : origin) : option Z :=
  match og_resolved og with
  | Some j => match inst_state n j with
              | Some ISOLATED => None
              | Some _ => if og_addr_ok og then Some j else None
              | None => None
              end
  | None => None
  end.

Definition local_checked_or_running (n : node) : bool :=
  match inst_state n (n_me n) with Some CHECKED | Some IRUNNING => true | _ => false end.

Definition local_cnt (n : node) : Z :=
  match aget (n_me n) (n_insts n) with Some s => is_remote_cnt s | None => 0 end.

(* on_restart / on_shutdown *)
Definition on_ending (n : node) (target : sstate) (orcs : list oracle) (now : Z) (err : crash)
  : result (node * list output) :=
  if is_master n then set_state loop_fuel n (Some target) orcs now []
  else if negb (Z.eqb (master n) 0)
       then Ok (n, [match target with RESTARTING => RestartAll (master n) | _ => ShutdownAll (master n) end])
       else Crash err.

Definition step (n : node) (e : event) : result (node * list output) :=
  match e with
  | LocalTick cnt now orcs =>
      (* Context.on_local_tick_event *)
      match aget (n_me n) (n_insts n) with
      | None => Crash KeyError
      | Some s =>
          let n1 := set_insts n (aset (n_me n) (update_tick s cnt (-1)) (n_insts n)) in
          match (if istate_eqb (is_state s) ISTOPPED
                 then bind (set_inst_state n1 (n_me n) CHECKING now) (fun r => Ok (fst r, snd r ++ [CheckInstance (n_me n)]))
                 else Ok (n1, [])) with
          | Crash k => Crash k
          | Ok (n2, o2) =>
              (* FiniteStateMachine.on_timer_event *)
              match on_timer n2 cnt now with
              | Crash k => Crash k
              | Ok (n3, o3) =>
                  let '(n4, o4) := if n_mark n3 then (set_mark n3 false, [publish n3]) else (n3, []) in
                  bind (fsm_run n4 orcs now) (fun r => Ok (fst r, o2 ++ o3 ++ o4 ++ snd r))
              end
          end
      end
  | PeerTick og cnt now =>
      match resolve n og with
      | None => Ok (n, [])
      | Some j =>
          if local_checked_or_running n then
            match aget j (n_insts n) with
            | None => Crash KeyError
            | Some s =>
                let n1 := set_insts n (aset j (update_tick s cnt (local_cnt n)) (n_insts n)) in
                if istate_eqb (is_state s) ISTOPPED
                then bind (set_inst_state n1 j CHECKING now) (fun r => Ok (fst r, snd r ++ [CheckInstance j]))
                else Ok (n1, [])
            end
          else Ok (n, [])
      end
  | PeerState og st dg m insts now orcs =>
      match resolve n og with
      | None => Ok (n, [])
      | Some j =>
          let n1 := if Z.eqb j (n_me n) then n
                    else set_views n (aset j (mkSm st dg m insts) (n_views n)) in
          if Z.eqb j (master n1) then fsm_run n1 orcs now else Ok (n1, [])
      end
  | Ident _ => Ok (n, [])          (* empty / unknown payloads ignored; mapper.identify: network data only *)
  | Auth og a ts now =>
      match resolve n og with
      | None => Ok (n, [])
      | Some j =>
          match aget j (n_insts n) with
          | None => Crash KeyError
          | Some s =>
              if is_checking s ts then
                match a with
                | A_UNKNOWN => set_inst_state n j ISTOPPED now
                | A_NOT_AUTHORIZED | A_INCONSISTENT => invalidate n j true now
                | A_AUTHORIZED => set_inst_state n j CHECKED now
                end
              else Ok (n, [])
          end
      end
  | AllInfo og info now =>
      match resolve n og with
      | None => Ok (n, [])
      | Some j =>
          match info with
          | None => set_inst_state n j ISTOPPED now
          | Some b =>
              match inst_state n j with
              | Some CHECKING => Ok (if b then set_hosting n (zadd j (n_hosting n)) else n, [])
              | _ => Ok (n, [])
              end
          end
      end
  | InstFailure og now =>
      match resolve n og with
      | None => Ok (n, [])
      | Some j =>
          match inst_state n j with
          | Some s => if has_active_state s then set_inst_state n j FAILED now else Ok (n, [])
          | None => Ok (n, [])
          end
      end
  | ProcCrash strat forced now orcs =>
      if is_master n then
        match strat with
        | RF_RESTART => on_ending n RESTARTING orcs now OtherError
        | RF_SHUTDOWN => on_ending n SHUTTING_DOWN orcs now ValueError
        | RF_STOP_APPLICATION | RF_RESTART_APPLICATION => Ok (n, if forced then [] else [FailureJob])
        | _ => Ok (n, [])
        end
      else Ok (n, [])
  | ReqRestart now orcs => on_ending n RESTARTING orcs now OtherError
  | ReqShutdown now orcs => on_ending n SHUTTING_DOWN orcs now ValueError
  | ReqEndSync m now orcs =>
      let r := if Z.eqb m 0 then select_master n else Ok (set_master n m) in
      match r with
      | Crash k => Crash k
      | Ok (n1, o1) => bind (fsm_run n1 orcs now) (fun r2 => Ok (fst r2, o1 ++ snd r2))
      end
  end.

(* ---------- observable ---------- *)
(* own state-modes (fsm, degraded, master, instance states), the FSM state of the Master as viewed locally (-1 when
   there is no view), per instance (id, state, remote cnt, local cnt, checking time), sorted stable identifiers,
   outputs of the step *)
Definition nobs := (Z * bool * Z * list (Z * Z) * Z * list (Z * Z * Z * Z * Z) * list Z * list output)%type.

Definition observe (n : node) (outs : list output) : nobs :=
  let s := own n in
  (scode (sm_fsm s), sm_degraded s, sm_master s, map (fun kv => (fst kv, icode (snd kv))) (sm_insts s),
   match master_state n with Some ms => scode ms | None => -1 end,
   map (fun kv => (fst kv, icode (is_state (snd kv)), is_remote_cnt (snd kv), is_local_cnt (snd kv),
                   is_checking_time (snd kv))) (n_insts n),
   zsort (n_stable n), outs).

Inductive obs := NOk (o : nobs) | NCrash (k : crash).

Fixpoint run (n : node) (evs : list event) : list obs :=
  match evs with
  | [] => []
  | e :: r => match step n e with
              | Ok (n', outs) => NOk (observe n' outs) :: run n' r
              | Crash k => [NCrash k]
              end
  end.

Definition zz_eqb (a b : Z * Z) : bool := Z.eqb (fst a) (fst b) && Z.eqb (snd a) (snd b).
Definition z5_eqb (a b : Z * Z * Z * Z * Z) : bool :=
  match a, b with (a1, a2, a3, a4, a5), (b1, b2, b3, b4, b5) =>
    Z.eqb a1 b1 && Z.eqb a2 b2 && Z.eqb a3 b3 && Z.eqb a4 b4 && Z.eqb a5 b5 end.

Definition output_eqb (a b : output) : bool :=
  match a, b with
  | Publish f1 d1 m1 i1, Publish f2 d2 m2 i2 => Z.eqb f1 f2 && Bool.eqb d1 d2 && Z.eqb m1 m2 && list_eqb zz_eqb i1 i2
  | CheckInstance x, CheckInstance y => Z.eqb x y
  | SendRestart, SendRestart | SendShutdown, SendShutdown => true
  | RestartAll x, RestartAll y | ShutdownAll x, ShutdownAll y => Z.eqb x y
  | AutoStart, AutoStart | AutoStopAll, AutoStopAll | Conciliate, Conciliate | FailureJob, FailureJob
  | AbortJobs, AbortJobs => true
  | JobsInvalidation x, JobsInvalidation y => list_eqb Z.eqb x y
  | _, _ => false
  end.

Definition nobs_eqb (a b : nobs) : bool :=
  match a, b with
  | (f1, d1, m1, i1, ms1, s1, st1, o1), (f2, d2, m2, i2, ms2, s2, st2, o2) =>
      Z.eqb f1 f2 && Bool.eqb d1 d2 && Z.eqb m1 m2 && list_eqb zz_eqb i1 i2 && Z.eqb ms1 ms2
      && list_eqb z5_eqb s1 s2 && list_eqb Z.eqb st1 st2 && list_eqb output_eqb o1 o2
  end.

Definition obs_eqb (a b : obs) : bool :=
  match a, b with
  | NOk x, NOk y => nobs_eqb x y
  | NCrash k1, NCrash k2 => crash_eqb k1 k2
  | _, _ => false
  end.

(* ---------- second observable: the state & modes views held of every instance (own entry included):
   (id, fsm, degraded, master, instance states) after each step ---------- *)
Definition vrow := (Z * Z * bool * Z * list (Z * Z))%type.
Definition views_of (n : node) : list vrow :=
  map (fun kv => (fst kv, scode (sm_fsm (snd kv)), sm_degraded (snd kv), sm_master (snd kv),
                  map (fun x => (fst x, icode (snd x))) (sm_insts (snd kv)))) (n_views n).
Fixpoint run_views (n : node) (evs : list event) : list (list vrow) :=
  match evs with
  | [] => []
  | e :: r => match step n e with
              | Ok (n', _) => views_of n' :: run_views n' r
              | Crash _ => []
              end
  end.
Definition vrow_eqb (a b : vrow) : bool :=
  match a, b with (a1, a2, a3, a4, a5), (b1, b2, b3, b4, b5) =>
    Z.eqb a1 b1 && Z.eqb a2 b2 && Bool.eqb a3 b3 && Z.eqb a4 b4 && list_eqb zz_eqb a5 b5 end.

Definition ncase := (node * list event * list obs)%type.
Definition case_mismatch (c : ncase) : bool :=
  match c with (n, evs, o) => negb (list_eqb obs_eqb (run n evs) o) end.
Definition mismatches (cs : list ncase) : list nat := find_idx case_mismatch cs.
(* cases carrying both observables *)
Definition vcase := (ncase * list (list vrow))%type.
Definition view_mismatch (c : vcase) : bool :=
  match c with ((n, evs, _), v) => negb (list_eqb (list_eqb vrow_eqb) (run_views n evs) v) end.
Definition mismatches_v (cs : list vcase) : list nat :=
  find_idx (fun c => case_mismatch (fst c) || view_mismatch c) cs.
