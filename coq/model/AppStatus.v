(* AppStatus.v — executable model of supvisors/application.py:
     ApplicationRules.status_formula (setter) / status_tree,
     ApplicationStatus.update_sequences / update / update_state / update_status_required /
     update_status_formula / evaluate / _get_process_status / _get_matches / get_operational_status,
   plus the abstract specification Spec_C15 written from the property text, the case type and the evaluators.
   Definitions only (proofs are in proofs/AppStatusProofs.v). Each function names the Python method it mirrors.

   Inputs that are ORACLES (computed by the driver with the real library, never by the model):
     - ast.parse of the formula string (outcome: SyntaxError / other exception / number of statements and the
       shape of the first one, translated node by node to [expr]);
     - for every string leaf: whether it is a key of [processes], and the result of
       [re.compile('^%s$' % leaf)] + [pattern.match(name)] over the process names, in dict order. *)
From Sup Require Export Base.
From Sup Require Import GenProc GenEnums.
From Sup Require Import ProcStatus.   (* pstate, pcode, pstate_eqb, is_running (reflected RUNNING_STATES) *)

(* ------------------------------------------------------------------ application states *)
Inductive astate := ASTOPPED | ASTARTING | ARUNNING | ASTOPPING | ADELETED.

Definition acode (s : astate) : Z :=
  match s with
  | ASTOPPED => gen_ApplicationStates_STOPPED | ASTARTING => gen_ApplicationStates_STARTING
  | ARUNNING => gen_ApplicationStates_RUNNING | ASTOPPING => gen_ApplicationStates_STOPPING
  | ADELETED => gen_ApplicationStates_DELETED
  end.

Definition astate_eqb (a b : astate) : bool :=
  match a, b with
  | ASTOPPED, ASTOPPED | ASTARTING, ASTARTING | ARUNNING, ARUNNING | ASTOPPING, ASTOPPING
  | ADELETED, ADELETED => true
  | _, _ => false
  end.

(* ------------------------------------------------------------------ what update() reads of a ProcessStatus *)
Record pview := mkPV {
  pv_state : pstate;              (* process.state (synthetic state, C11) *)
  pv_forced : option pstate;      (* process.forced_state *)
  pv_expected_exit : bool;        (* process.expected_exit *)
  pv_required : bool;             (* process.rules.required *)
  pv_start_seq : Z                (* process.rules.start_sequence *)
}.

(* ProcessStatus.displayed_state : the forced state has priority. This is what application.py reads everywhere
   (update_state, update_status_required, update_status_formula, _get_process_status); [pv_state] is never read
   directly. *)
Definition pv_displayed (v : pview) : pstate :=
  match pv_forced v with Some s => s | None => pv_state v end.

(* processes : {process_name: ProcessStatus}, insertion ordered; names are numbered by the driver *)
Definition procs := alist pview.

(* ------------------------------------------------------------------ update_sequences (start sequence part) *)
(* start_sequence.setdefault(seq, []).append(process) *)
Fixpoint seq_add (seq : Z) (name : Z) (d : alist (list Z)) : alist (list Z) :=
  match d with
  | [] => [(seq, [name])]
  | (k, l) :: r => if Z.eqb seq k then (k, l ++ [name]) :: r else (k, l) :: seq_add seq name r
  end.

(* ApplicationStatus.update_sequences : start_sequence is filled only when rules.managed *)
Definition update_sequences (managed : bool) (ps : procs) : alist (list Z) :=
  if managed then fold_left (fun d kv => seq_add (pv_start_seq (snd kv)) (fst kv) d) ps [] else [].

(* update(): sequenced_processes = {name: process for sub_seq in start_sequence.values() for process in sub_seq}
   NOTE: every sub-sequence is taken, sequence 0 included. *)
Definition sequenced_names (d : alist (list Z)) : list Z := concat (avals d).

(* ------------------------------------------------------------------ update_state *)
(* flags (starting, running, stopping) accumulated over processes.values() *)
Definition state_flags (ds : list pstate) : bool * bool * bool :=
  fold_left (fun f d =>
    match f with (starting, running, stopping) =>
      if pstate_eqb d RUNNING then (starting, true, stopping)
      else if pstate_eqb d STARTING || pstate_eqb d BACKOFF then (true, running, stopping)
      else if pstate_eqb d STOPPING then (starting, running, true)
      else f
    end) ds (false, false, false).

Definition update_state (ds : list pstate) : astate :=
  match state_flags ds with
  | (starting, running, stopping) =>
      if stopping then ASTOPPING else if starting then ASTARTING else if running then ARUNNING else ASTOPPED
  end.

Definition displayed_states (ps : procs) : list pstate := map pv_displayed (avals ps).

(* ------------------------------------------------------------------ update_status_required *)
(* displayed_state in [FATAL, UNKNOWN] or (displayed_state == EXITED and not expected_exit) *)
Definition in_failure (v : pview) : bool :=
  let d := pv_displayed v in
  pstate_eqb d FATAL || pstate_eqb d UNKNOWN || (pstate_eqb d EXITED && negb (pv_expected_exit v)).

(* loop of update_status_required : (major, minor, possible_major) *)
Definition required_flags (ps : procs) (sequenced : list Z) : bool * bool * bool :=
  fold_left (fun f kv =>
    match f with (major, minor, possible) =>
      let v := snd kv in
      if in_failure v then
        (if pv_required v then (true, minor, possible)
         else if zmem (fst kv) sequenced then (major, true, possible)
         else f)
      else if pstate_eqb (pv_displayed v) STOPPED then
        (if pv_required v then (major, minor, true) else f)
      else f
    end) ps (false, false, false).

Definition status_required (ps : procs) (sequenced : list Z) (st : astate) : bool * bool :=
  match required_flags ps sequenced with
  | (major, minor, possible) =>
      let major' := if astate_eqb st ASTOPPED then major else major || possible in
      (major', if major' then false else minor)
  end.

(* ------------------------------------------------------------------ formula : AST mirror *)
(* node kinds that evaluate() does not handle; their children are never visited, so they are not kept *)
Inductive okind :=
| KName | KConstOther | KAttribute | KLambda | KComprehension | KNamedExpr | KJoinedStr | KStarred
| KSubscript | KCompare | KBinOp | KIfExp | KCollection | KAwaitYield | KCallNode | KOtherNode.

(* node.func of a Call *)
Inductive func :=
| FAll                   (* ast.Name with id 'all' *)
| FAny                   (* ast.Name with id 'any' *)
| FOtherName             (* ast.Name with another id *)
| FNotName (k : okind).  (* anything else: Attribute, Call, Lambda, Subscript, ... (no .id attribute) *)

Inductive bop := BAnd | BOr.
Inductive uop := UNot | UOther.

(* oracle for a string leaf that is not a process name *)
Inductive rxres :=
| RxMatches (l : list Z)   (* names matched by ^leaf$, in processes order *)
| RxError (k : crash).     (* re.compile raised one of the exceptions _get_matches catches: ReError for re.error,
                              OtherError for OverflowError / RecursionError *)

Inductive expr :=
| EStr (exact : option Z) (rx : rxres)       (* ast.Constant with a str value; exact = Some p when leaf in processes *)
| ECall (f : func) (args : list expr) (nkw : Z)   (* ast.Call: func, positional args, number of keywords *)
| EBoolOp (op : bop) (vals : list expr)      (* ast.BoolOp *)
| EUnary (op : uop) (operand : expr)         (* ast.UnaryOp *)
| EOther (k : okind).                        (* every other node kind *)

(* evaluation results *)
Inductive fval := VBool (b : bool) | VList (l : list bool).
Inductive fres :=
| FVal (v : fval)
| FParseError               (* ApplicationStatusParseError (caught by update_status_formula) *)
| FCrash (k : crash).       (* any other exception: propagates out of update() *)

(* dynamic evaluation performed by evaluate(): eval(f'{all|any}({list of bool})') *)
Inductive dynfn := DAll | DAny.
Definition evcall := (dynfn * list bool)%type.
Definition apply_dyn (f : dynfn) (l : list bool) : bool :=
  match f with DAll => forallb (fun b => b) l | DAny => existsb (fun b => b) l end.

(* ---- the single place that decides the shapes that used to be hazardous (F14 and relatives) ----
   Some r  : evaluate() ends with r at this point;
   None    : the shape is not checked by the code (evaluation goes on).
   Since /repo commit 67529b2 ("fix: reject unsupported operational status formulas ...") every one of them raises
   ApplicationStatusParseError:
     Call whose func is not an ast.Name           -> 'unsupported function call'
     all()/any() without positional argument      -> 'takes exactly one positional argument'
     extra positional arguments / keywords        -> 'takes exactly one positional argument'
     re.compile raising re.error / OverflowError / RecursionError -> 'invalid pattern'
   (before the fix: AttributeError, IndexError, silently ignored, re.error/OverflowError respectively). *)
Inductive hazard := HzFuncNotName | HzNoArgs | HzBadRegex (k : crash) | HzExtraArgs.

Definition hazard_policy (h : hazard) : option fres := Some FParseError.

(* ApplicationStatus._get_process_status : displayed_state in RUNNING_STATES, or EXITED expectedly *)
Definition proc_ok (v : pview) : bool :=
  is_running (pv_displayed v) || (pstate_eqb (pv_displayed v) EXITED && pv_expected_exit v).

(* self.processes[process_name] *)
Definition status_of (ps : procs) (name : Z) : result bool :=
  match aget name ps with Some v => Ok (proc_ok v) | None => Crash KeyError end.

Fixpoint status_list (ps : procs) (names : list Z) : result (list bool) :=
  match names with
  | [] => Ok []
  | n :: r => bind (status_of ps n) (fun b => bind (status_list ps r) (fun l => Ok (b :: l)))
  end.

(* evaluate(): string leaf *)
Definition eval_leaf (ps : procs) (exact : option Z) (rx : rxres) : fres :=
  match exact with
  | Some p => match status_of ps p with Ok b => FVal (VBool b) | Crash k => FCrash k end
  | None =>
      match rx with
      | RxError k => match hazard_policy (HzBadRegex k) with Some r => r | None => FCrash k end
      | RxMatches [] => FParseError                                  (* no match for expression *)
      | RxMatches [m] => match status_of ps m with Ok b => FVal (VBool b) | Crash k => FCrash k end
      | RxMatches l => match status_list ps l with Ok bl => FVal (VList bl) | Crash k => FCrash k end
      end
  end.

Definition is_vbool (v : fval) : bool := match v with VBool _ => true | VList _ => false end.
Definition vbool_val (v : fval) : bool := match v with VBool b => b | VList _ => false end.

(* evaluate(node) : result and the trace of dynamic eval() calls, in call order.
   The two helpers take the recursive call as a parameter (nested recursion through lists). *)

(* args_eval = [self.evaluate(x) for x in node.values] : ALL values are evaluated left to right (no
   short-circuit); the first exception ends the evaluation. inl = exception, inr = the values. *)
Definition eval_seq (ev : expr -> fres * list evcall) : list expr -> (fres + list fval) * list evcall :=
  fix evs (l : list expr) :=
    match l with
    | [] => (inr [], [])
    | x :: r =>
        match ev x with
        | (FVal v, t) => match evs r with
                         | (inr vs, t') => (inr (v :: vs), t ++ t')
                         | (inl err, t') => (inl err, t ++ t')
                         end
        | (err, t) => (inl err, t)
        end
    end.

(* body of the ast.Call branch once func is Name 'all' / 'any' *)
Definition eval_call (ev : expr -> fres * list evcall) (fn : dynfn) (args : list expr) (nkw : Z)
  : fres * list evcall :=
  match args with
  | [] => (match hazard_policy HzNoArgs with Some r => r | None => FCrash IndexError end, [])   (* node.args[0] *)
  | a :: rest =>
      let extra := match rest with [] => negb (Z.eqb nkw 0) | _ => true end in
      match (if extra then hazard_policy HzExtraArgs else None) with
      | Some r => (r, [])
      | None =>
          match ev a with
          | (FVal v, t) =>
              let l := match v with VBool b => [b] | VList l => l end in    (* a bool is wrapped in a list *)
              (FVal (VBool (apply_dyn fn l)), t ++ [(fn, l)])               (* eval(f'{func.id}({args_eval})') *)
          | (r, t) => (r, t)
          end
      end
  end.

Fixpoint eval (ps : procs) (e : expr) : fres * list evcall :=
  match e with
  | EStr exact rx => (eval_leaf ps exact rx, [])
  | ECall f args nkw =>
      match f with
      | FNotName _ => (match hazard_policy HzFuncNotName with Some r => r | None => FParseError end, [])
      | FOtherName => (FParseError, [])                              (* unsupported function *)
      | FAll => eval_call (eval ps) DAll args nkw
      | FAny => eval_call (eval ps) DAny args nkw
      end
  | EBoolOp op vals =>
      match eval_seq (eval ps) vals with
      | (inl err, t) => (err, t)
      | (inr vs, t) =>
          if forallb is_vbool vs then
            (FVal (VBool (match op with
                          | BAnd => forallb vbool_val vs
                          | BOr => existsb vbool_val vs
                          end)), t)
          else (FParseError, t)                                      (* BoolOp on unresolved expression *)
      end
  | EUnary UNot a =>
      match eval ps a with
      | (FVal (VBool b), t) => (FVal (VBool (negb b)), t)
      | (FVal (VList _), t) => (FParseError, t)                      (* UnaryOp on unresolved expression *)
      | (r, t) => (r, t)
      end
  | EUnary UOther _ => (FParseError, [])                             (* unsupported UnaryOp, operand not visited *)
  | EOther _ => (FParseError, [])                                    (* unsupported Expr *)
  end.

(* the oracle of every leaf that evaluate() can reach only mentions process names of the application *)
Fixpoint oracle_wf (ps : procs) (e : expr) : bool :=
  match e with
  | EStr (Some p) _ => amem p ps
  | EStr None (RxMatches l) => forallb (fun n => amem n ps) l
  | EStr None (RxError _) => true
  | ECall _ args _ => match args with [] => true | a :: _ => oracle_wf ps a end
  | EBoolOp _ vals => forallb (oracle_wf ps) vals
  | EUnary _ a => oracle_wf ps a
  | EOther _ => true
  end.

(* ------------------------------------------------------------------ the setter and status_tree *)
(* tree.body[0], as far as status_tree (`body[0].value`) can tell *)
Inductive top :=
| TExprStmt (e : expr)     (* ast.Expr statement: value = the expression *)
| TStmtValue (e : expr)    (* another statement with a non-None .value: Assign, AugAssign, AnnAssign, Return, TypeAlias *)
| TStmtNone                (* a statement whose .value is None: bare return, `x: int` *)
| TStmtNoValue.            (* a statement without .value attribute: pass, import, del, def, for, ... *)

(* ast.parse(formula) *)
Inductive parsed :=
| PSyntaxError
| PParserError                       (* ValueError / RecursionError / MemoryError of the parser: caught by the setter *)
| PRaise (k : crash)                 (* any other exception of ast.parse (none known for a str argument): not caught *)
| PBody (n : Z) (first : option top).  (* len(tree.body), tree.body[0] when it exists *)

(* policy of the setter about a single statement that is not an expression statement:
   since /repo commit 67529b2 it is rejected (`type(tree.body[0]) is not ast.Expr`); it used to be stored. *)
Definition setter_stores_non_expr : bool := false.

Inductive setter_res := SStored (t : top) | SRejected | SCrash (k : crash).

(* ApplicationRules.status_formula setter *)
Definition set_formula (p : parsed) : setter_res :=
  match p with
  | PSyntaxError => SRejected
  | PParserError => SRejected
  | PRaise k => SCrash k
  | PBody n first =>
      if Z.eqb n 1 then
        match first with
        | Some (TExprStmt e) => SStored (TExprStmt e)
        | Some t => if setter_stores_non_expr then SStored t else SRejected
        | None => SCrash OtherError      (* cannot happen: n = 1 means body[0] exists *)
        end
      else SRejected
  end.

(* ------------------------------------------------------------------ update() *)
Definition failures := (bool * bool)%type.   (* (major_failure, minor_failure) *)

(* update_status_formula, given the root expression *)
Definition status_formula (ps : procs) (sequenced : list Z) (e : expr) : result failures * list evcall :=
  match eval ps e with
  | (FCrash k, t) => (Crash k, t)
  | (r, t) =>
      let major := match r with FVal (VBool b) => negb b | _ => true end in
      let minor := if major then false
                   else existsb (fun n => match aget n ps with Some v => in_failure v | None => false end) sequenced in
      (Ok (major, minor), t)
  end.

(* get_operational_status : '' / Operational / Degraded / Not Operational as 0 / 1 / 2 / 3 *)
Definition op_status (st : astate) (f : failures) : Z :=
  if astate_eqb st ARUNNING then (if fst f then 3 else if snd f then 2 else 1) else 0.

(* what is visible of the application after update(): state code, major, minor, operational status *)
Definition uobs := (Z * bool * bool * Z)%type.
Inductive update_res :=
| UOk (o : uobs)
| UCrash (k : crash) (o : uobs).   (* update() raised; the state was already set and the failures reset *)

Definition mk_uobs (st : astate) (f : failures) : uobs := (acode st, fst f, snd f, op_status st f).

(* ApplicationStatus.update : tree = what rules._status_tree.body[0] is (None when no formula is stored) *)
Definition update (ps : procs) (sequenced : list Z) (tree : option top) : update_res * list evcall :=
  let st := update_state (displayed_states ps) in
  let formula (e : expr) :=
    match status_formula ps sequenced e with
    | (Ok f, t) => (UOk (mk_uobs st f), t)
    | (Crash k, t) => (UCrash k (mk_uobs st (false, false)), t)
    end in
  match tree with
  | None => (UOk (mk_uobs st (status_required ps sequenced st)), [])
  | Some TStmtNone => (UOk (mk_uobs st (status_required ps sequenced st)), [])   (* status_tree is None: falsy *)
  | Some TStmtNoValue => (UCrash AttributeError (mk_uobs st (false, false)), [])
        (* `if self.rules.status_tree:` raises inside update(), after the state was set and the failures reset.
           Since 67529b2 the setter never stores such a statement: unreachable through set_formula. *)
  | Some (TExprStmt e) => formula e
  | Some (TStmtValue e) => formula e
  end.

(* ------------------------------------------------------------------ one case = one application configuration *)
Record app := mkApp {
  a_procs : procs;              (* processes at the time of update() *)
  a_managed : bool;             (* rules.managed *)
  a_seq_prefix : Z;             (* number of processes (a prefix of a_procs) present when update_sequences() ran *)
  a_formula : option parsed     (* None: no operational_status element; Some p: the setter is called *)
}.

Definition app_sequenced (a : app) : list Z :=
  sequenced_names (update_sequences (a_managed a) (firstn (Z.to_nat (a_seq_prefix a)) (a_procs a))).

Definition sequences_fresh (a : app) : bool := Z.leb (Z.of_nat (length (a_procs a))) (a_seq_prefix a).

Inductive setter_obs := ONoFormula | OStored | ORejected | OSetterCrash (k : crash).

Definition app_setter (a : app) : setter_obs * option top :=
  match a_formula a with
  | None => (ONoFormula, None)
  | Some p => match set_formula p with
              | SStored t => (OStored, Some t)
              | SRejected => (ORejected, None)
              | SCrash k => (OSetterCrash k, None)
              end
  end.

(* observable of a case: setter outcome, update outcome, trace of eval() calls (function code 0 = all, 1 = any),
   number of other dynamic executions seen by the audit hook, sorted names of the start sequence *)
Definition aobs := (setter_obs * update_res * list (Z * list bool) * Z * list Z)%type.

Definition dyn_code (f : dynfn) : Z := match f with DAll => 0 | DAny => 1 end.

Definition app_run (a : app) : aobs :=
  match app_setter a with
  | (so, tree) =>
      match update (a_procs a) (app_sequenced a) tree with
      | (u, t) => (so, u, map (fun c => (dyn_code (fst c), snd c)) t, 0, zsort (app_sequenced a))
      end
  end.

(* ------------------------------------------------------------------ comparison *)
Definition uobs_eqb (a b : uobs) : bool :=
  match a, b with
  | (s1, ma1, mi1, o1), (s2, ma2, mi2, o2) => Z.eqb s1 s2 && Bool.eqb ma1 ma2 && Bool.eqb mi1 mi2 && Z.eqb o1 o2
  end.

Definition update_res_eqb (a b : update_res) : bool :=
  match a, b with
  | UOk x, UOk y => uobs_eqb x y
  | UCrash k1 x, UCrash k2 y => crash_eqb k1 k2 && uobs_eqb x y
  | _, _ => false
  end.

Definition setter_obs_eqb (a b : setter_obs) : bool :=
  match a, b with
  | ONoFormula, ONoFormula | OStored, OStored | ORejected, ORejected => true
  | OSetterCrash k1, OSetterCrash k2 => crash_eqb k1 k2
  | _, _ => false
  end.

Definition evc_eqb (a b : Z * list bool) : bool := Z.eqb (fst a) (fst b) && list_eqb Bool.eqb (snd a) (snd b).

Definition aobs_eqb (a b : aobs) : bool :=
  match a, b with
  | (s1, u1, t1, x1, q1), (s2, u2, t2, x2, q2) =>
      setter_obs_eqb s1 s2 && update_res_eqb u1 u2 && list_eqb evc_eqb t1 t2 && Z.eqb x1 x2 && list_eqb Z.eqb q1 q2
  end.

(* ================================================================== Spec_C15 (from the property text) *)
(* "An application is reported STOPPING if any of its processes is STOPPING, otherwise STARTING if any is
    STARTING or BACKOFF, otherwise RUNNING if any is RUNNING, otherwise STOPPED." (displayed states) *)
Definition spec_app_state (ds : list pstate) : astate :=
  if existsb (pstate_eqb STOPPING) ds then ASTOPPING
  else if existsb (fun d => pstate_eqb d STARTING || pstate_eqb d BACKOFF) ds then ASTARTING
  else if existsb (pstate_eqb RUNNING) ds then ARUNNING
  else ASTOPPED.

(* "FATAL, UNKNOWN or unexpectedly EXITED" *)
Definition spec_failed (v : pview) : bool :=
  match pv_displayed v with
  | FATAL | UNKNOWN => true
  | EXITED => negb (pv_expected_exit v)
  | _ => false
  end.

(* "... or STOPPED while the application is not" *)
Definition spec_stopped_while_not (st : astate) (v : pview) : bool :=
  pstate_eqb (pv_displayed v) STOPPED && negb (astate_eqb st ASTOPPED).

(* "Without a formula, a major failure is reported when a required process is FATAL, UNKNOWN or unexpectedly
    EXITED, or STOPPED while the application is not, and a minor failure when only non-required processes of a
    managed application are so".
   Reading used for the minor failure: "so" = in failure (FATAL, UNKNOWN, unexpectedly EXITED), the reading of the
   code's docstrings ("an optional process has crashed"). The literal reading, which would also count a
   non-required process STOPPED while the application is not, is [spec_required_literal]; the code does not
   follow it (required_status_literal_refuted). *)
Definition spec_required (ps : procs) (managed : bool) : failures :=
  let vs := avals ps in
  let st := spec_app_state (map pv_displayed vs) in
  let major := existsb (fun v => pv_required v && (spec_failed v || spec_stopped_while_not st v)) vs in
  let minor := negb major && managed && existsb (fun v => negb (pv_required v) && spec_failed v) vs in
  (major, minor).

Definition spec_required_literal (ps : procs) (managed : bool) : failures :=
  let vs := avals ps in
  let st := spec_app_state (map pv_displayed vs) in
  let bad v := spec_failed v || spec_stopped_while_not st v in
  let major := existsb (fun v => pv_required v && bad v) vs in
  let minor := negb major && managed && existsb (fun v => negb (pv_required v) && bad v) vs in
  (major, minor).

(* value of a process name in a formula: the process is up (STARTING, RUNNING, BACKOFF) or has exited expectedly.
   The property text does not define it; this is the definition documented in _get_process_status. *)
Definition spec_proc_ok (v : pview) : bool :=
  match pv_displayed v with
  | STARTING | RUNNING | BACKOFF => true
  | EXITED => pv_expected_exit v
  | _ => false
  end.

(* denotation of the whitelisted fragment: "process names and patterns with and/or/not/any/all".
   A name or a pattern matching exactly one process denotes a boolean, a pattern matching several processes a
   list that only any/all may consume; any/all take exactly one argument.
   None = "any other construct, or a pattern matching nothing". *)
Inductive dval := DB (b : bool) | DL (l : list bool).

Definition den_name (ps : procs) (n : Z) : option bool := option_map spec_proc_ok (aget n ps).

Fixpoint den_names (ps : procs) (l : list Z) : option (list bool) :=
  match l with
  | [] => Some []
  | n :: r => match den_name ps n, den_names ps r with
              | Some b, Some bl => Some (b :: bl)
              | _, _ => None
              end
  end.

(* all the values of an and/or must denote booleans *)
Definition den_seq (dn : expr -> option dval) : list expr -> option (list bool) :=
  fix dens (l : list expr) :=
    match l with
    | [] => Some []
    | x :: r => match dn x, dens r with
                | Some (DB b), Some bl => Some (b :: bl)
                | _, _ => None
                end
    end.

Fixpoint den (ps : procs) (e : expr) : option dval :=
  match e with
  | EStr (Some p) _ => option_map DB (den_name ps p)
  | EStr None (RxMatches [m]) => option_map DB (den_name ps m)
  | EStr None (RxMatches (m1 :: m2 :: r)) => option_map DL (den_names ps (m1 :: m2 :: r))
  | EStr None _ => None
  | ECall f [a] 0 =>
      match f, den ps a with
      | FAll, Some (DB b) => Some (DB b)
      | FAll, Some (DL l) => Some (DB (forallb (fun b => b) l))
      | FAny, Some (DB b) => Some (DB b)
      | FAny, Some (DL l) => Some (DB (existsb (fun b => b) l))
      | _, _ => None
      end
  | ECall _ _ _ => None
  | EBoolOp op vals =>
      match den_seq (den ps) vals with
      | Some bl => Some (DB (match op with BAnd => forallb (fun b => b) bl | BOr => existsb (fun b => b) bl end))
      | None => None
      end
  | EUnary UNot a => match den ps a with Some (DB b) => Some (DB (negb b)) | _ => None end
  | EUnary UOther _ => None
  | EOther _ => None
  end.

(* the whitelisted syntax: string leaves, all/any with exactly one argument, and/or, not *)
Fixpoint wl (e : expr) : bool :=
  match e with
  | EStr None (RxError _) => false
  | EStr _ _ => true
  | ECall FAll [a] 0 | ECall FAny [a] 0 => wl a
  | ECall _ _ _ => false
  | EBoolOp _ vals => forallb wl vals
  | EUnary UNot a => wl a
  | EUnary UOther _ => false
  | EOther _ => false
  end.

(* "with an operational_status formula the major failure is the negation of the formula ...; any other construct,
    or a pattern matching nothing, yields a major failure" *)
Definition spec_formula_major (ps : procs) (t : top) : bool :=
  match t with
  | TExprStmt e => match den ps e with Some (DB b) => negb b | _ => true end
  | _ => true          (* a statement that is not an expression is "another construct" *)
  end.

(* spec-side check of one implementation observation.
   - never an error: neither the setter nor update() may raise;
   - never another execution: the audit counter must be 0 and every eval() call is all/any of booleans (by type);
   - a rejected formula string (clean ApplicationStatusParseError at load time) leaves the application without
     formula: the required-based status applies;
   - with a stored formula only the state and the major failure are specified by the property text. *)
(* the single statement of a formula that the setter may store *)
Definition single_stmt (a : app) : option top :=
  match a_formula a with
  | Some (PBody n (Some t)) => if Z.eqb n 1 then Some t else None
  | _ => None
  end.

Definition has_formula (a : app) : bool := match a_formula a with Some _ => true | None => false end.

Definition spec_accepts_app (a : app) (o : aobs) : bool :=
  match o with
  | (so, u, _, bad_exec, _) =>
      Z.eqb bad_exec 0 &&
      match u with
      | UCrash _ _ => false
      | UOk (stc, major, minor, ops) =>
          let st := spec_app_state (displayed_states (a_procs a)) in
          let required_based :=
            let f := spec_required (a_procs a) (a_managed a) in
            Bool.eqb major (fst f) && Bool.eqb minor (snd f) && Z.eqb ops (op_status st f) in
          Z.eqb stc (acode st) &&
          match so with
          | OSetterCrash _ => false
          | ONoFormula => negb (has_formula a) && required_based
          | ORejected => has_formula a && required_based
          | OStored =>
              match single_stmt a with
              | Some t => Bool.eqb major (spec_formula_major (a_procs a) t) && Z.eqb ops (op_status st (major, minor))
              | None => false
              end
          end
      end
  end.

(* the loader side of the spec: what must be rejected / stored *)
Definition spec_setter_ok (a : app) (so : setter_obs) : bool :=
  match so with
  | ONoFormula => negb (has_formula a)
  | ORejected => match a_formula a with
                 | Some PSyntaxError => true
                 | Some PParserError => true
                 | Some (PBody n first) =>
                     (* not exactly one statement; or one statement that is not an expression: rejecting it at
                        load time is as acceptable as storing it and reporting a major failure *)
                     negb (Z.eqb n 1) || match first with Some (TExprStmt _) => false | _ => true end
                 | _ => false
                 end
  | OStored => match single_stmt a with Some _ => true | None => false end
  | OSetterCrash _ => false
  end.

(* ------------------------------------------------------------------ domain of validity of the model *)
Definition formula_expr (a : app) : option expr :=
  match single_stmt a with
  | Some (TExprStmt e) => Some e
  | Some (TStmtValue e) => Some e
  | _ => None
  end.

(* nesting depth of the part of the tree that evaluate() visits (one Python frame per level) *)
Fixpoint expr_depth (e : expr) : Z :=
  match e with
  | ECall _ (a :: _) _ => 1 + expr_depth a
  | EBoolOp _ vals => 1 + fold_right (fun x m => Z.max (expr_depth x) m) 0 vals
  | EUnary UNot a => 1 + expr_depth a
  | _ => 1
  end.

(* NOT MODELLED: Python's recursion limit. evaluate() is recursive; a formula nested about 1000 levels deep
   (e.g. 1000 'not') raises RecursionError out of update(), before and after commit 67529b2. The model is tied to
   the implementation only for depth <= py_depth_bound (the generators never exceed it); theorems that speak
   about the code carry H_depth = [depth_ok e] to state this scope explicitly. *)
Definition py_depth_bound : Z := 64.
Definition depth_ok (e : expr) : bool := Z.leb (expr_depth e) py_depth_bound.

(* well-formedness of the oracle inputs of a case: a body of length 1 has a first statement; the parser raised
   nothing the setter does not catch; leaves only mention process names of the application; depth in scope *)
Definition app_wf (a : app) : bool :=
  match a_formula a with
  | Some (PBody n None) => negb (Z.eqb n 1)
  | Some (PRaise _) => false
  | _ => true
  end &&
  match formula_expr a with Some e => oracle_wf (a_procs a) e && depth_ok e | None => true end.

(* ------------------------------------------------------------------ cases and evaluators *)
Definition case := (app * aobs)%type.

Definition case_mismatch (c : case) : bool := negb (aobs_eqb (app_run (fst c)) (snd c)).

(* the spec judges only cases whose start sequence is up to date (what context.py guarantees: update_sequences()
   is called after every change of the process map) *)
Definition case_violation (c : case) : bool :=
  sequences_fresh (fst c) &&
  negb (spec_accepts_app (fst c) (snd c) && spec_setter_ok (fst c) (match snd c with (so, _, _, _, _) => so end)).

(* no known-finding class is left for C15: every violation is reported *)
Definition case_spec_violation (c : case) : bool := case_violation c.

Definition mismatches (cs : list case) : list nat := find_idx case_mismatch cs.
Definition spec_violations (cs : list case) : list nat := find_idx case_spec_violation cs.
