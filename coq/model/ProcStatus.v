(* ProcStatus.v — executable model of supvisors/process.py::ProcessStatus (the status synthesis part).
   Definitions only. Each function names the Python method it mirrors. *)
From Sup Require Export Base.
From Sup Require Import GenProc.

Inductive pstate := STOPPED | STARTING | RUNNING | BACKOFF | STOPPING | EXITED | FATAL | UNKNOWN.

Definition pcode (s : pstate) : Z :=
  match s with
  | STOPPED => gen_code_STOPPED | STARTING => gen_code_STARTING | RUNNING => gen_code_RUNNING
  | BACKOFF => gen_code_BACKOFF | STOPPING => gen_code_STOPPING | EXITED => gen_code_EXITED
  | FATAL => gen_code_FATAL | UNKNOWN => gen_code_UNKNOWN
  end.

Definition all_pstates : list pstate := [STOPPED; STARTING; RUNNING; BACKOFF; STOPPING; EXITED; FATAL; UNKNOWN].

Definition pstate_eqb (a b : pstate) : bool :=
  match a, b with
  | STOPPED, STOPPED | STARTING, STARTING | RUNNING, RUNNING | BACKOFF, BACKOFF
  | STOPPING, STOPPING | EXITED, EXITED | FATAL, FATAL | UNKNOWN, UNKNOWN => true
  | _, _ => false
  end.

(* `state in RUNNING_STATES`, `state in STOPPED_STATES` — over the reflected supervisor tuples *)
Definition is_running (s : pstate) : bool := zmem (pcode s) gen_running_states.
Definition is_stopped (s : pstate) : bool := zmem (pcode s) gen_stopped_states.

(* inverse of pcode over the reflected codes, used by running_state *)
Definition pstate_of_code (c : Z) : option pstate := find (fun s => Z.eqb (pcode s) c) all_pstates.

(* per-instance information (the property-relevant part of info_map[identifier]) *)
Record info := mkInfo {
  i_state : pstate;
  i_expected : bool;
  i_now_mono : Z;       (* info['now_monotonic'] : remote time of the last event or tick *)
  i_event_time : Z;     (* info['event_time'] *)
  i_local_mtime : Z;    (* info['local_mtime'] : local reception time *)
  i_has_crashed : bool;
  i_disabled : bool
}.

Record proc := mkProc {
  p_infos : alist info;          (* info_map, insertion ordered *)
  p_running : list Z;            (* running_identifiers (a set) *)
  p_state : pstate;              (* _state *)
  p_forced : option pstate;      (* forced_state *)
  p_expected_exit : bool
}.

Definition proc_init : proc := mkProc [] [] UNKNOWN None true.

(* ProcessStatus.is_crashed_event *)
Definition is_crashed (s : pstate) (expected : bool) : bool :=
  pstate_eqb s FATAL || (pstate_eqb s EXITED && negb expected).

(* ProcessStatus.running_state : first of list(RUNNING_STATES) + [STOPPING] present in the set, else UNKNOWN *)
Definition running_state (states : list pstate) : pstate :=
  match find (fun c => existsb (fun s => Z.eqb (pcode s) c) states) (gen_running_states ++ [pcode STOPPING]) with
  | Some c => match pstate_of_code c with Some s => s | None => UNKNOWN end
  | None => UNKNOWN
  end.

(* states of the running identifiers; KeyError when one has no info entry *)
Fixpoint running_infos (infos : alist info) (run : list Z) : result (list info) :=
  match run with
  | [] => Ok []
  | i :: r => match aget i infos with
              | None => Crash KeyError
              | Some inf => bind (running_infos infos r) (fun l => Ok (inf :: l))
              end
  end.

(* ProcessStatus.update_status *)
Definition update_status (p : proc) (ident : Z) (new_state : pstate) : result proc :=
  let run :=
    if is_stopped new_state then zdiscard ident (p_running p)
    else if is_running new_state then
      (if is_stopped (p_state p) then [ident] else zadd ident (p_running p))
    else p_running p in
  match run with
  | _ :: _ :: _ =>
      (* conflicting: _evaluate_conflict *)
      bind (running_infos (p_infos p) run) (fun infs =>
        Ok (mkProc (p_infos p) run (running_state (map i_state infs)) (p_forced p) (p_expected_exit p)))
  | [i] =>
      match aget i (p_infos p) with
      | None => Crash KeyError
      | Some inf => Ok (mkProc (p_infos p) run (i_state inf) (p_forced p) true)
      end
  | [] =>
      if existsb (fun inf => pstate_eqb (i_state inf) STOPPING) (avals (p_infos p))
      then Ok (mkProc (p_infos p) run STOPPING (p_forced p) true)
      else match py_max i_local_mtime (avals (p_infos p)) with
           | None => Crash ValueError
           | Some inf => Ok (mkProc (p_infos p) run (i_state inf) (p_forced p) (i_expected inf))
           end
  end.

(* ProcessStatus.reset_forced_state(state) : `state` is Some only on add_info *)
Definition reset_forced (p : proc) (st : option pstate) : proc :=
  match p_forced p, st with
  | Some _, Some STOPPED => p
  | Some _, _ => mkProc (p_infos p) (p_running p) (p_state p) None (p_expected_exit p)
  | None, _ => p
  end.

Definition set_infos (p : proc) (infos : alist info) : proc :=
  mkProc infos (p_running p) (p_state p) (p_forced p) (p_expected_exit p).

(* Operations. `now` is the local time.monotonic() value read by the method. *)
Inductive op :=
| AddInfo (ident : Z) (st : pstate) (expected : bool) (now_mono : Z) (disabled : bool) (now : Z)
| UpdateInfo (ident : Z) (st : pstate) (expected : bool) (now_mono : Z) (now : Z)
| Force (ident : Z) (st : pstate) (event_time : Z) (now : Z)
| Invalidate (ident : Z) (now : Z)
| Remove (ident : Z)
| Disable (ident : Z) (b : bool)
| TickTimes (ident : Z) (remote_mtime : Z).

(* ProcessStatus.add_info *)
Definition add_info (p : proc) ident st expected now_mono disabled now : result proc :=
  let inf := mkInfo st expected now_mono now_mono now (is_crashed st expected) disabled in
  let p1 := set_infos p (aset ident inf (p_infos p)) in
  let p2 := reset_forced p1 (Some st) in
  update_status p2 ident st.

(* ProcessStatus.update_info *)
Definition update_info (p : proc) ident st expected now_mono now (external : bool) : result proc :=
  match aget ident (p_infos p) with
  | None => Crash KeyError
  | Some old =>
      let inf := mkInfo st expected now_mono now_mono now
                   (if external then i_has_crashed old || is_crashed st expected else i_has_crashed old)
                   (i_disabled old) in
      let p1 := set_infos p (aset ident inf (p_infos p)) in
      let p2 := reset_forced p1 None in
      update_status p2 ident st
  end.

(* ProcessStatus.force_state ; returns the new status and the 'forced' boolean *)
Definition force_state (p : proc) ident st event_time : proc * bool :=
  let ok := match aget ident (p_infos p) with
            | Some inf => Z.leb (i_event_time inf) event_time
            | None => true
            end in
  if ok then (mkProc (p_infos p) (p_running p) (p_state p) (Some st) (p_expected_exit p), true)
  else (p, false).

(* ProcessStatus.invalidate_identifier *)
Definition invalidate (p : proc) ident now : result proc :=
  if zmem ident (p_running p) then
    match aget ident (p_infos p) with
    | None => Crash KeyError
    | Some inf => update_info p ident FATAL false (i_now_mono inf) now false
    end
  else Ok p.

(* ProcessStatus.remove_identifier *)
Definition remove_identifier (p : proc) ident : result proc :=
  if amem ident (p_infos p) then
    let infos := adel ident (p_infos p) in
    let p1 := mkProc infos (zdiscard ident (p_running p)) (p_state p) (p_forced p) (p_expected_exit p) in
    match infos with
    | [] => Ok p1
    | _ => update_status p1 ident STOPPED
    end
  else Crash KeyError.

Definition step (p : proc) (o : op) : result proc :=
  match o with
  | AddInfo i st e nm d now => add_info p i st e nm d now
  | UpdateInfo i st e nm now => update_info p i st e nm now true
  | Force i st et now => Ok (fst (force_state p i st et))
  | Invalidate i now => invalidate p i now
  | Remove i => remove_identifier p i
  | Disable i b =>
      match aget i (p_infos p) with
      | Some inf => Ok (set_infos p (aset i (mkInfo (i_state inf) (i_expected inf) (i_now_mono inf)
                         (i_event_time inf) (i_local_mtime inf) (i_has_crashed inf) b) (p_infos p)))
      | None => Ok p
      end
  | TickTimes i t =>
      match aget i (p_infos p) with
      | Some inf => Ok (set_infos p (aset i (mkInfo (i_state inf) (i_expected inf) t
                         (i_event_time inf) (i_local_mtime inf) (i_has_crashed inf) (i_disabled inf)) (p_infos p)))
      | None => Ok p
      end
  end.

(* ---------- observable ---------- *)
(* per instance: identifier, state code, expected, has_crashed, disabled, event_time *)
Definition iobs := (Z * Z * bool * bool * bool * Z)%type.
(* sorted running, conflicting, state code, displayed code, expected_exit, forced present, per-instance in dict order *)
Definition pobs := (list Z * bool * Z * Z * bool * bool * list iobs)%type.

Definition displayed (p : proc) : pstate := match p_forced p with Some s => s | None => p_state p end.
Definition conflicting (p : proc) : bool := match p_running p with _ :: _ :: _ => true | _ => false end.

Definition observe (p : proc) : pobs :=
  (zsort (p_running p), conflicting p, pcode (p_state p), pcode (displayed p), p_expected_exit p,
   match p_forced p with Some _ => true | None => false end,
   map (fun kv => (fst kv, pcode (i_state (snd kv)), i_expected (snd kv), i_has_crashed (snd kv),
                   i_disabled (snd kv), i_event_time (snd kv))) (p_infos p)).

Inductive obs := OOk (o : pobs) | OCrash (k : crash).

(* Run a history; after a crash the Python object is left as it was before the failing call for the
   purpose of the comparison (the driver stops the case at the first crash). *)
Fixpoint run (p : proc) (ops : list op) : list obs :=
  match ops with
  | [] => []
  | o :: r => match step p o with
              | Ok p' => OOk (observe p') :: run p' r
              | Crash k => [OCrash k]
              end
  end.

Definition iobs_eqb (a b : iobs) : bool :=
  match a, b with
  | (i1, s1, e1, h1, d1, t1), (i2, s2, e2, h2, d2, t2) =>
      Z.eqb i1 i2 && Z.eqb s1 s2 && Bool.eqb e1 e2 && Bool.eqb h1 h2 && Bool.eqb d1 d2 && Z.eqb t1 t2
  end.

Definition pobs_eqb (a b : pobs) : bool :=
  match a, b with
  | (r1, c1, s1, d1, e1, f1, l1), (r2, c2, s2, d2, e2, f2, l2) =>
      list_eqb Z.eqb r1 r2 && Bool.eqb c1 c2 && Z.eqb s1 s2 && Z.eqb d1 d2 && Bool.eqb e1 e2
      && Bool.eqb f1 f2 && list_eqb iobs_eqb l1 l2
  end.

Definition obs_eqb (a b : obs) : bool :=
  match a, b with
  | OOk x, OOk y => pobs_eqb x y
  | OCrash k1, OCrash k2 => crash_eqb k1 k2
  | _, _ => false
  end.

(* ---------- abstract specification (Spec_C11), written from the property statement ---------- *)
(* Per instance only: last report, reception time, and the 'listed' bit:
   set by STARTING/BACKOFF/RUNNING, kept by STOPPING, cleared by stopped-like states and by loss. *)
Record sinfo := mkS { s_state : pstate; s_expected : bool; s_mtime : Z; s_listed : bool; s_evt : Z; s_nowm : Z }.

Record spec := mkSpec { sp_infos : alist sinfo; sp_forced : option pstate }.

Definition spec_init : spec := mkSpec [] None.

Definition is_running_like (s : pstate) : bool :=
  match s with STARTING | BACKOFF | RUNNING => true | _ => false end.
Definition is_stopped_like (s : pstate) : bool :=
  match s with STOPPED | EXITED | FATAL | UNKNOWN => true | _ => false end.

Definition listed_after (was : bool) (s : pstate) : bool :=
  if is_running_like s then true else if is_stopped_like s then false else was.

Definition spec_report (sp : spec) ident st expected evt now (clear_forced : bool) : spec :=
  let was := match aget ident (sp_infos sp) with Some si => s_listed si | None => false end in
  mkSpec (aset ident (mkS st expected now (listed_after was st) evt evt) (sp_infos sp))
         (if clear_forced then None else sp_forced sp).

(* well-formedness of an operation w.r.t. the spec state: what the callers in context.py guarantee
   (update and removal only for a known instance — Context.check_process). *)
Definition wf_op (sp : spec) (o : op) : bool :=
  match o with
  | AddInfo _ _ _ _ _ _ => true
  | UpdateInfo i _ _ _ _ => amem i (sp_infos sp)
  | Remove i => amem i (sp_infos sp)
  | _ => true
  end.

Definition spec_step (sp : spec) (o : op) : spec :=
  match o with
  | AddInfo i st e nm d now =>
      spec_report sp i st e nm now (negb (pstate_eqb st STOPPED))
  | UpdateInfo i st e nm now => spec_report sp i st e nm now true
  | Force i st et now =>
      let ok := match aget i (sp_infos sp) with Some si => Z.leb (s_evt si) et | None => true end in
      if ok then mkSpec (sp_infos sp) (Some st) else sp
  | Invalidate i now =>
      match aget i (sp_infos sp) with
      | Some si => if s_listed si then spec_report sp i FATAL false (s_nowm si) now true else sp
      | None => sp
      end
  | Remove i => mkSpec (adel i (sp_infos sp)) (sp_forced sp)
  | Disable _ _ => sp
  | TickTimes i t =>
      match aget i (sp_infos sp) with
      | Some si => mkSpec (aset i (mkS (s_state si) (s_expected si) (s_mtime si) (s_listed si) (s_evt si) t)
                                  (sp_infos sp)) (sp_forced sp)
      | None => sp
      end
  end.

(* what the property statement determines: running list, conflict flag, state, displayed state
   (expected_exit is determined only when there is no conflict) *)
Definition spec_running (sp : spec) : list Z :=
  map fst (filter (fun kv => s_listed (snd kv)) (sp_infos sp)).

(* set equality of two identifier lists (mutual inclusion) *)
Definition zset_eqb (a b : list Z) : bool :=
  forallb (fun x => zmem x b) a && forallb (fun x => zmem x a) b.

Definition most_advanced (states : list pstate) : pstate :=
  if existsb (pstate_eqb RUNNING) states then RUNNING
  else if existsb (pstate_eqb BACKOFF) states then BACKOFF
  else if existsb (pstate_eqb STARTING) states then STARTING
  else if existsb (pstate_eqb STOPPING) states then STOPPING
  else UNKNOWN.

Definition spec_state (sp : spec) : option (pstate * option bool) :=
  let listed := filter (fun kv => s_listed (snd kv)) (sp_infos sp) in
  match listed with
  | _ :: _ :: _ => Some (most_advanced (map (fun kv => s_state (snd kv)) listed), None)
  | [kv] => Some (s_state (snd kv), Some true)
  | [] =>
      if existsb (fun si => pstate_eqb (s_state si) STOPPING) (avals (sp_infos sp)) then Some (STOPPING, Some true)
      else match py_max s_mtime (avals (sp_infos sp)) with
           | Some si => Some (s_state si, Some (s_expected si))
           | None => None   (* no information at all: nothing is specified *)
           end
  end.

(* spec-side check of one implementation observation *)
Definition spec_accepts (sp : spec) (o : obs) : bool :=
  match o with
  | OCrash _ => false
  | OOk (run, confl, st, disp, exp, forced, _) =>
      let sr := spec_running sp in
      zset_eqb run sr && Nat.eqb (length run) (length sr)
      && Bool.eqb confl (Nat.ltb 1 (length sr))
      && match spec_state sp with
         | None => true
         | Some (s, oe) =>
             Z.eqb st (pcode s)
             && Z.eqb disp (pcode (match sp_forced sp with Some f => f | None => s end))
             && match oe with Some e => Bool.eqb exp e | None => true end
         end
      && Bool.eqb forced (match sp_forced sp with Some _ => true | None => false end)
  end.

(* walk a history with the implementation's observations; report true when some step of a well-formed
   prefix is not accepted by the spec. Ill-formed operations end the check of that case. *)
Fixpoint spec_violated (sp : spec) (ops : list op) (obss : list obs) : bool :=
  match ops, obss with
  | o :: r, ob :: robs =>
      if wf_op sp o then
        let sp' := spec_step sp o in
        if spec_accepts sp' ob then spec_violated sp' r robs else true
      else false
  | _, _ => false
  end.

Definition case := (list op * list obs)%type.

Definition case_mismatch (c : case) : bool :=
  negb (list_eqb obs_eqb (run proc_init (fst c)) (snd c)).
Definition case_spec_violation (c : case) : bool := spec_violated spec_init (fst c) (snd c).

Definition mismatches (cs : list case) : list nat := find_idx case_mismatch cs.
Definition spec_violations (cs : list case) : list nat := find_idx case_spec_violation cs.
