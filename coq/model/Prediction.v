(* Prediction.v — executable model of the start predictions of supvisors/commander.py
   (ProcessStartCommandModel, ApplicationStartJobsModel, StarterModel.test_start_application /
   test_start_processes / feed_model) and of the real start they are meant to predict
   (Starter.start_application, rpcinterface.start_process loop), for ONE application with the
   ALL_INSTANCES distribution rule.  Definitions only (no proofs).

   Two layers:
   * the VALUE machine [run] : the sequencing / placement algorithm, the same function for the prediction
     ([Model]) and for the real start fed with "every process starts normally" ([Real]). The two modes differ
     exactly where the code differs:
       - the load a started process puts on its instance is visible to the placement only in [Real]
         (SupvisorsInstanceStatus.get_load sums over instance.processes, the mock ProcessStatus objects of the
         prediction are not in there)                                              -> [extra_on];
       - at the EXITED event of a wait_exit process, ProcessStartCommand.on_event reads info['expected']:
         the real event carries expected=True, feed_model only writes ['state'] so the prediction reads the value
         copied from the live info                                                 -> [exp_at];
       - for a list of processes the prediction plans everything with trigger=False then runs, whereas
         rpcinterface.start_process calls starter.start_process(..., trigger=True) per process -> [init_procs_real].
     Placement itself is a parameter [place] of the machine (Section variable): the theorems hold for every
     placement function; the evaluators instantiate it with Strategy.get_supvisors_instance.
   * the HEAP layer [predict] : aliasing made explicit. The per-(process, instance) info dictionaries live in a
     store addressed by location; a live process holds locations; the mock built by ProcessStartCommandModel
     holds THE SAME locations ([mk_mock_shallow], the code before commit 6a6da35) or FRESH copies ([mk_mock],
     current code). feed_model's `process.info_map[identifier]['state'] = state` is replayed through the mock's
     locations ([apply_writes]). Everything else the model shares with the live context is enumerated at
     [predict]. *)
From Sup Require Export Base.
From Sup Require Import ProcStatus GenEnums.
From Sup Require Strategy.

(* ==================================================================================================== *)
(** * 1. The value machine *)

Inductive mode := Model | Real.

(* one process of the application as the Starter sees it when the request is made *)
Record tproc := mkT {
  t_name : Z;
  t_seq : Z;                 (* rules.start_sequence *)
  t_required : bool;
  t_wait_exit : bool;
  t_load : Z;                (* rules.expected_load *)
  t_sfs : Z;                 (* rules.starting_failure_strategy *)
  t_cands : list Z;          (* process.possible_identifiers() : input, C04's concern *)
  t_state : pstate;          (* process._state (copied into the mock) *)
  t_expected : alist bool    (* info_map[identifier]['expected'] of the live process *)
}.

(* test_start_application(strategy, application) / test_start_processes(strategy, [processes of application]) *)
Inductive request := RApp (strategy : Z) | RProcs (strategy : Z) (names : list Z).

Definition req_strategy (r : request) : Z := match r with RApp s => s | RProcs s _ => s end.
(* Starter.start_process sets command.ignore_wait_exit = True *)
Definition req_ignore (r : request) : bool := match r with RApp _ => false | RProcs _ _ => true end.

Record vinp := mkVI {
  vi_insts : list Z;          (* context.instances, in order *)
  vi_app_stopped : bool;      (* application.stopped() *)
  vi_managed : bool;          (* application.rules.managed : start_sequence is empty otherwise (update_sequences) *)
  vi_procs : list tproc       (* application.processes.values(), in order *)
}.

Definition t_stopped (t : tproc) : bool := is_stopped (t_state t).   (* process.stopped() *)

Definition find_t (inp : vinp) (n : Z) : option tproc := find (fun t => Z.eqb (t_name t) n) (vi_procs inp).

(* the ProcessStatus the commands work on (mock or live): _state and "forced FATAL / No resource available" *)
Record vobj := mkVO { vo_state : pstate; vo_forced : bool }.

Record vst := mkVS {
  vs_objs : alist vobj;                  (* by process name *)
  vs_planned : alist (list Z);           (* ApplicationJobs.planned_jobs, kept sorted by sequence (pickup = min) *)
  vs_current : list Z;                   (* ApplicationJobs.current_jobs *)
  vs_ident : alist Z;                    (* command.identifier *)
  vs_events : list (Z * Z * pstate);     (* StarterModel.event_list / the scripted normal events, FIFO *)
  vs_stopreq : bool;                     (* ApplicationStartJobs.stop_request *)
  vs_places : list (Z * Z);              (* (process, identifier) in the order the starts are issued *)
  vs_writes : list (Z * Z * pstate)      (* feed_model: process.info_map[identifier]['state'] = state *)
}.

Definition vs_empty : vst := mkVS [] [] [] [] [] false [] [].

Definition set_objs (s : vst) (o : alist vobj) : vst :=
  mkVS o (vs_planned s) (vs_current s) (vs_ident s) (vs_events s) (vs_stopreq s) (vs_places s) (vs_writes s).
Definition set_planned (s : vst) (p : alist (list Z)) : vst :=
  mkVS (vs_objs s) p (vs_current s) (vs_ident s) (vs_events s) (vs_stopreq s) (vs_places s) (vs_writes s).
Definition set_current (s : vst) (c : list Z) : vst :=
  mkVS (vs_objs s) (vs_planned s) c (vs_ident s) (vs_events s) (vs_stopreq s) (vs_places s) (vs_writes s).
Definition set_events (s : vst) (e : list (Z * Z * pstate)) : vst :=
  mkVS (vs_objs s) (vs_planned s) (vs_current s) (vs_ident s) e (vs_stopreq s) (vs_places s) (vs_writes s).

Definition obj_state (s : vst) (n : Z) : pstate :=
  match aget n (vs_objs s) with Some o => vo_state o | None => UNKNOWN end.
Definition obj_forced (s : vst) (n : Z) : bool :=
  match aget n (vs_objs s) with Some o => vo_forced o | None => false end.

(* planned_jobs.setdefault(seq, []).append(command) ; the dict is kept sorted by key: the only ordered access of
   the code is pickup_logic = min *)
Fixpoint plan_add (seq n : Z) (pl : alist (list Z)) : alist (list Z) :=
  match pl with
  | [] => [(seq, [n])]
  | (k, g) :: r => if Z.eqb seq k then (k, g ++ [n]) :: r
                   else if Z.ltb seq k then (seq, [n]) :: pl
                   else (k, g) :: plan_add seq n r
  end.

Definition planned_names (pl : alist (list Z)) : list Z := concat (map snd pl).

(* ProcessStartCommand.on_event for the three generated states *)
Inductive rres := IN_PROGRESS | SUCCESS | FAILED.
Definition cmd_on_event (wait_exit ignore : bool) (st : pstate) (expected : bool) : rres :=
  match st with
  | STARTING => IN_PROGRESS
  | RUNNING => if negb wait_exit || ignore then SUCCESS else IN_PROGRESS
  | EXITED => if wait_exit && expected then SUCCESS else FAILED
  | BACKOFF => IN_PROGRESS
  | _ => FAILED
  end.

(* ApplicationStartJobs.process_failure *)
Definition process_failure (t : tproc) (s : vst) : vst :=
  if t_required t then
    if Z.eqb (t_sfs t) gen_StartingFailureStrategies_ABORT then set_planned s []
    else if Z.eqb (t_sfs t) gen_StartingFailureStrategies_STOP then
      mkVS (vs_objs s) [] (vs_current s) (vs_ident s) (vs_events s) true (vs_places s) (vs_writes s)
    else s
  else s.

Definition req_len (r : request) : nat := match r with RApp _ => O | RProcs _ names => length names end.

(* list.remove(x) : first occurrence *)
Fixpoint zremove1 (n : Z) (l : list Z) : list Z :=
  match l with [] => [] | x :: r => if Z.eqb x n then r else x :: zremove1 n r end.

Section Machine.
  (* strategy.get_supvisors_instance(supvisors, strategy, candidates, expected_load, load_request_map), seen as a
     function of: the strategy code, the load ADDED to each instance of vi_insts by the processes started so far
     (aligned with vi_insts), the candidates, the expected load and the load requests *)
  Variable place : Z -> list Z -> list Z -> Z -> alist Z -> result (option Z).
  Variable md : mode.
  Variable inp : vinp.
  Variable req : request.

  (* what instance i carries on top of the live loads: in Real the started processes are live ProcessStatus
     objects listed in instance.processes, running_on(i) once STARTING; in Model the mock objects are invisible *)
  Definition extra_on (s : vst) (i : Z) : Z :=
    match md with
    | Model => 0
    | Real =>
        fold_right (fun t acc =>
                      (if is_running (obj_state s (t_name t))
                          && option_eqb Z.eqb (aget (t_name t) (vs_ident s)) (Some i)
                       then t_load t else 0) + acc) 0 (vi_procs inp)
    end.

  Definition extras (s : vst) : list Z := map (extra_on s) (vi_insts inp).

  (* info['expected'] read by on_event at the EXITED event *)
  Definition exp_at (t : tproc) (i : Z) : bool :=
    match md with
    | Real => true
    | Model => match aget i (t_expected t) with Some b => b | None => true end
    end.

  (* ApplicationStartJobs.get_load_requests : commands with an identifier whose process is still stopped
     (ALL_INSTANCES: planned commands have no identifier) *)
  Definition load_reqs (s : vst) : alist Z :=
    fold_left (fun acc n =>
                 match aget n (vs_ident s), find_t inp n with
                 | Some i, Some t =>
                     if is_stopped (obj_state s n) then aset i (Strategy.dget i acc 0 + t_load t) acc else acc
                 | _, _ => acc
                 end) (vs_current s) [].

  (* ApplicationStartJobs.process_job + ProcessStartCommand(Model).start ; the command is appended to current_jobs
     by ApplicationJobs.next when queued *)
  Definition process_job (s : vst) (n : Z) : result vst :=
    match find_t inp n with
    | None => Crash KeyError
    | Some t =>
        if is_stopped (obj_state s n) then
          bind (place (req_strategy req) (extras s) (t_cands t) (t_load t) (load_reqs s))
               (fun r =>
                  match r with
                  | Some i =>
                      Ok (mkVS (vs_objs s) (vs_planned s) (vs_current s ++ [n]) (aset n i (vs_ident s))
                               (vs_events s ++ (n, i, STARTING) :: (n, i, RUNNING)
                                          :: (if t_wait_exit t then [(n, i, EXITED)] else []))
                               (vs_stopreq s) (vs_places s ++ [(n, i)]) (vs_writes s))
                  | None =>
                      (* fail_command: forced FATAL 'No resource available' on the object, then process_failure *)
                      Ok (process_failure t
                            (set_objs s (aset n (mkVO (obj_state s n) true) (vs_objs s))))
                  end)
        else Ok s
    end.

  Fixpoint run_group (g : list Z) (s : vst) : result vst :=
    match g with
    | [] => Ok s
    | n :: r => bind (process_job s n) (run_group r)
    end.

  (* ApplicationJobs.next : recursion on the number of planned groups *)
  Fixpoint job_next (fuel : nat) (s : vst) : result vst :=
    match fuel with
    | O => Crash OutOfFuel
    | S f =>
        match vs_current s, vs_planned s with
        | [], (_, g) :: rest => bind (run_group g (set_planned s rest)) (job_next f)
        | _, _ => Ok s
        end
    end.

  Definition next_fuel (s : vst) : nat := S (length (vs_planned s)).

  (* feed_model body / reception of one real process event: state of the object, then Commander.on_event ->
     ApplicationJobs.on_event *)
  Definition on_event (s : vst) (e : Z * Z * pstate) : result vst :=
    let '(n, i, st) := e in
    let s1 := mkVS (aset n (mkVO st (obj_forced s n)) (vs_objs s)) (vs_planned s) (vs_current s) (vs_ident s)
                   (vs_events s) (vs_stopreq s) (vs_places s) (vs_writes s ++ [(n, i, st)]) in
    match find_t inp n with
    | None => Crash KeyError
    | Some t =>
        if zmem n (vs_current s1) && option_eqb Z.eqb (aget n (vs_ident s1)) (Some i) then
          match cmd_on_event (t_wait_exit t) (req_ignore req) st (exp_at t i) with
          | IN_PROGRESS => Ok s1
          | SUCCESS =>
              let s2 := set_current s1 (zremove1 n (vs_current s1)) in
              job_next (next_fuel s2) s2
          | FAILED =>
              let s2 := process_failure t (set_current s1 (zremove1 n (vs_current s1))) in
              job_next (next_fuel s2) s2
          end
        else Ok s1
    end.

  Fixpoint feed (fuel : nat) (s : vst) : result vst :=
    match fuel with
    | O => Crash OutOfFuel
    | S f =>
        match vs_events s with
        | [] => Ok s
        | e :: rest => bind (on_event (set_events s rest) e) (feed f)
        end
    end.

  (* objects for the commands created *)
  Definition obj_of (t : tproc) : vobj := mkVO (t_state t) false.

  (* Starter.store_application : every process with start_sequence > 0 gets a command *)
  Definition app_targets : list tproc :=
    if vi_managed inp then filter (fun t => Z.ltb 0 (t_seq t)) (vi_procs inp) else [].

  Definition init_app : result vst :=
    if vi_app_stopped inp then
      let ts := app_targets in
      let s := mkVS (map (fun t => (t_name t, obj_of t)) ts)
                    (fold_left (fun pl t => plan_add (t_seq t) (t_name t) pl) ts [])
                    [] [] [] false [] [] in
      job_next (next_fuel s) s
    else Ok vs_empty.

  (* StarterModel.test_start_processes : start_process(trigger=False) for every process, then next().
     Starter.start_process only considers stopped processes; add_commands skips a process already planned *)
  Definition plan_proc (s : vst) (n : Z) : result vst :=
    match find_t inp n with
    | None => Crash KeyError
    | Some t =>
        if t_stopped t && negb (zmem n (planned_names (vs_planned s)) || zmem n (vs_current s)) then
          Ok (set_planned (set_objs s (aset n (obj_of t) (vs_objs s))) (plan_add (t_seq t) n (vs_planned s)))
        else Ok s
    end.

  Fixpoint plan_all (names : list Z) (s : vst) : result vst :=
    match names with
    | [] => Ok s
    | n :: r => bind (plan_proc s n) (plan_all r)
    end.

  Definition init_procs_model (names : list Z) : result vst :=
    bind (plan_all names vs_empty) (fun s => job_next (next_fuel s) s).

  (* rpcinterface.start_process : `for process in processes: starter.start_process(strategy, process, extra_args)`,
     each with trigger=True: a process whose application has a job in progress is added to that job (it waits for
     the next event), otherwise it gets a job of its own which runs at once *)
  Definition job_alive (s : vst) : bool :=
    match vs_planned s, vs_current s with [], [] => false | _, _ => true end.

  Definition start_proc_real (s : vst) (n : Z) : result vst :=
    match find_t inp n with
    | None => Crash KeyError
    | Some t =>
        if t_stopped t then
          if job_alive s then plan_proc s n
          else
            let s1 := set_planned (set_objs s (aset n (obj_of t) (vs_objs s))) [(t_seq t, [n])] in
            job_next (next_fuel s1) s1
        else Ok s
    end.

  Fixpoint init_procs_real (names : list Z) (s : vst) : result vst :=
    match names with
    | [] => Ok s
    | n :: r => bind (start_proc_real s n) (init_procs_real r)
    end.

  Definition init : result vst :=
    match req with
    | RApp _ => init_app
    | RProcs _ names =>
        match md with
        | Model => init_procs_model names
        | Real => init_procs_real names vs_empty
        end
    end.

  (* every command issues at most three events; see PredictionProofs.run_never_out_of_fuel *)
  Definition feed_fuel : nat := S (3 * (length (vi_procs inp) + req_len req)).

  Definition run : result vst := bind init (feed feed_fuel).
End Machine.

(* the placement of a run: (process, identifier) pairs in issue order *)
Definition places_of (r : result vst) : result (list (Z * Z)) :=
  match r with Ok s => Ok (vs_places s) | Crash k => Crash k end.

(* ---------------------------------------------------------------- named hypotheses of the match theorem *)
(* the process named n has load 0 *)
Definition zero_name (inp : vinp) (n : Z) : bool :=
  forallb (fun t => negb (Z.eqb (t_name t) n) || Z.eqb (t_load t) 0) (vi_procs inp).
Definition zero_group (inp : vinp) (g : list Z) : bool := forallb (zero_name inp) g.

(* every sequence group but the last one holds processes of load 0 only *)
Fixpoint nb (inp : vinp) (pl : alist (list Z)) : bool :=
  match pl with
  | [] => true
  | (_, g) :: rest => match rest with [] => true | _ => zero_group inp g && nb inp rest end
  end.

Definition init_planned (inp : vinp) (req : request) : alist (list Z) :=
  match req with
  | RApp _ => fold_left (fun pl t => plan_add (t_seq t) (t_name t) pl) (app_targets inp) []
  | RProcs _ names => match plan_all inp names vs_empty with Ok s => vs_planned s | Crash _ => [] end
  end.

Definition H_loads_never_bind_across_groups (inp : vinp) (req : request) : bool := nb inp (init_planned inp req).

(* no wait_exit process keeps a stale "unexpected exit" flag in its per-instance information *)
Definition H_expected_fresh (inp : vinp) : bool :=
  forallb (fun t => negb (t_wait_exit t) || forallb (fun kv => snd kv) (t_expected t)) (vi_procs inp).

(* an application request, or a request for one process (what 'group:name' gives) *)
Definition H_app_or_single_process (req : request) : bool :=
  match req with RApp _ => true | RProcs _ [_] => true | RProcs _ _ => false end.

(* ==================================================================================================== *)
(** * 2. The heap layer *)

(* the property-relevant part of one info dictionary; [ir_rest] stands for all its other items *)
Record infor := mkIR { ir_state : pstate; ir_expected : bool; ir_disabled : bool; ir_rest : Z }.

Definition heap := alist infor.

(* a live ProcessStatus *)
Record lproc := mkLP {
  lp_name : Z;
  lp_state : pstate;              (* _state *)
  lp_forced : option pstate;      (* forced_state *)
  lp_running : list Z;            (* running_identifiers *)
  lp_infos : alist Z;             (* info_map : identifier -> LOCATION of the dictionary *)
  lp_seq : Z; lp_required : bool; lp_wait_exit : bool; lp_load : Z; lp_sfs : Z;   (* rules (shared object) *)
  lp_cands : list Z;              (* possible_identifiers() *)
  lp_rest : Z                     (* every other attribute (digest) *)
}.

Record lapp := mkLA { la_name : Z; la_state : Z; la_rest : Z; la_managed : bool; la_procs : list lproc }.

Record ctx := mkCtx {
  cx_heap : heap;
  cx_next : Z;                              (* allocation pointer: every live location is below it *)
  cx_apps : list lapp;                      (* context.applications *)
  cx_insts : list (Z * Z * option Z);       (* identifier, state, node *)
  cx_nodes : alist (list Z);                (* mapper.nodes *)
  cx_jobs : list Z;                         (* real Starter / Stopper planned + current jobs (canonical encoding) *)
  cx_reqs : list Z;                         (* requests emitted so far (rpc handler log) *)
  cx_rules : list (Z * Z * list Z)          (* (application, process, rules as reported) *)
}.

Definition set_heap (cx : ctx) (h : heap) (nx : Z) : ctx :=
  mkCtx h nx (cx_apps cx) (cx_insts cx) (cx_nodes cx) (cx_jobs cx) (cx_reqs cx) (cx_rules cx).

(* what can be reached from the live objects *)
Definition live_infos (h : heap) (lp : lproc) : list (Z * option infor) :=
  map (fun il => (fst il, aget (snd il) h)) (lp_infos lp).

Definition vproc := (lproc * list (Z * option infor))%type.

Record view := mkView {
  vw_apps : list (Z * Z * Z * list vproc);
  vw_managed : list Z;                       (* names of the managed applications (rules.managed) *)
  vw_insts : list (Z * Z * option Z);
  vw_nodes : alist (list Z);
  vw_jobs : list Z;
  vw_reqs : list Z;
  vw_rules : list (Z * Z * list Z)
}.

Definition view_app (h : heap) (a : lapp) : Z * Z * Z * list vproc :=
  (la_name a, la_state a, la_rest a, map (fun lp => (lp, live_infos h lp)) (la_procs a)).

Definition view_of (cx : ctx) : view :=
  mkView (map (view_app (cx_heap cx)) (cx_apps cx))
         (map la_name (filter la_managed (cx_apps cx))) (cx_insts cx) (cx_nodes cx) (cx_jobs cx) (cx_reqs cx)
         (cx_rules cx).

(* ---- what Supvisors reports (the observable of the property) *)
Record oproc := mkOP {
  op_name : Z; op_state : pstate; op_forced : option pstate; op_running : list Z;
  op_infos : list (Z * (pstate * bool * bool * Z)); op_rest : Z }.

Record oview := mkOV {
  ov_apps : list (Z * Z * Z * list oproc);   (* application, state, rest, processes *)
  ov_loads : list (Z * Z);                   (* instance loads *)
  ov_jobs : list Z;
  ov_reqs : list Z;
  ov_rules : list (Z * Z * list Z)
}.

Definition oinfo (x : Z * option infor) : Z * (pstate * bool * bool * Z) :=
  (fst x, match snd x with
          | Some r => (ir_state r, ir_expected r, ir_disabled r, ir_rest r)
          | None => (UNKNOWN, false, false, -1)
          end).

Definition oproc_of (vp : vproc) : oproc :=
  let lp := fst vp in
  mkOP (lp_name lp) (lp_state lp) (lp_forced lp) (zsort (lp_running lp)) (map oinfo (snd vp)) (lp_rest lp).

(* SupvisorsInstanceStatus.get_load : expected_load of the processes running_on(i) *)
Definition all_vprocs (v : view) : list vproc := concat (map (fun a => snd a) (vw_apps v)).

Definition lp_running_on (lp : lproc) (i : Z) : bool := is_running (lp_state lp) && zmem i (lp_running lp).

Definition base_load (v : view) (i : Z) : Z :=
  fold_right (fun vp acc => (if lp_running_on (fst vp) i then lp_load (fst vp) else 0) + acc) 0 (all_vprocs v).

Definition observe_view (v : view) : oview :=
  mkOV (map (fun a => (fst (fst (fst a)), snd (fst (fst a)), snd (fst a), map oproc_of (snd a))) (vw_apps v))
       (map (fun x => (fst (fst x), base_load v (fst (fst x)))) (vw_insts v))
       (vw_jobs v) (vw_reqs v) (vw_rules v).

Definition observe_ctx (cx : ctx) : oview := observe_view (view_of cx).

(* ---- input of the value machine, read from the live view *)
Definition tproc_of (vp : vproc) : tproc :=
  let lp := fst vp in
  mkT (lp_name lp) (lp_seq lp) (lp_required lp) (lp_wait_exit lp) (lp_load lp) (lp_sfs lp) (lp_cands lp)
      (lp_state lp)
      (map (fun x => (fst x, match snd x with Some r => ir_expected r | None => true end)) (snd vp)).

Definition find_app (v : view) (a : Z) : option (Z * Z * Z * list vproc) :=
  find (fun x => Z.eqb (fst (fst (fst x))) a) (vw_apps v).

Definition inp_of_view (v : view) (a : Z) : vinp :=
  match find_app v a with
  | Some x => mkVI (map (fun i => fst (fst i)) (vw_insts v))
                   (Z.eqb (snd (fst (fst x))) gen_ApplicationStates_STOPPED)
                   (zmem a (vw_managed v))
                   (map tproc_of (snd x))
  | None => mkVI (map (fun i => fst (fst i)) (vw_insts v)) false false []
  end.

(* the layout handed to strategy.get_supvisors_instance: live loads + what the started processes add *)
Fixpoint zip_extra (insts : list (Z * Z * option Z)) (extra : list Z) : list (Z * Z) :=
  match insts, extra with
  | x :: r, e :: er => (fst (fst x), e) :: zip_extra r er
  | x :: r, [] => (fst (fst x), 0) :: zip_extra r []
  | [], _ => []
  end.

Definition layout_of (apps : list (Z * Z * Z * list vproc)) (insts : list (Z * Z * option Z))
           (nodes : alist (list Z)) (extra : list Z) : Strategy.layout :=
  let ex := zip_extra insts extra in
  let v := mkView apps [] insts nodes [] [] [] in
  Strategy.mkLayout
    (map (fun x => let i := fst (fst x) in
                   (i, Strategy.mkInst (snd (fst x)) (snd x) (base_load v i + Strategy.dget i ex 0)))
         insts)
    nodes.

Definition local_identifier : Z := 1.

Definition place_of (apps : list (Z * Z * Z * list vproc)) (insts : list (Z * Z * option Z))
           (nodes : alist (list Z)) (strat : Z) (extra : list Z) (cands : list Z) (load : Z) (reqs : alist Z)
  : result (option Z) :=
  match Strategy.strategy_of_code strat with
  | None => Crash ValueError
  | Some s => Strategy.get_supvisors_instance s local_identifier (layout_of apps insts nodes extra) cands load reqs
  end.

(* the real strategies on the live layout: reads the applications (loads), the instances and the nodes only *)
Definition place_of_view (v : view) := place_of (vw_apps v) (vw_insts v) (vw_nodes v).

(* ---- the two ways of building the mock ProcessStatus *)
Record variant := mkVar {
  v_deep : bool;         (* info_map = {identifier: info.copy()} (current) / info_map.copy() (before 6a6da35) *)
  v_after_noop : bool    (* StarterModel.after overridden (current) / Starter.after inherited (before e8a69e6) *)
}.
Definition current_code : variant := mkVar true true.
Definition shallow_code : variant := mkVar false true.
Definition inherited_after_code : variant := mkVar true false.

(* info_map.copy() : the mock holds THE SAME dictionaries *)
Definition mk_mock_shallow (cx : ctx) (lp : lproc) : ctx * alist Z := (cx, lp_infos lp).

(* {identifier: info.copy()} : one fresh dictionary per entry *)
Fixpoint copy_infos (h : heap) (nx : Z) (infos : alist Z) : heap * Z * alist Z :=
  match infos with
  | [] => (h, nx, [])
  | (i, l) :: r =>
      let h1 := match aget l h with Some rec => aset nx rec h | None => h end in
      let '(h2, nx2, m) := copy_infos h1 (nx + 1) r in
      (h2, nx2, (i, nx) :: m)
  end.

Definition mk_mock (cx : ctx) (lp : lproc) : ctx * alist Z :=
  let '(h, nx, m) := copy_infos (cx_heap cx) (cx_next cx) (lp_infos lp) in
  (set_heap cx h nx, m).

Definition mk_mock_of (V : variant) := if v_deep V then mk_mock else mk_mock_shallow.

Fixpoint mk_mocks (V : variant) (cx : ctx) (lps : list lproc) : ctx * alist (alist Z) :=
  match lps with
  | [] => (cx, [])
  | lp :: r =>
      let '(cx1, m) := mk_mock_of V cx lp in
      let '(cx2, ms) := mk_mocks V cx1 r in
      (cx2, (lp_name lp, m) :: ms)
  end.

(* process.info_map[identifier]['state'] = state, through the mock's locations *)
Definition apply_write (mocks : alist (alist Z)) (h : heap) (w : Z * Z * pstate) : heap :=
  let '(n, i, st) := w in
  match aget n mocks with
  | Some m => match aget i m with
              | Some l => match aget l h with
                          | Some r => aset l (mkIR st (ir_expected r) (ir_disabled r) (ir_rest r)) h
                          | None => h
                          end
              | None => h
              end
  | None => h
  end.

Definition apply_writes (mocks : alist (alist Z)) (ws : list (Z * Z * pstate)) (h : heap) : heap :=
  fold_left (apply_write mocks) ws h.

(* ---- the prediction payload *)
Definition payload := list (Z * pstate * bool * list Z).   (* process, displayed state, forced 'No resource', ids *)

Fixpoint pinsert (x : Z * pstate * bool * list Z) (l : payload) : payload :=
  match l with
  | [] => [x]
  | y :: r => if Z.leb (fst (fst (fst x))) (fst (fst (fst y))) then x :: l else y :: pinsert x r
  end.

(* StarterModel.process_list = the mock processes of the plan at the first next() *)
Definition targets_of (inp : vinp) (req : request) : list Z :=
  match req with
  | RApp _ => if vi_app_stopped inp then map t_name (app_targets inp) else []
  | RProcs _ _ => planned_names (init_planned inp req)
  end.

Definition payload_of (inp : vinp) (req : request) (s : vst) : payload :=
  fold_right pinsert []
    (map (fun n => (n, (if obj_forced s n then FATAL else obj_state s n), obj_forced s n,
                    match aget n (vs_ident s) with Some i => [i] | None => [] end))
         (targets_of inp req)).

(* ---- one prediction on the live context.
   What the StarterModel shares with the live context, and what it does to it:
     * the info dictionaries of the predicted processes            : written through the mock's locations;
     * process.rules (same object in the mock)                     : only read by the model classes;
       BUT Starter.store_application calls application.resolve_rules() on the LIVE application (RApp only):
       '@' / '#' identifier rules get assigned -> [rules_after] (oracle: the resolution belongs to C18);
     * supvisors.starter_model.event_list / process_list, the model's planned / current jobs : owned by the model;
     * ApplicationStartJobsModel.fail_command -> process.force_state on the mock only; listener.force_process_state
       is not reachable (the model classes are used by store_application and start_process through command_class /
       job_class);
     * Starter.after : `supvisors.stopper.stop_application(application_job.application)` on the REAL Stopper when
       the job ends with stop_request (inherited before e8a69e6, overridden by an empty method now);
     * ProcessStatus.extra_args setter (supervisor_data.update_extra_args) : never called, the commands keep
       extra_args as their own attribute;
     * publish_state_modes : overridden by an empty method. *)
Definition app_lprocs (cx : ctx) (a : Z) : list lproc :=
  match find (fun x => Z.eqb (la_name x) a) (cx_apps cx) with Some x => la_procs x | None => [] end.

Definition app_has_running (cx : ctx) (a : Z) : bool :=
  existsb (fun lp => is_running (lp_state lp)) (app_lprocs cx a).

Definition stop_token (a : Z) : Z := -1000 - a.

Definition predict (V : variant) (place : Z -> list Z -> list Z -> Z -> alist Z -> result (option Z))
           (rules_after : option (list (Z * Z * list Z))) (a : Z) (req : request) (cx : ctx)
  : ctx * result payload :=
  let inp := inp_of_view (view_of cx) a in
  match run place Model inp req with
  | Crash k => (cx, Crash k)
  | Ok s =>
      let names := targets_of inp req in
      let lps := filter (fun lp => zmem (lp_name lp) names) (app_lprocs cx a) in
      let '(cx1, mocks) := mk_mocks V cx lps in
      let h := apply_writes mocks (vs_writes s) (cx_heap cx1) in
      let stop := negb (v_after_noop V) && vs_stopreq s && app_has_running cx a in
      let rules := match req, rules_after with
                   | RApp _, Some r => if vi_app_stopped inp then r else cx_rules cx
                   | _, _ => cx_rules cx
                   end in
      (mkCtx h (cx_next cx1) (cx_apps cx) (cx_insts cx) (cx_nodes cx)
             (if stop then cx_jobs cx ++ [stop_token a] else cx_jobs cx)
             (if stop then cx_reqs cx ++ [stop_token a] else cx_reqs cx)
             rules,
       Ok (payload_of inp req s))
  end.

(* the standard placement: the real strategies on the live layout *)
Definition predict_std (V : variant) (rules_after : option (list (Z * Z * list Z))) (a : Z) (req : request)
           (cx : ctx) : ctx * result payload :=
  predict V (place_of_view (view_of cx)) rules_after a req cx.

(* k predictions in a row *)
Fixpoint predict_n (V : variant) (rules_after : option (list (Z * Z * list Z))) (a : Z) (req : request)
         (k : nat) (cx : ctx) : ctx * list (result payload) :=
  match k with
  | O => (cx, [])
  | S k' =>
      let '(cx1, p) := predict_std V rules_after a req cx in
      let '(cx2, ps) := predict_n V rules_after a req k' cx1 in
      (cx2, p :: ps)
  end.

(* every live location is below the allocation pointer *)
Definition heap_wf (cx : ctx) : bool :=
  forallb (fun a => forallb (fun lp => forallb (fun il => Z.ltb (snd il) (cx_next cx)) (lp_infos lp)) (la_procs a))
          (cx_apps cx).

(* the real start with normal events, from the same situation *)
Definition real_places (a : Z) (req : request) (cx : ctx) : result (list (Z * Z)) :=
  let v := view_of cx in
  places_of (run (place_of_view v) Real (inp_of_view v a) req).

Definition predicted_places (a : Z) (req : request) (cx : ctx) : result (list (Z * Z)) :=
  let v := view_of cx in
  places_of (run (place_of_view v) Model (inp_of_view v a) req).

(* ==================================================================================================== *)
(** * 3. Spec_C19 and the evaluators *)

(* ---- equality of observables *)
Definition opst_eqb := option_eqb pstate_eqb.
Definition zlist_eqb := list_eqb Z.eqb.
Definition oinfo_eqb (a b : Z * (pstate * bool * bool * Z)) : bool :=
  let '(i, (s, e, d, r)) := a in
  let '(i', (s', e', d', r')) := b in
  Z.eqb i i' && pstate_eqb s s' && Bool.eqb e e' && Bool.eqb d d' && Z.eqb r r'.
Definition oproc_eqb (a b : oproc) : bool :=
  Z.eqb (op_name a) (op_name b) && pstate_eqb (op_state a) (op_state b) && opst_eqb (op_forced a) (op_forced b)
  && zlist_eqb (op_running a) (op_running b) && list_eqb oinfo_eqb (op_infos a) (op_infos b)
  && Z.eqb (op_rest a) (op_rest b).
Definition oapp_eqb (a b : Z * Z * Z * list oproc) : bool :=
  let '(n, s, r, ps) := a in
  let '(n', s', r', ps') := b in
  Z.eqb n n' && Z.eqb s s' && Z.eqb r r' && list_eqb oproc_eqb ps ps'.
Definition zpair_eqb (a b : Z * Z) : bool := Z.eqb (fst a) (fst b) && Z.eqb (snd a) (snd b).
Definition rule_eqb (a b : Z * Z * list Z) : bool :=
  Z.eqb (fst (fst a)) (fst (fst b)) && Z.eqb (snd (fst a)) (snd (fst b)) && zlist_eqb (snd a) (snd b).

(* the status part: process states, per-instance information, application states, instance loads, jobs, requests *)
Definition status_eqb (a b : oview) : bool :=
  list_eqb oapp_eqb (ov_apps a) (ov_apps b) && list_eqb zpair_eqb (ov_loads a) (ov_loads b)
  && zlist_eqb (ov_jobs a) (ov_jobs b) && zlist_eqb (ov_reqs a) (ov_reqs b).
Definition rules_eqb (a b : oview) : bool := list_eqb rule_eqb (ov_rules a) (ov_rules b).
Definition oview_eqb (a b : oview) : bool := status_eqb a b && rules_eqb a b.

Definition payload_eqb (a b : payload) : bool :=
  list_eqb (fun x y => let '(n, s, f, ids) := x in let '(n', s', f', ids') := y in
                       Z.eqb n n' && pstate_eqb s s' && Bool.eqb f f' && zlist_eqb (zsort ids) (zsort ids')) a b.

Definition res_eqb {A} (eqb : A -> A -> bool) (a b : result A) : bool :=
  match a, b with
  | Ok x, Ok y => eqb x y
  | Crash k, Crash k' => crash_eqb k k'
  | _, _ => false
  end.

(* placements as sets of (process, identifier) *)
Fixpoint zpinsert (x : Z * Z) (l : list (Z * Z)) : list (Z * Z) :=
  match l with
  | [] => [x]
  | y :: r => if Z.ltb (fst x) (fst y) || (Z.eqb (fst x) (fst y) && Z.leb (snd x) (snd y)) then x :: l
              else y :: zpinsert x r
  end.
Definition zpsort (l : list (Z * Z)) : list (Z * Z) := fold_right zpinsert [] l.
Definition places_eqb (a b : list (Z * Z)) : bool := list_eqb zpair_eqb (zpsort a) (zpsort b).

Definition payload_places (p : payload) : list (Z * Z) :=
  concat (map (fun x => let '(n, _, _, ids) := x in map (fun i => (n, i)) ids) p).

(* ---- a recorded case *)
(* rules of one process as the Starter reads them, and its possible_identifiers() *)
Record prule := mkPRl {
  pl_app : Z; pl_name : Z; pl_seq : Z; pl_required : bool; pl_wait_exit : bool; pl_load : Z; pl_sfs : Z;
  pl_cands : list Z }.

Record cdesc := mkCD {
  cd_apps : list (Z * Z * Z * list oproc);   (* the live applications / processes / info dictionaries *)
  cd_managed : list Z;
  cd_prules : list prule;
  cd_insts : list (Z * Z * option Z);
  cd_nodes : alist (list Z);
  cd_jobs : list Z;
  cd_reqs : list Z;
  cd_rules : list (Z * Z * list Z) }.

Definition prule_of (cd : cdesc) (a n : Z) : prule :=
  match find (fun r => Z.eqb (pl_app r) a && Z.eqb (pl_name r) n) (cd_prules cd) with
  | Some r => r
  | None => mkPRl a n 0 false false 0 0 []
  end.

(* allocation of the info dictionaries, one location per (process, instance) entry *)
Fixpoint alloc_infos (h : heap) (nx : Z) (infos : list (Z * (pstate * bool * bool * Z))) : heap * Z * alist Z :=
  match infos with
  | [] => (h, nx, [])
  | (i, (s, e, d, r)) :: rest =>
      let '(h2, nx2, m) := alloc_infos (h ++ [(nx, mkIR s e d r)]) (nx + 1) rest in
      (h2, nx2, (i, nx) :: m)
  end.

Fixpoint alloc_procs (cd : cdesc) (a : Z) (h : heap) (nx : Z) (ps : list oproc) : heap * Z * list lproc :=
  match ps with
  | [] => (h, nx, [])
  | p :: rest =>
      let '(h1, nx1, m) := alloc_infos h nx (op_infos p) in
      let '(h2, nx2, lps) := alloc_procs cd a h1 nx1 rest in
      let r := prule_of cd a (op_name p) in
      (h2, nx2, mkLP (op_name p) (op_state p) (op_forced p) (op_running p) m (pl_seq r) (pl_required r)
                     (pl_wait_exit r) (pl_load r) (pl_sfs r) (pl_cands r) (op_rest p) :: lps)
  end.

Fixpoint alloc_apps (cd : cdesc) (h : heap) (nx : Z) (apps : list (Z * Z * Z * list oproc))
  : heap * Z * list lapp :=
  match apps with
  | [] => (h, nx, [])
  | (n, s, r, ps) :: rest =>
      let '(h1, nx1, lps) := alloc_procs cd n h nx ps in
      let '(h2, nx2, las) := alloc_apps cd h1 nx1 rest in
      (h2, nx2, mkLA n s r (zmem n (cd_managed cd)) lps :: las)
  end.

Definition build_ctx (cd : cdesc) : ctx :=
  let '(h, nx, las) := alloc_apps cd [] 0 (cd_apps cd) in
  mkCtx h nx las (cd_insts cd) (cd_nodes cd) (cd_jobs cd) (cd_reqs cd) (cd_rules cd).

Record pcase := mkPC {
  pc_ctx : cdesc;                              (* implementation: the live context before the predictions *)
  pc_loads : list (Z * Z);                     (* implementation: instance loads (get_load()) before *)
  pc_app : Z;
  pc_req : request;
  pc_k : nat;                                  (* number of predictions *)
  pc_after : oview;                            (* implementation: deep snapshot after the k predictions *)
  pc_payloads : list (result payload);         (* implementation: the k prediction results *)
  pc_real : result (list (Z * Z))              (* implementation: start requests of the real start (same situation,
                                                  normal events) *)
}.

(* implementation: deep snapshot before *)
Definition pc_before (c : pcase) : oview :=
  mkOV (cd_apps (pc_ctx c)) (pc_loads c) (cd_jobs (pc_ctx c)) (cd_reqs (pc_ctx c)) (cd_rules (pc_ctx c)).

Definition rules_oracle (c : pcase) : option (list (Z * Z * list Z)) := Some (ov_rules (pc_after c)).

(* ---- Spec_C19, evaluated on the implementation's observations only *)
(* purity: nothing Supvisors reports has changed, no request was sent, the predictions repeat *)
Definition spec_status_changed (c : pcase) : bool := negb (status_eqb (pc_before c) (pc_after c)).
Definition spec_rules_changed (c : pcase) : bool := negb (rules_eqb (pc_before c) (pc_after c)).
Definition spec_not_repeatable (c : pcase) : bool :=
  match pc_payloads c with
  | [] => false
  | p :: r => negb (forallb (res_eqb payload_eqb p) r)
  end.
(* match: the predicted placement is the real one *)
Definition spec_diverges (c : pcase) : bool :=
  match pc_payloads c, pc_real c with
  | Ok p :: _, Ok r => negb (places_eqb (payload_places p) r)
  | Crash k :: _, Crash k' => negb (crash_eqb k k')
  | [], _ => false
  | _, _ => true
  end.

(* the classes of the known findings: which named hypothesis of prediction_matches_real_partial fails *)
Definition case_inp (c : pcase) : vinp := inp_of_view (view_of (build_ctx (pc_ctx c))) (pc_app c).
Definition in_own_load_class (c : pcase) : bool := negb (H_loads_never_bind_across_groups (case_inp c) (pc_req c)).
Definition in_stale_expected_class (c : pcase) : bool :=
  negb (H_expected_fresh (case_inp c)) && negb (req_ignore (pc_req c)).
Definition in_group_order_class (c : pcase) : bool := negb (H_app_or_single_process (pc_req c)).

Definition case_spec_violation (c : pcase) : bool :=
  spec_status_changed c || spec_not_repeatable c
  || (spec_diverges c && negb (in_own_load_class c || in_stale_expected_class c || in_group_order_class c)).

Definition spec_violations (cs : list pcase) : list nat := find_idx case_spec_violation cs.
Definition known_own_load (cs : list pcase) : list nat :=
  find_idx (fun c => spec_diverges c && in_own_load_class c) cs.
Definition known_stale_expected (cs : list pcase) : list nat :=
  find_idx (fun c => spec_diverges c && in_stale_expected_class c) cs.
Definition known_group_order (cs : list pcase) : list nat :=
  find_idx (fun c => spec_diverges c && in_group_order_class c) cs.
Definition known_resolves_rules (cs : list pcase) : list nat := find_idx spec_rules_changed cs.

(* ---- model vs implementation *)
Definition case_mismatch (c : pcase) : bool :=
  let cx := build_ctx (pc_ctx c) in
  let '(cx', ps) := predict_n current_code (rules_oracle c) (pc_app c) (pc_req c) (pc_k c) cx in
  negb (heap_wf cx
        && oview_eqb (observe_ctx cx) (pc_before c)
        && oview_eqb (observe_ctx cx') (pc_after c)
        && list_eqb (res_eqb payload_eqb) ps (pc_payloads c)
        && res_eqb places_eqb (real_places (pc_app c) (pc_req c) cx) (pc_real c)).

Definition mismatches (cs : list pcase) : list nat := find_idx case_mismatch cs.

(* diagnostic: which conjunct of case_mismatch fails *)
Definition case_mismatch_parts (c : pcase) : list bool :=
  let cx := build_ctx (pc_ctx c) in
  let '(cx', ps) := predict_n current_code (rules_oracle c) (pc_app c) (pc_req c) (pc_k c) cx in
  [heap_wf cx; oview_eqb (observe_ctx cx) (pc_before c); oview_eqb (observe_ctx cx') (pc_after c);
   list_eqb (res_eqb payload_eqb) ps (pc_payloads c);
   res_eqb places_eqb (real_places (pc_app c) (pc_req c) cx) (pc_real c)].
